#!/bin/sh
# usage: run.sh <tree> [worker|online-caller]
# exit 1 + "DEADLOCK ..." when cds_lfht_resize() does not return within ~5 s,
# exit 0 when everything completes.
set -e
TREE=$(cd "${1:?usage: run.sh <tree> [worker|online-caller]}" && pwd)
MODE=${2:-worker}
HERE=$(cd "$(dirname "$0")" && pwd)
BIN=$(mktemp -d /tmp/f6demo.XXXXXX)
trap 'rm -rf "$BIN"' EXIT
${CC:-cc} -O1 -g -Wall -rdynamic -pthread -I"$TREE/include" -o "$BIN/demo" "$HERE/demo.c" \
	-L"$TREE/src/.libs" -lurcu-cds -lurcu-qsbr -ldl
LD_LIBRARY_PATH="$TREE/src/.libs${LD_LIBRARY_PATH:+:$LD_LIBRARY_PATH}"
export LD_LIBRARY_PATH
set +e
timeout -s KILL 25 "$BIN/demo" "$MODE"
rc=$?
echo "exit=$rc"
exit $rc
