/*
 * demo.c - QSBR + rculfhash: do_resize_cb() registers the work-queue thread
 * (QSBR: registered == online) BEFORE blocking on ht->resize_mutex.
 *
 * Mode "worker" (default):
 *   The worker is delayed (never blocked forever) between
 *   flavor->register_thread() and the acquisition of resize_mutex.  Meanwhile
 *   thread T (registered, OFFLINE) runs cds_lfht_resize(ht, 1): it takes
 *   resize_mutex and executes fini_table()'s synchronize_rcu(), which waits
 *   for the online worker, which waits for the mutex.
 *
 * Mode "online-caller" (extra variant, not repaired by fix.diff):
 *   A registered ONLINE thread T calls cds_lfht_resize(ht, 1) and is delayed
 *   just before acquiring resize_mutex; the worker gets the mutex first, sees
 *   resize_target < size, shrinks, and its synchronize_rcu() waits for T,
 *   which waits for the mutex.
 *
 * Only DELAYS are used to force the interleaving.
 *
 * exit 0: everything completed; exit 1: DEADLOCK; exit 2: setup problem
 * (interleaving not obtained); exit 3: backstop alarm.
 */
#define _GNU_SOURCE
#define _LGPL_SOURCE
#define RCU_QSBR
#define URCU_API_MAP
#include <urcu/urcu-qsbr.h>
#include <urcu/rculfhash.h>
#include <urcu/uatomic.h>

#include <dlfcn.h>
#include <pthread.h>
#include <signal.h>
#include <stdio.h>
#include <stdlib.h>
#include <string.h>
#include <time.h>
#include <unistd.h>

#define WORKER_DELAY_US		500000
#define CALLER_DELAY_US		1500000
#define VERDICT_MS		5000

static int (*real_lock)(pthread_mutex_t *);

/* demo-owned threads */
static pthread_t demo_threads[4];
static int nr_demo_threads;
static pthread_t thread_T;
static int have_T;

static int mode_online_caller;

static __thread int tls_record;		/* record first mutex locked (-> resize_mutex) */
static pthread_mutex_t *resize_mutex_addr;

/* worker observations (written by the interposer in the worker's context) */
static int worker_at_lock;		/* worker entered lock(resize_mutex) */
static int worker_registered = -1;	/* qsbr registered flag at that point */
static unsigned long worker_ctr;	/* qsbr reader ctr at that point (0 == offline) */
static int worker_got_lock;		/* lock(resize_mutex) returned in worker */
static int worker_other_locks_after;	/* worker locked other mutexes after getting resize_mutex */
static int worker_delays;

/* T observations */
static int T_at_lock, T_got_lock, T_other_locks_after;
static int T_go, T_ready, T_done;

static int is_demo_thread(pthread_t self)
{
	int i, n = uatomic_read(&nr_demo_threads);

	for (i = 0; i < n; i++)
		if (pthread_equal(demo_threads[i], self))
			return 1;
	return 0;
}

static void add_demo_thread(pthread_t t)
{
	demo_threads[nr_demo_threads] = t;
	cmm_smp_wmb();
	uatomic_inc(&nr_demo_threads);
}

static void resolve_real(void)
{
	if (!real_lock)
		real_lock = (int (*)(pthread_mutex_t *))
			dlsym(RTLD_NEXT, "pthread_mutex_lock");
	if (!real_lock)
		abort();
}

/* Interposer: the executable's definition wins over libc/libpthread's. */
int pthread_mutex_lock(pthread_mutex_t *m)
{
	pthread_t self;
	int ret;

	if (caa_unlikely(!real_lock))
		resolve_real();

	if (tls_record) {
		tls_record = 0;
		resize_mutex_addr = m;
		return real_lock(m);
	}
	if (!resize_mutex_addr)
		return real_lock(m);

	self = pthread_self();
	if (!is_demo_thread(self)) {
		/* hash table work-queue thread */
		if (m == resize_mutex_addr) {
			worker_registered = URCU_TLS(urcu_qsbr_reader).registered;
			worker_ctr = uatomic_read(&URCU_TLS(urcu_qsbr_reader).ctr);
			cmm_smp_mb();
			uatomic_set(&worker_at_lock, 1);
			if (uatomic_add_return(&worker_delays, 1) <= 1)
				usleep(WORKER_DELAY_US);
			ret = real_lock(m);
			uatomic_set(&worker_got_lock, 1);
			return ret;
		}
		if (uatomic_read(&worker_got_lock))
			uatomic_inc(&worker_other_locks_after);
		return real_lock(m);
	}
	if (have_T && pthread_equal(self, thread_T)) {
		if (m == resize_mutex_addr) {
			uatomic_set(&T_at_lock, 1);
			if (mode_online_caller)
				usleep(CALLER_DELAY_US);
			ret = real_lock(m);
			uatomic_set(&T_got_lock, 1);
			return ret;
		}
		if (uatomic_read(&T_got_lock))
			uatomic_inc(&T_other_locks_after);
	}
	return real_lock(m);
}

static struct cds_lfht *ht;

static long now_ms(void)
{
	struct timespec ts;

	clock_gettime(CLOCK_MONOTONIC, &ts);
	return ts.tv_sec * 1000L + ts.tv_nsec / 1000000L;
}

/* wait (caller must be OFFLINE or not registered) */
static int wait_flag(int *flag, long ms)
{
	long end = now_ms() + ms;

	while (!uatomic_read(flag)) {
		if (now_ms() >= end)
			return 0;
		usleep(1000);
	}
	return 1;
}

static void *T_fn(void *arg)
{
	(void) arg;
	rcu_register_thread();
	if (!mode_online_caller)
		rcu_thread_offline();	/* T is correctly OFFLINE */
	uatomic_set(&T_ready, 1);
	if (mode_online_caller) {
		/* stay online, but keep announcing quiescent states while idle */
		while (!uatomic_read(&T_go)) {
			rcu_quiescent_state();
			usleep(1000);
		}
	} else {
		while (!uatomic_read(&T_go))
			usleep(1000);
	}
	cds_lfht_resize(ht, 1);		/* shrink: fini_table -> synchronize_rcu under resize_mutex */
	uatomic_set(&T_done, 1);
	if (!mode_online_caller)
		rcu_thread_online();
	rcu_unregister_thread();
	return NULL;
}

static void dump_state(void)
{
	printf("  resize_mutex=%p\n", (void *) resize_mutex_addr);
	printf("  worker: reached lock(resize_mutex)=%d  qsbr.registered=%d qsbr.ctr=%lu (%s) at that point\n",
		worker_at_lock, worker_registered, worker_ctr,
		worker_registered == 1 && worker_ctr ? "ONLINE" :
		worker_registered == 1 ? "registered, offline" : "not registered");
	printf("  worker: acquired resize_mutex=%d  other mutexes locked afterwards (gp lock etc.)=%d\n",
		worker_got_lock, worker_other_locks_after);
	printf("  T(%s): reached lock(resize_mutex)=%d acquired=%d  other mutexes locked afterwards (synchronize_rcu's gp/registry locks)=%d  cds_lfht_resize returned=%d\n",
		mode_online_caller ? "online" : "offline",
		T_at_lock, T_got_lock, T_other_locks_after, T_done);
	fflush(stdout);
}

static void on_alarm(int sig)
{
	static const char msg[] = "BACKSTOP alarm fired\n";

	(void) sig;
	if (write(1, msg, sizeof(msg) - 1) < 0) {}
	_exit(3);
}

#define NR_NODES 16
static struct cds_lfht_node nodes[NR_NODES];

int main(int argc, char **argv)
{
	pthread_t tid;
	int i, nadded;

	if (argc > 1 && !strcmp(argv[1], "online-caller"))
		mode_online_caller = 1;
	setvbuf(stdout, NULL, _IOLBF, 0);
	signal(SIGALRM, on_alarm);
	alarm(20);
	resolve_real();
	add_demo_thread(pthread_self());

	printf("mode: %s\n", mode_online_caller ? "online-caller" : "worker");
	rcu_register_thread();
	ht = cds_lfht_new(1, 1, 0, CDS_LFHT_AUTO_RESIZE | CDS_LFHT_ACCOUNTING, NULL);
	if (!ht) {
		printf("cds_lfht_new failed\n");
		return 2;
	}

	/* Explicit grow to 64 buckets; first mutex locked in there is resize_mutex. */
	tls_record = 1;
	cds_lfht_resize(ht, 64);
	tls_record = 0;
	if (!resize_mutex_addr) {
		printf("SETUP: interposer did not see resize_mutex (interposition not effective?)\n");
		return 2;
	}

	if (pthread_create(&tid, NULL, T_fn, NULL))
		return 2;
	thread_T = tid;
	cmm_smp_wmb();
	have_T = 1;
	add_demo_thread(tid);
	rcu_thread_offline();
	if (!wait_flag(&T_ready, 2000)) {
		printf("SETUP: T not ready\n");
		return 2;
	}
	rcu_thread_online();

	/*
	 * Long chain in bucket 5 of 64 (distinct hashes, same bucket):
	 * check_resize() -> cds_lfht_resize_lazy_grow() -> work queued.
	 */
	for (i = 0; i < NR_NODES && !uatomic_read(&worker_at_lock); i++) {
		cds_lfht_node_init(&nodes[i]);
		rcu_read_lock();
		cds_lfht_add(ht, 5UL + 64UL * i, &nodes[i]);
		rcu_read_unlock();
		rcu_quiescent_state();
		usleep(2000);
	}
	nadded = i;
	printf("added %d nodes\n", nadded);

	/* A must not stall grace periods itself */
	rcu_thread_offline();

	if (!wait_flag(&worker_at_lock, 3000)) {
		printf("SETUP: lazy resize never reached the work-queue thread\n");
		dump_state();
		return 2;
	}
	printf("worker is in front of resize_mutex: qsbr.registered=%d qsbr.ctr=%lu\n",
		worker_registered, worker_ctr);

	/* online-caller mode: T additionally sleeps CALLER_DELAY_US in front of the mutex */
	uatomic_set(&T_go, 1);

	if (!wait_flag(&T_done, VERDICT_MS + (mode_online_caller ? CALLER_DELAY_US / 1000 : 0))) {
		printf("DEADLOCK: cds_lfht_resize(ht, 1) has not returned after %d ms\n", VERDICT_MS);
		dump_state();
		_exit(1);
	}
	printf("cds_lfht_resize(ht, 1) returned\n");
	if (!wait_flag(&worker_got_lock, VERDICT_MS)) {
		printf("DEADLOCK: work-queue thread never acquired resize_mutex\n");
		dump_state();
		_exit(1);
	}
	pthread_join(tid, NULL);
	dump_state();

	rcu_thread_online();
	for (i = 0; i < nadded; i++) {
		rcu_read_lock();
		(void) cds_lfht_del(ht, &nodes[i]);
		rcu_read_unlock();
	}
	rcu_quiescent_state();
	i = cds_lfht_destroy(ht, NULL);
	printf("cds_lfht_destroy -> %d\n", i);
	rcu_thread_offline();
	usleep(200000);		/* let the worker run the destroy work */
	rcu_thread_online();
	rcu_unregister_thread();
	printf("OK: everything completed\n");
	return 0;
}
