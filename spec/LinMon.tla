------------------------------- MODULE LinMon -------------------------------
(***************************************************************************)
(* Just-in-time linearizability monitor (DESIGN 2.1).                      *)
(*                                                                         *)
(* State kept by the using module:                                         *)
(*   pend : [Thr -> op record]   operation in flight per thread            *)
(*                               ([op |-> "none"] when idle)               *)
(*   cfgs : set of configurations [abs |-> abstract state,                 *)
(*                                 done |-> [Thr -> result | NL]]          *)
(* A configuration is one way of having linearised a subset of the pending *)
(* operations, with the results they would then return.  At a return of    *)
(* thread t with result r, the set is closed under "linearise any pending  *)
(* operation", and only configurations in which t's operation was          *)
(* linearised with result r survive.  The history so far is linearizable   *)
(* iff the set is non-empty.                                               *)
(*                                                                         *)
(* Apply(abs, op, stage, t) = [abs |-> abs', res |-> r] is the sequential  *)
(* specification of the abstract object.  Results are strings.  An         *)
(* operation that takes effect in two atomic steps (wfcq splice: detach    *)
(* from the source, then append to the destination) returns the            *)
(* intermediate result Half from its first step (stage = NL) and its final *)
(* result from the second (stage = Half).                                  *)
(***************************************************************************)
EXTENDS Naturals, Sequences, FiniteSets
CONSTANTS Apply(_, _, _, _), Thr

NL == "~"
Half == "@1"
NoOp == [op |-> "none"]

LinOne(c, u, pend) == LET r == Apply(c.abs, pend[u], c.done[u], u)
                      IN  [abs |-> r.abs, done |-> [c.done EXCEPT ![u] = r.res]]

RECURSIVE Close(_, _)
Close(S, pend) ==
  LET N == S \cup {LinOne(p[1], p[2], pend) :
                     p \in {q \in S \X Thr : pend[q[2]].op # "none" /\ q[1].done[q[2]] \in {NL, Half}}}
  IN  IF N = S THEN S ELSE Close(N, pend)

\* thread t returns result r
AfterReturn(cfgs, pend, t, r) ==
  {[c EXCEPT !.done[t] = NL] : c \in {d \in Close(cfgs, pend) : d.done[t] = r}}

\* thread t returns without effect and without a result constrained by the abstract state (WOULDBLOCK)
AfterAbort(cfgs, pend, t) == {c \in cfgs : c.done[t] = NL}

InitCfgs(abs0) == {[abs |-> abs0, done |-> [t \in Thr |-> NL]]}
=============================================================================
