------------------------------- MODULE UrcuGp -------------------------------
(***************************************************************************)
(* Grace periods of the memb and mb flavors (src/urcu.c, urcu-wait.h,      *)
(* static/urcu-memb.h, static/urcu-mb.h, static/urcu-common.h) at one      *)
(* action per shared-memory access / blocking call, under SC or x86-TSO.   *)
(*                                                                         *)
(* Threads run scenario programs (Prog): reader ops  reg unreg lock unlock *)
(* deref use,  updater ops  pub(k) sync free.  Decides C01 (GPGuarantee,   *)
(* NoUseAfterFree), C02 (deadlock freedom with spurious/EINTR futex        *)
(* returns; FairSpec => Termination), C15 (register/unregister at any      *)
(* point) and, with Signal steps, C19.                                     *)
(*                                                                         *)
(* Counter encoding (as logged by the runtime): nesting count + 65536 when *)
(* the phase bit is set.                                                   *)
(*                                                                         *)
(* FutexMode: "futex"  futex() works (FUTEX_WAIT sleeps, FUTEX_WAKE wakes) *)
(*   "enosys" futex() fails with ENOSYS: on Linux BOTH futex_async() and   *)
(*            futex_noasync() (include/urcu/futex.h:78-112) then call      *)
(*            compat_futex_async(): mb; WAIT = load/compare/poll loop,     *)
(*            WAKE = nothing (runtime: VRT_FUTEX_ENOSYS=1)                 *)
(*   "compat" the generic branch of futex.h (lines 222-236, platforms      *)
(*            without futex): futex_async = compat_futex_async,            *)
(*            futex_noasync = compat_futex_noasync (mb; mutex; WAIT =      *)
(*            while (uaddr[0] == val) cond_wait; WAKE = cond_broadcast)    *)
(* Skip: fence labels turned into no-ops, Weak: seq_cst stores turned into *)
(* plain stores ({} for every claim; used for triage / vacuity control).   *)
(* SBBlock: a store blocks while the thread's buffer holds SBMax entries   *)
(* (finite hardware buffer) instead of bounding buffers by a CONSTRAINT;   *)
(* used for the liveness configurations, which have no state constraint.   *)
(***************************************************************************)
EXTENDS Naturals, Integers, Sequences, FiniteSets, TLC

CONSTANTS Threads, Prog, TSO, Tracing, SBMax,
          Flavor,         \* "mb" | "memb"
          SysMb,          \* memb only: sys_membarrier available (readers have no fences)
          QSAttempts,     \* RCU_QS_ACTIVE_ATTEMPTS of the build (driver: -DURCU_VERIF_RCU_QS_ACTIVE_ATTEMPTS)
          WaitAttempts,   \* URCU_WAIT_ATTEMPTS of the build
          FaultBudget,    \* number of spurious / EINTR returns of FUTEX_WAIT per execution
          SigThreads,     \* threads that can be interrupted by the signal handler (C19); {} otherwise
          SigBudget,      \* number of signal deliveries per execution
          SigFutex,       \* TRUE: a signal may also hit a thread asleep in FUTEX_WAIT; its wait then returns EINTR (runtime: VRT_SIG_FUTEX=1)
          FutexMode,      \* "futex" | "enosys" | "compat" (see above)
          Skip, Weak,     \* mutation parameters: sets of labels ({} for all claims)
          SBBlock         \* TRUE: stores block on a full buffer (SBMax) -- no state constraint needed

PHASE == 65536
NULL == "NULL"
END == "END"
WAITING == 0  WAKEUP == 1  RUNNING == 2  TEARDOWN == 4
Wn(t) == "wn." \o t
Rctr(t) == "rctr." \o t
WnNext(n) == n \o ".next"
WnState(n) == n \o ".state"
Objs == {"obj0", "obj1", "obj2", "obj3"}
Locs == {"gp_ctr", "gp_futex", "gptr", "waiters"} \cup {Rctr(t) : t \in Threads}
        \cup {WnNext(Wn(t)) : t \in Threads} \cup {WnState(Wn(t)) : t \in Threads}
FlId(t) == "F:" \o t
Flushers == {FlId(t) : t \in Threads}
FlOf == [f \in Flushers |-> CHOOSE t \in Threads : FlId(t) = f]
WId(t) == "W:" \o t
FaultIds == {WId(t) : t \in Threads}
WOf == [w \in FaultIds |-> CHOOSE t \in Threads : WId(t) = w]
SigId(t) == "S:" \o t
SigIds == {SigId(t) : t \in SigThreads}
SigOf == [h \in SigIds |-> CHOOSE t \in SigThreads : SigId(t) = h]
ReaderFence == Flavor = "mb" \/ ~SysMb            \* smp_mb_slave() is a real fence
Nest(v) == v % PHASE
Ph(v) == v \div PHASE
HasBit(v, b) == (v \div b) % 2 = 1
OrBit(v, b) == IF HasBit(v, b) THEN v ELSE v + b

(* --algorithm urcugp {
variables
  mem = [l \in Locs |-> CASE l = "gp_ctr" -> 1 [] l = "gp_futex" -> 0 [] l = "gptr" -> "obj0" [] l = "waiters" -> END
                          [] l \in {WnNext(Wn(t)) : t \in Threads} -> NULL [] OTHER -> 0],
  sb = [t \in Threads |-> <<>>],
  lock = [m \in {"gp_lock", "registry_lock", "compat_lock"} |-> "free"],
  acc = [k |-> 0],
  registry = {}, cursnap = {}, qsr = {},       \* reader lists (plain data under registry_lock)
  wnlive = {},                                 \* ghost (C02): stack wait nodes of synchronize_rcu() calls in progress (pushed, caller not yet returned)
  regd = {},                                   \* ghost (C15): threads between rcu_register_thread() and rcu_unregister_thread()
  sleeping = [t \in Threads |-> "none"],       \* FUTEX_WAIT: location slept on ("compat_cond": pthread_cond_wait in compat_futex_noasync)
  woken = [t \in Threads |-> FALSE],
  wkind = [t \in Threads |-> "WAKE"],          \* how the pending wake-up came about: FUTEX_WAKE, or a fault (value-unchanged return 0 / EINTR)
  faults = 0, sigs = 0,
  myctr = [t \in Threads |-> 0],               \* each thread's reader word as the thread itself sees it (its TLS)
  insig = [t \in Threads |-> FALSE],           \* the thread is executing the signal handler
  hcs = [t \in Threads |-> 0],                 \* ghost: critical section opened by the handler when it interrupted code outside any section
  alive = [o \in Objs |-> TRUE],
  cs = [t \in Threads |-> 0],                  \* ghost: id of the open outermost critical section (0: none)
  pre = [t \in Threads |-> {}];                \* ghost: sections open when t called synchronize_rcu()

define {
  LastIdx(t, loc) == LET S == {i \in DOMAIN sb[t] : sb[t][i][1] = loc} IN
                     IF S = {} THEN 0 ELSE CHOOSE i \in S : \A j \in S : j <= i
  Rd(t, loc) == IF LastIdx(t, loc) = 0 THEN mem[loc] ELSE sb[t][LastIdx(t, loc)][2]
  Drained(t) == sb[t] = <<>>
  Ev(t, op, var, a, b, r) == IF Tracing THEN [k |-> acc.k + 1, t |-> t, op |-> op, var |-> var, a |-> a, b |-> b, r |-> r] ELSE acc
  OpenCS == {<<t, cs[t]>> : t \in {x \in Threads : cs[x] # 0}} \cup {<<t, hcs[t]>> : t \in {x \in Threads : hcs[x] # 0}}
}

macro Ld(dst, loc)        { dst := Rd(self, loc); acc := Ev(self, "ld", loc, "-", "-", Rd(self, loc)); }
macro St(loc, v)          { if (TSO) { await ~SBBlock \/ Len(sb[self]) < SBMax; sb[self] := Append(sb[self], <<loc, v>>) } else { mem[loc] := v };
                            acc := Ev(self, "st", loc, v, "-", "-"); }
macro StSC(loc, v)        { await Drained(self); mem[loc] := v; acc := Ev(self, "st", loc, v, "-", "-"); }
macro Xchg(dst, loc, v)   { await Drained(self); dst := mem[loc]; mem[loc] := v; acc := Ev(self, "xchg", loc, v, "-", dst); }
macro Mb()                { await Drained(self); acc := Ev(self, "mb", "-", "-", "-", "-"); }
macro Lock(m)             { await Drained(self) /\ lock[m] = "free"; lock[m] := self; acc := Ev(self, "lock", m, "-", "-", "-"); }
macro Unlock(m)           { await Drained(self); lock[m] := "free"; acc := Ev(self, "unlock", m, "-", "-", "-"); }

\* the same accesses issued by the signal handler, on behalf of (and through the store buffer of) the interrupted thread T
macro HLd(T, dst, loc)    { dst := Rd(T, loc); acc := Ev(T, "ld", loc, "-", "-", Rd(T, loc)); }
macro HSt(T, loc, v)      { if (TSO) { await ~SBBlock \/ Len(sb[T]) < SBMax; sb[T] := Append(sb[T], <<loc, v>>) } else { mem[loc] := v }; acc := Ev(T, "st", loc, v, "-", "-"); }
macro HStSC(T, loc, v)    { await Drained(T); mem[loc] := v; acc := Ev(T, "st", loc, v, "-", "-"); }
macro HMb(T)              { await Drained(T); acc := Ev(T, "mb", "-", "-", "-", "-"); }

fair process (flusher \in Flushers) {
fl: while (TRUE) {
      await sb[FlOf[self]] # <<>>;
      mem[Head(sb[FlOf[self]])[1]] := Head(sb[FlOf[self]])[2] || sb[FlOf[self]] := Tail(sb[FlOf[self]])
      || acc := IF Tracing THEN [k |-> acc.k + 1, t |-> FlOf[self], op |-> "flush", var |-> Head(sb[FlOf[self]])[1],
                               a |-> Head(sb[FlOf[self]])[2], b |-> "-", r |-> "-"] ELSE acc;
    }
}

\* Faults: a sleeper is taken off its futex (or condition variable) queue WITHOUT a wake-up call -- FUTEX_WAIT will return 0 with the word
\* unchanged ("SPURIOUS") or -1/EINTR -- at most FaultBudget times per execution.  As in the kernel (and in the VSCHED runtime: agent W:<t>) this is
\* a step of its own: a FUTEX_WAKE issued between it and the moment the sleeper runs again finds nobody to wake.  Not fair (faults need not happen).
process (faulter \in FaultIds)
{
w_f: while (TRUE) {
       await faults < FaultBudget /\ sleeping[WOf[self]] # "none" /\ ~woken[WOf[self]];
       with (k \in IF sleeping[WOf[self]] = "compat_cond" THEN {"SPURIOUS"} ELSE {"SPURIOUS", "EINTR"}) {
         woken[WOf[self]] := TRUE || wkind[WOf[self]] := k; faults := faults + 1;
       }
     }
}

\* C19: a signal handler doing rcu_read_lock(); p = rcu_dereference(gptr); rcu_read_unlock() that interrupts thread T at ANY
\* point (between any two of its steps); T does not run while the handler is active (SpecSig below).
process (sig \in SigIds)
variables T = SigOf[self], htmp = 0, hg = 0, hf = 0, hheld = NULL, entry = 0;
{
h_idle: while (TRUE) {
          await sigs < SigBudget /\ ~insig[T] /\ T \in registry \cup cursnap \cup qsr /\ pc[T] \notin {"Done", "t_end", "x_lock", "x_del", "x_unl"}
                /\ (sleeping[T] = "none" \/ (SigFutex /\ sleeping[T] # "compat_cond" /\ ~woken[T]))
                /\ Drained(T);                                   \* signal delivery enters and leaves the kernel: a full barrier for T
          sigs := sigs + 1; insig[T] := TRUE; entry := myctr[T];
          if (sleeping[T] # "none") { woken[T] := TRUE || wkind[T] := "EINTR" };   \* handler without SA_RESTART: the interrupted FUTEX_WAIT returns EINTR afterwards (no FaultBudget)
          acc := Ev(T, "sig_enter", "-", "-", "-", "-");
        \* rcu_read_lock()
h_ltop:   htmp := myctr[T];
          if (Nest(myctr[T]) # 0) { goto h_lnest };
h_lld:    HLd(T, hg, "gp_ctr");
h_lst:    HSt(T, Rctr(T), hg); myctr[T] := hg;
h_lmb:    if (ReaderFence /\ "rl_mb" \notin Skip) { HMb(T) };
h_lin:    if (cs[T] = 0) { hcs[T] := 1000 + sigs };
          goto h_deref;
h_lnest:  HSt(T, Rctr(T), htmp + 1); myctr[T] := htmp + 1;
h_deref:  HLd(T, hheld, "gptr");
h_use:    assert hheld = NULL \/ alive[hheld];
        \* rcu_read_unlock()
h_utop:   htmp := myctr[T];
          if (Nest(myctr[T]) # 1) { goto h_unest };
h_uout:   hcs[T] := 0; hheld := NULL;
h_umb1:   if (Flavor = "memb" /\ ReaderFence /\ "ru_mb1" \notin Skip) { HMb(T) };
h_ust:    if (Flavor = "mb" /\ "ru_st" \notin Weak) { HStSC(T, Rctr(T), htmp - 1) } else { HSt(T, Rctr(T), htmp - 1) };
          myctr[T] := htmp - 1;
h_umb2:   if (Flavor = "memb" /\ ReaderFence /\ "ru_mb2" \notin Skip) { HMb(T) };
h_uldf:   HLd(T, hf, "gp_futex");
          if (hf # -1) { goto h_ret };
h_ustf:   HSt(T, "gp_futex", 0);
          if (FutexMode = "compat") { goto h_cmb };
h_uwake:  await Drained(T);
          if (FutexMode = "futex") {
            with (w \in IF {t \in Threads : sleeping[t] = "gp_futex" /\ ~woken[t]} = {} THEN {"none"}
                        ELSE {t \in Threads : sleeping[t] = "gp_futex" /\ ~woken[t]}) {
              if (w # "none") { woken[w] := TRUE };
              acc := Ev(T, "fwake", "gp_futex", "-", "-", IF w = "none" THEN 0 ELSE 1);
            };
            goto h_ret;
          } else { acc := Ev(T, "fwake", "gp_futex", "-", "-", "ENOSYS") };     \* futex() = -1/ENOSYS -> compat_futex_async()
h_cmb:    HMb(T);                                                \* compat_futex_async: cmm_smp_mb(); FUTEX_WAKE: nothing
          goto h_ret;
h_unest:  HSt(T, Rctr(T), htmp - 1); myctr[T] := htmp - 1; hheld := NULL;
h_ret:    assert Nest(myctr[T]) = Nest(entry) /\ (Nest(entry) # 0 => myctr[T] = entry);   \* C19: nesting (and, inside a section, its phase) exactly as found
          await Drained(T);                                      \* sigreturn: full barrier
          insig[T] := FALSE;
          acc := Ev(T, "sig_exit", "-", "-", "-", "-");
        }
}

fair process (thr \in Threads)
variables i = 1, op = [op |-> "none"], res = "-",
          tmp = 0,              \* tmp = URCU_TLS(rcu_reader).ctr (plain read of the thread's own word)
          g = 0, f = 0, held = NULL, old = NULL,
          oldh = NULL, popped = NULL, it = NULL, nx = NULL, st = 0, wi = 0,
          wl = 0, ph = 0, scan = {}, v = 0, ipi = {}, ret = "", mret = "";
{
t_top:  while (i <= Len(Prog[self])) {
          op := Prog[self][i]; res := "-";
t_disp:   if (op.op = "reg") { goto g_lock }
          else if (op.op = "unreg") { goto x_lock }
          else if (op.op = "lock") { goto rl_top }
          else if (op.op = "unlock") { goto ru_top }
          else if (op.op = "deref") { goto dr_ld }
          else if (op.op = "use") { assert held = NULL \/ alive[held]; goto t_ret }
          else if (op.op = "pub") { goto p_xchg }
          else if (op.op = "sync") { goto s_call }
          else { if (old # NULL) { alive[old] := FALSE; res := old; old := NULL }; goto t_ret };   \* free

        \* ---------------- rcu_register_thread / rcu_unregister_thread
g_lock:   assert self \notin regd /\ Nest(myctr[self]) = 0;       \* urcu_posix_assert(!registered), assert(!(ctr & NEST_MASK)): scenario well-formedness
          Lock("registry_lock");
g_add:    registry := registry \cup {self} || regd := regd \cup {self};   \* cds_list_add(&rcu_reader.node, &registry)
g_unl:    Unlock("registry_lock");
          goto t_ret;
x_lock:   assert self \in regd /\ Nest(myctr[self]) = 0;          \* unregistering inside a critical section is API misuse
          Lock("registry_lock");
x_del:    registry := registry \ {self} || cursnap := cursnap \ {self} || qsr := qsr \ {self}   \* cds_list_del(&rcu_reader.node): whichever list holds it
          || regd := regd \ {self};
x_unl:    Unlock("registry_lock");
          goto t_ret;

        \* ---------------- _rcu_read_lock  (tmp = own ctr is a plain read of the thread's TLS)
rl_top:   assert self \in regd;                                  \* readers must be registered (C15: sections belong to registered threads only)
          tmp := myctr[self];                                    \* tmp = URCU_TLS(rcu_reader).ctr
          if (Nest(myctr[self]) # 0) { goto rl_nest };
rl_ld:    Ld(g, "gp_ctr");                                       \* gctr = uatomic_load(&rcu_gp.ctr)
rl_st:    St(Rctr(self), g); myctr[self] := g;                   \* uatomic_store(ctr, gctr)
rl_mb:    if (ReaderFence /\ "rl_mb" \notin Skip) { Mb() };                             \* smp_mb_slave() / cmm_smp_mb()
rl_in:    cs[self] := i;                                         \* rcu_read_lock() returned: the section has begun
          goto t_ret;
rl_nest:  St(Rctr(self), tmp + 1); myctr[self] := tmp + 1;       \* uatomic_store(ctr, tmp + URCU_GP_COUNT)
          goto t_ret;

        \* ---------------- _rcu_read_unlock
ru_top:   assert held = NULL \/ alive[held];
          tmp := myctr[self];                                    \* tmp = URCU_TLS(rcu_reader).ctr
          if (Nest(myctr[self]) # 1) { goto ru_nest };
ru_out:   cs[self] := 0; held := NULL;                           \* outermost unlock entered: the section has ended
ru_mb1:   if (Flavor = "memb" /\ ReaderFence /\ "ru_mb1" \notin Skip) { Mb() };          \* memb: smp_mb_slave()
ru_st:    if (Flavor = "mb" /\ "ru_st" \notin Weak) { StSC(Rctr(self), tmp - 1) } else { St(Rctr(self), tmp - 1) };   \* mb: CMM_SEQ_CST store
          myctr[self] := tmp - 1;
ru_mb2:   if (Flavor = "memb" /\ ReaderFence /\ "ru_mb2" \notin Skip) { Mb() };          \* write rcu_reader.ctr before read futex
ru_ldf:   Ld(f, "gp_futex");                                     \* urcu_common_wake_up_gp: load futex
          if (f # -1) { goto t_ret };
ru_stf:   St("gp_futex", 0);
          if (FutexMode = "compat") { goto ru_cmb };
ru_wake:  await Drained(self);                                   \* futex_async(FUTEX_WAKE, 1)
          if (FutexMode = "futex") {
            with (w \in IF {t \in Threads : sleeping[t] = "gp_futex" /\ ~woken[t]} = {} THEN {"none"}
                        ELSE {t \in Threads : sleeping[t] = "gp_futex" /\ ~woken[t]}) {
              if (w # "none") { woken[w] := TRUE };
              acc := Ev(self, "fwake", "gp_futex", "-", "-", IF w = "none" THEN 0 ELSE 1);
            };
            goto t_ret;
          } else { acc := Ev(self, "fwake", "gp_futex", "-", "-", "ENOSYS") };  \* futex() = -1/ENOSYS -> compat_futex_async()
ru_cmb:   Mb();                                                  \* compat_futex_async: cmm_smp_mb(); FUTEX_WAKE: nothing
          goto t_ret;
ru_nest:  St(Rctr(self), tmp - 1); myctr[self] := tmp - 1;
          goto t_ret;

        \* ---------------- rcu_dereference(gptr), rcu_xchg_pointer(&gptr, obj)
dr_ld:    Ld(held, "gptr"); res := held;
          goto t_ret;
p_xchg:   Xchg(old, "gptr", op.o); res := old;
          goto t_ret;

        \* ---------------- synchronize_rcu
s_call:   pre[self] := OpenCS;
s_mb0:    if ("s_mb0" \notin Skip) { Mb() };                      \* cds_wfs_push: cmm_emit_legacy_smp_mb()
s_push:   wnlive := wnlive \cup {Wn(self)};
          Xchg(oldh, "waiters", Wn(self));                       \* old_head = uatomic_xchg(&s->head, new_head)
s_link:   St(WnNext(Wn(self)), oldh);                            \* uatomic_store(&node->next, &old_head->node, RELEASE)
          if (oldh # END) { wi := 0; goto a_ld1 };               \* not first in queue: wait for the leader
        \* leader
s_run:    if (Tracing \/ ~TSO) { await Drained(self); mem[WnState(Wn(self))] := RUNNING }     \* urcu_wait_set_state(&wait, RUNNING): PLAIN store
          else { await ~SBBlock \/ Len(sb[self]) < SBMax;
                 sb[self] := Append(sb[self], <<WnState(Wn(self)), RUNNING>>) };            \* (executed code commits plain stores at once)
s_gplk:   Lock("gp_lock");
s_pop:    Xchg(popped, "waiters", END);                          \* __cds_wfs_pop_all: uatomic_xchg(&s->head, CDS_WFS_END)
s_popmb:  if ("s_popmb" \notin Skip) { Mb() };                    \* cmm_emit_legacy_smp_mb()
s_rglk:   Lock("registry_lock");
          if (registry = {}) { goto s_out };
s_mm1:    mret := "s_p1"; if ("s_mm1" \in Skip) { goto s_p1 } else { goto master };   \* smp_mb_master()
s_p1:     ph := 1; ret := "s_mb2"; goto w_top;                   \* wait_for_readers(&registry, &cur_snap_readers, &qsreaders)
s_mb2:    if ("s_mb2" \notin Skip) { Mb() };                      \* cmm_smp_mb() ("not formally required")
s_flip:   St("gp_ctr", IF Ph(Rd(self, "gp_ctr")) = 0 THEN Rd(self, "gp_ctr") + PHASE ELSE Rd(self, "gp_ctr") - PHASE);
s_mb3:    if ("s_mb3" \notin Skip) { Mb() };                      \* cmm_smp_mb() ("not formally required")
s_p2:     ph := 2; ret := "s_splice"; goto w_top;                \* wait_for_readers(&cur_snap_readers, NULL, &qsreaders)
s_splice: registry := registry \cup qsr || qsr := {};            \* cds_list_splice(&qsreaders, &registry)
s_mm2:    mret := "s_out"; if ("s_mm2" \in Skip) { goto s_out } else { goto master };
s_out:    Unlock("registry_lock");
s_gpun:   Unlock("gp_lock");
          it := popped;
        \* urcu_wake_all_waiters: cds_wfs_for_each_blocking_safe
k_top:    if (it = END) { goto s_ret };
k_next:   assert it \in wnlive;                                  \* C02: the waker only touches wait nodes whose owner has not returned (TEARDOWN protocol)
          Ld(nx, WnNext(it));                                    \* cds_wfs_next_blocking: ___cds_wfs_node_sync_next
          if (nx = NULL) { goto k_next };
k_ldst:   assert it \in wnlive;
          Ld(st, WnState(it));                                   \* if (uatomic_load(&wait_node->state) & RUNNING) continue
          if (HasBit(st, RUNNING)) { it := nx; goto k_top };
k_as:     assert it \in wnlive;
          Ld(st, WnState(it));                                   \* urcu_adaptative_wake_up: assert(state == WAITING)
          assert st = WAITING;
k_wk:     assert it \in wnlive;
          St(WnState(it), WAKEUP);                               \* uatomic_store(&wait->state, WAKEUP, RELEASE)
k_ld2:    assert it \in wnlive;
          Ld(st, WnState(it));
          if (HasBit(st, RUNNING)) { goto k_or } else if (FutexMode = "compat") { goto kn_mb };
k_fw:     await Drained(self);                                   \* futex_noasync(&wait->state, FUTEX_WAKE, 1)
          if (FutexMode = "futex") {
            with (w \in IF {t \in Threads : sleeping[t] = WnState(it) /\ ~woken[t]} = {} THEN {"none"}
                        ELSE {t \in Threads : sleeping[t] = WnState(it) /\ ~woken[t]}) {
              if (w # "none") { woken[w] := TRUE };
              acc := Ev(self, "fwake", WnState(it), "-", "-", IF w = "none" THEN 0 ELSE 1);
            };
            goto k_or;
          } else { acc := Ev(self, "fwake", WnState(it), "-", "-", "ENOSYS") };   \* Linux: ENOSYS -> compat_futex_async()
kc_mb:    Mb();                                                  \* compat_futex_async: cmm_smp_mb(); FUTEX_WAKE: nothing
          goto k_or;
kn_mb:    Mb();                                                  \* compat_futex_noasync(FUTEX_WAKE): cmm_smp_mb()
kn_lock:  Lock("compat_lock");                                   \* pthread_mutex_lock(&__urcu_compat_futex_lock)
kn_bc:    await Drained(self);                                   \* pthread_cond_broadcast(&__urcu_compat_futex_cond): every cond waiter, whatever its uaddr
          woken := [t \in Threads |-> IF sleeping[t] = "compat_cond" THEN TRUE ELSE woken[t]];
          acc := Ev(self, "cbroadcast", "-", "-", "-", "-");
kn_unl:   Unlock("compat_lock");
k_or:     assert it \in wnlive;
          await Drained(self);                                   \* uatomic_or_mo(&wait->state, TEARDOWN, RELEASE)
          mem[WnState(it)] := OrBit(mem[WnState(it)], TEARDOWN) ||
          acc := Ev(self, "or", WnState(it), TEARDOWN, "-", OrBit(mem[WnState(it)], TEARDOWN));
          it := nx; goto k_top;

        \* waiter: urcu_adaptative_busy_wait (the cmm_smp_rmb() is a compiler barrier on x86)
a_ld1:    Ld(st, WnState(Wn(self)));                             \* for (i < URCU_WAIT_ATTEMPTS) if (state != WAITING) goto skip
          if (st # WAITING) { goto a_or } else { wi := wi + 1; if (wi < WaitAttempts) { goto a_ld1 } else { goto a_ld2 } };
a_ld2:    Ld(st, WnState(Wn(self)));                             \* while (state == WAITING)
          if (st # WAITING) { goto a_or } else if (FutexMode = "compat") { goto an_mb };
a_fw:     await Drained(self);                                   \* futex_noasync(&wait->state, FUTEX_WAIT, WAITING)
          if (FutexMode # "futex") { acc := Ev(self, "fwait", WnState(Wn(self)), "-", "-", "ENOSYS"); goto ac_mb }   \* Linux: ENOSYS -> compat_futex_async()
          else if (mem[WnState(Wn(self))] # WAITING) { acc := Ev(self, "fwait", WnState(Wn(self)), WAITING, "-", "EAGAIN"); goto a_or }
          else { sleeping[self] := WnState(Wn(self)); woken[self] := FALSE; acc := Ev(self, "fwait", WnState(Wn(self)), WAITING, "-", "SLEEP") };
a_wk:     await woken[self];                                     \* woken by FUTEX_WAKE or by a fault (faulter)
          acc := Ev(self, "fwoke", WnState(Wn(self)), "-", "-", wkind[self]);
          sleeping[self] := "none"; woken[self] := FALSE; wkind[self] := "WAKE";
          goto a_ld2;
        \* compat_futex_async(FUTEX_WAIT): mb; while (uatomic_load(uaddr) == val) poll(NULL, 0, 10); return 0 -> "continue"
ac_mb:    Mb();
ac_ld:    Ld(st, WnState(Wn(self)));
          if (st = WAITING) { goto ac_ld } else { goto a_ld2 };
        \* compat_futex_noasync(FUTEX_WAIT): mb; lock; while (uatomic_load(uaddr) == val) pthread_cond_wait(); unlock; return 0
an_mb:    Mb();
an_lock:  Lock("compat_lock");
an_ld:    Ld(st, WnState(Wn(self)));
          if (st # WAITING) { goto an_unl };
an_cw:    await Drained(self);                                   \* pthread_cond_wait: atomically release the mutex and sleep
          lock["compat_lock"] := "free"; sleeping[self] := "compat_cond"; woken[self] := FALSE;
          acc := Ev(self, "cwait", "compat_lock", "-", "-", "-");
an_cwk:   await woken[self];                                     \* broadcast, or spurious wake-up (POSIX allows it; faulter)
          sleeping[self] := "none"; woken[self] := FALSE; wkind[self] := "WAKE";
an_relk:  await Drained(self) /\ lock["compat_lock"] = "free";   \* re-acquire the mutex before pthread_cond_wait returns
          lock["compat_lock"] := self; acc := Ev(self, "cwoke", "compat_lock", "-", "-", "-");
          goto an_ld;
an_unl:   Unlock("compat_lock");
          goto a_ld2;
a_or:     await Drained(self);                                   \* uatomic_or(&wait->state, RUNNING)
          mem[WnState(Wn(self))] := OrBit(mem[WnState(Wn(self))], RUNNING) ||
          acc := Ev(self, "or", WnState(Wn(self)), RUNNING, "-", OrBit(mem[WnState(Wn(self))], RUNNING));
          wi := 0;
a_ld3:    Ld(st, WnState(Wn(self)));                             \* for (i < URCU_WAIT_ATTEMPTS) if (state & TEARDOWN) break
          if (HasBit(st, TEARDOWN)) { goto a_ld4 } else { wi := wi + 1; if (wi < WaitAttempts) { goto a_ld3 } else { goto a_ld4 } };
a_ld4:    Ld(st, WnState(Wn(self)));                             \* while (!(state & TEARDOWN)) poll()
          if (~HasBit(st, TEARDOWN)) { goto a_ld4 };
a_ld5:    Ld(st, WnState(Wn(self)));                             \* assert(state & TEARDOWN)
          assert HasBit(st, TEARDOWN);
          goto s_ret;

s_ret:    assert pre[self] \cap OpenCS = {};                     \* C01: every pre-existing critical section has ended
          mem[WnNext(Wn(self))] := NULL || mem[WnState(Wn(self))] := 0;   \* the stack wait node dies; next call re-initialises it
          wnlive := wnlive \ {Wn(self)};
          pre[self] := {};
          goto t_ret;

        \* ---------------- wait_for_readers (ph = 1: registry -> cursnap/qsr; ph = 2: cursnap -> qsr)
w_top:    wl := 0;
w_loop:   if (wl < QSAttempts) { wl := wl + 1 };
          if (wl < QSAttempts) { goto w_scan0 };
w_dec:    await Drained(self);                                   \* uatomic_dec(&rcu_gp.futex)
          mem["gp_futex"] := mem["gp_futex"] - 1 || acc := Ev(self, "dec", "gp_futex", "-", "-", mem["gp_futex"] - 1);
w_mm:     mret := "w_scan0"; if ("w_mm" \in Skip) { goto w_scan0 } else { goto master };   \* write futex before read reader_gp
w_scan0:  scan := IF ph = 1 THEN registry ELSE cursnap;
w_scan:   if (scan = {}) { goto w_chk };
w_ldr:    with (r \in scan) {                                    \* urcu_common_reader_state: v = uatomic_load(ctr)
            assert r \in regd;                                   \* C15: never the reader word of a thread whose unregister has taken effect
            v := Rd(self, Rctr(r)); acc := Ev(self, "ld", Rctr(r), "-", "-", Rd(self, Rctr(r)));
            scan := scan \ {r};
            if (Nest(Rd(self, Rctr(r))) = 0) {                   \* INACTIVE
              if (ph = 1) { registry := registry \ {r} } else { cursnap := cursnap \ {r} }; qsr := qsr \cup {r}
            } else if (Ph(Rd(self, Rctr(r))) = Ph(Rd(self, "gp_ctr"))) {   \* ACTIVE_CURRENT
              if (ph = 1) { registry := registry \ {r}; cursnap := cursnap \cup {r} }
              else { cursnap := cursnap \ {r}; qsr := qsr \cup {r} }
            }                                                    \* ACTIVE_OLD: stays
          };
          goto w_scan;
w_chk:    if ((IF ph = 1 THEN registry ELSE cursnap) # {}) { goto w_wait }
          else if (wl < QSAttempts) { goto w_done };
w_mm2:    mret := "w_st0"; if ("w_mm2" \in Skip) { goto w_st0 } else { goto master };   \* read reader_gp before write futex
w_st0:    St("gp_futex", 0);
w_done:   if (ret = "s_mb2") { goto s_mb2 } else { goto s_splice };
w_wait:   if (wl < QSAttempts) { goto wr_unl };
wg_mm:    mret := "wg_unl"; if ("wg_mm" \in Skip) { goto wg_unl } else { goto master };   \* wait_gp(): smp_mb_master()
wg_unl:   Unlock("registry_lock");
wg_ld:    Ld(f, "gp_futex");                                     \* while (uatomic_load(&rcu_gp.futex) == -1)
          if (f # -1) { goto wg_lock } else if (FutexMode = "compat") { goto wgc_mb };
wg_fw:    await Drained(self);                                   \* futex_async(&rcu_gp.futex, FUTEX_WAIT, -1)
          if (FutexMode # "futex") { acc := Ev(self, "fwait", "gp_futex", "-", "-", "ENOSYS"); goto wgc_mb }   \* ENOSYS -> compat_futex_async()
          else if (mem["gp_futex"] # -1) { acc := Ev(self, "fwait", "gp_futex", -1, "-", "EAGAIN"); goto wg_lock }
          else { sleeping[self] := "gp_futex"; woken[self] := FALSE; acc := Ev(self, "fwait", "gp_futex", -1, "-", "SLEEP") };
wg_wk:    await woken[self];                                     \* woken by FUTEX_WAKE or by a fault (faulter)
          acc := Ev(self, "fwoke", "gp_futex", "-", "-", wkind[self]);
          sleeping[self] := "none"; woken[self] := FALSE; wkind[self] := "WAKE";
          goto wg_ld;
        \* compat_futex_async(FUTEX_WAIT): mb; while (uatomic_load(uaddr) == val) poll(NULL, 0, 10); return 0 -> "continue"
wgc_mb:   Mb();
wgc_ld:   Ld(f, "gp_futex");
          if (f = -1) { goto wgc_ld } else { goto wg_ld };
wg_lock:  Lock("registry_lock");
          goto w_loop;
wr_unl:   Unlock("registry_lock");                               \* busy-wait round: unlock, caa_cpu_relax(), lock
wr_lock:  Lock("registry_lock");
          goto w_loop;

        \* ---------------- smp_mb_master()
master:   if (Flavor = "memb" /\ SysMb) { ipi := Threads; goto m_ipi } else { goto m_mb };
m_mb:     Mb();
          goto m_ret;
m_ipi:    if (ipi # {}) { with (t \in ipi) { await Drained(t); ipi := ipi \ {t} }; goto m_ipi };
m_sys:    acc := Ev(self, "sysmb", "-", "-", "-", "-");          \* membarrier() returns: every thread executed a barrier since the call
m_ret:    if (mret = "s_p1") { goto s_p1 } else if (mret = "w_scan0") { goto w_scan0 } else if (mret = "w_st0") { goto w_st0 }
          else if (mret = "wg_unl") { goto wg_unl } else { goto s_out };

t_ret:    i := i + 1;
        };
t_end:  skip;
}
} *)
\* BEGIN TRANSLATION
VARIABLES pc, mem, sb, lock, acc, registry, cursnap, qsr, wnlive, regd, 
          sleeping, woken, wkind, faults, sigs, myctr, insig, hcs, alive, cs, 
          pre

(* define statement *)
LastIdx(t, loc) == LET S == {i \in DOMAIN sb[t] : sb[t][i][1] = loc} IN
                   IF S = {} THEN 0 ELSE CHOOSE i \in S : \A j \in S : j <= i
Rd(t, loc) == IF LastIdx(t, loc) = 0 THEN mem[loc] ELSE sb[t][LastIdx(t, loc)][2]
Drained(t) == sb[t] = <<>>
Ev(t, op, var, a, b, r) == IF Tracing THEN [k |-> acc.k + 1, t |-> t, op |-> op, var |-> var, a |-> a, b |-> b, r |-> r] ELSE acc
OpenCS == {<<t, cs[t]>> : t \in {x \in Threads : cs[x] # 0}} \cup {<<t, hcs[t]>> : t \in {x \in Threads : hcs[x] # 0}}

VARIABLES T, htmp, hg, hf, hheld, entry, i, op, res, tmp, g, f, held, old, 
          oldh, popped, it, nx, st, wi, wl, ph, scan, v, ipi, ret, mret

vars == << pc, mem, sb, lock, acc, registry, cursnap, qsr, wnlive, regd, 
           sleeping, woken, wkind, faults, sigs, myctr, insig, hcs, alive, cs, 
           pre, T, htmp, hg, hf, hheld, entry, i, op, res, tmp, g, f, held, 
           old, oldh, popped, it, nx, st, wi, wl, ph, scan, v, ipi, ret, mret
        >>

ProcSet == (Flushers) \cup (FaultIds) \cup (SigIds) \cup (Threads)

Init == (* Global variables *)
        /\ mem = [l \in Locs |-> CASE l = "gp_ctr" -> 1 [] l = "gp_futex" -> 0 [] l = "gptr" -> "obj0" [] l = "waiters" -> END
                                   [] l \in {WnNext(Wn(t)) : t \in Threads} -> NULL [] OTHER -> 0]
        /\ sb = [t \in Threads |-> <<>>]
        /\ lock = [m \in {"gp_lock", "registry_lock", "compat_lock"} |-> "free"]
        /\ acc = [k |-> 0]
        /\ registry = {}
        /\ cursnap = {}
        /\ qsr = {}
        /\ wnlive = {}
        /\ regd = {}
        /\ sleeping = [t \in Threads |-> "none"]
        /\ woken = [t \in Threads |-> FALSE]
        /\ wkind = [t \in Threads |-> "WAKE"]
        /\ faults = 0
        /\ sigs = 0
        /\ myctr = [t \in Threads |-> 0]
        /\ insig = [t \in Threads |-> FALSE]
        /\ hcs = [t \in Threads |-> 0]
        /\ alive = [o \in Objs |-> TRUE]
        /\ cs = [t \in Threads |-> 0]
        /\ pre = [t \in Threads |-> {}]
        (* Process sig *)
        /\ T = [self \in SigIds |-> SigOf[self]]
        /\ htmp = [self \in SigIds |-> 0]
        /\ hg = [self \in SigIds |-> 0]
        /\ hf = [self \in SigIds |-> 0]
        /\ hheld = [self \in SigIds |-> NULL]
        /\ entry = [self \in SigIds |-> 0]
        (* Process thr *)
        /\ i = [self \in Threads |-> 1]
        /\ op = [self \in Threads |-> [op |-> "none"]]
        /\ res = [self \in Threads |-> "-"]
        /\ tmp = [self \in Threads |-> 0]
        /\ g = [self \in Threads |-> 0]
        /\ f = [self \in Threads |-> 0]
        /\ held = [self \in Threads |-> NULL]
        /\ old = [self \in Threads |-> NULL]
        /\ oldh = [self \in Threads |-> NULL]
        /\ popped = [self \in Threads |-> NULL]
        /\ it = [self \in Threads |-> NULL]
        /\ nx = [self \in Threads |-> NULL]
        /\ st = [self \in Threads |-> 0]
        /\ wi = [self \in Threads |-> 0]
        /\ wl = [self \in Threads |-> 0]
        /\ ph = [self \in Threads |-> 0]
        /\ scan = [self \in Threads |-> {}]
        /\ v = [self \in Threads |-> 0]
        /\ ipi = [self \in Threads |-> {}]
        /\ ret = [self \in Threads |-> ""]
        /\ mret = [self \in Threads |-> ""]
        /\ pc = [self \in ProcSet |-> CASE self \in Flushers -> "fl"
                                        [] self \in FaultIds -> "w_f"
                                        [] self \in SigIds -> "h_idle"
                                        [] self \in Threads -> "t_top"]

fl(self) == /\ pc[self] = "fl"
            /\ sb[FlOf[self]] # <<>>
            /\ /\ acc' = IF Tracing THEN [k |-> acc.k + 1, t |-> FlOf[self], op |-> "flush", var |-> Head(sb[FlOf[self]])[1],
                                        a |-> Head(sb[FlOf[self]])[2], b |-> "-", r |-> "-"] ELSE acc
               /\ mem' = [mem EXCEPT ![Head(sb[FlOf[self]])[1]] = Head(sb[FlOf[self]])[2]]
               /\ sb' = [sb EXCEPT ![FlOf[self]] = Tail(sb[FlOf[self]])]
            /\ pc' = [pc EXCEPT ![self] = "fl"]
            /\ UNCHANGED << lock, registry, cursnap, qsr, wnlive, regd, 
                            sleeping, woken, wkind, faults, sigs, myctr, insig, 
                            hcs, alive, cs, pre, T, htmp, hg, hf, hheld, entry, 
                            i, op, res, tmp, g, f, held, old, oldh, popped, it, 
                            nx, st, wi, wl, ph, scan, v, ipi, ret, mret >>

flusher(self) == fl(self)

w_f(self) == /\ pc[self] = "w_f"
             /\ faults < FaultBudget /\ sleeping[WOf[self]] # "none" /\ ~woken[WOf[self]]
             /\ \E k \in IF sleeping[WOf[self]] = "compat_cond" THEN {"SPURIOUS"} ELSE {"SPURIOUS", "EINTR"}:
                  /\ /\ wkind' = [wkind EXCEPT ![WOf[self]] = k]
                     /\ woken' = [woken EXCEPT ![WOf[self]] = TRUE]
                  /\ faults' = faults + 1
             /\ pc' = [pc EXCEPT ![self] = "w_f"]
             /\ UNCHANGED << mem, sb, lock, acc, registry, cursnap, qsr, 
                             wnlive, regd, sleeping, sigs, myctr, insig, hcs, 
                             alive, cs, pre, T, htmp, hg, hf, hheld, entry, i, 
                             op, res, tmp, g, f, held, old, oldh, popped, it, 
                             nx, st, wi, wl, ph, scan, v, ipi, ret, mret >>

faulter(self) == w_f(self)

h_idle(self) == /\ pc[self] = "h_idle"
                /\ sigs < SigBudget /\ ~insig[T[self]] /\ T[self] \in registry \cup cursnap \cup qsr /\ pc[T[self]] \notin {"Done", "t_end", "x_lock", "x_del", "x_unl"}
                   /\ (sleeping[T[self]] = "none" \/ (SigFutex /\ sleeping[T[self]] # "compat_cond" /\ ~woken[T[self]]))
                   /\ Drained(T[self])
                /\ sigs' = sigs + 1
                /\ insig' = [insig EXCEPT ![T[self]] = TRUE]
                /\ entry' = [entry EXCEPT ![self] = myctr[T[self]]]
                /\ IF sleeping[T[self]] # "none"
                      THEN /\ /\ wkind' = [wkind EXCEPT ![T[self]] = "EINTR"]
                              /\ woken' = [woken EXCEPT ![T[self]] = TRUE]
                      ELSE /\ TRUE
                           /\ UNCHANGED << woken, wkind >>
                /\ acc' = Ev(T[self], "sig_enter", "-", "-", "-", "-")
                /\ pc' = [pc EXCEPT ![self] = "h_ltop"]
                /\ UNCHANGED << mem, sb, lock, registry, cursnap, qsr, wnlive, 
                                regd, sleeping, faults, myctr, hcs, alive, cs, 
                                pre, T, htmp, hg, hf, hheld, i, op, res, tmp, 
                                g, f, held, old, oldh, popped, it, nx, st, wi, 
                                wl, ph, scan, v, ipi, ret, mret >>

h_ltop(self) == /\ pc[self] = "h_ltop"
                /\ htmp' = [htmp EXCEPT ![self] = myctr[T[self]]]
                /\ IF Nest(myctr[T[self]]) # 0
                      THEN /\ pc' = [pc EXCEPT ![self] = "h_lnest"]
                      ELSE /\ pc' = [pc EXCEPT ![self] = "h_lld"]
                /\ UNCHANGED << mem, sb, lock, acc, registry, cursnap, qsr, 
                                wnlive, regd, sleeping, woken, wkind, faults, 
                                sigs, myctr, insig, hcs, alive, cs, pre, T, hg, 
                                hf, hheld, entry, i, op, res, tmp, g, f, held, 
                                old, oldh, popped, it, nx, st, wi, wl, ph, 
                                scan, v, ipi, ret, mret >>

h_lld(self) == /\ pc[self] = "h_lld"
               /\ hg' = [hg EXCEPT ![self] = Rd(T[self], "gp_ctr")]
               /\ acc' = Ev(T[self], "ld", "gp_ctr", "-", "-", Rd(T[self], "gp_ctr"))
               /\ pc' = [pc EXCEPT ![self] = "h_lst"]
               /\ UNCHANGED << mem, sb, lock, registry, cursnap, qsr, wnlive, 
                               regd, sleeping, woken, wkind, faults, sigs, 
                               myctr, insig, hcs, alive, cs, pre, T, htmp, hf, 
                               hheld, entry, i, op, res, tmp, g, f, held, old, 
                               oldh, popped, it, nx, st, wi, wl, ph, scan, v, 
                               ipi, ret, mret >>

h_lst(self) == /\ pc[self] = "h_lst"
               /\ IF TSO
                     THEN /\ ~SBBlock \/ Len(sb[T[self]]) < SBMax
                          /\ sb' = [sb EXCEPT ![T[self]] = Append(sb[T[self]], <<(Rctr(T[self])), hg[self]>>)]
                          /\ mem' = mem
                     ELSE /\ mem' = [mem EXCEPT ![(Rctr(T[self]))] = hg[self]]
                          /\ sb' = sb
               /\ acc' = Ev(T[self], "st", (Rctr(T[self])), hg[self], "-", "-")
               /\ myctr' = [myctr EXCEPT ![T[self]] = hg[self]]
               /\ pc' = [pc EXCEPT ![self] = "h_lmb"]
               /\ UNCHANGED << lock, registry, cursnap, qsr, wnlive, regd, 
                               sleeping, woken, wkind, faults, sigs, insig, 
                               hcs, alive, cs, pre, T, htmp, hg, hf, hheld, 
                               entry, i, op, res, tmp, g, f, held, old, oldh, 
                               popped, it, nx, st, wi, wl, ph, scan, v, ipi, 
                               ret, mret >>

h_lmb(self) == /\ pc[self] = "h_lmb"
               /\ IF ReaderFence /\ "rl_mb" \notin Skip
                     THEN /\ Drained(T[self])
                          /\ acc' = Ev(T[self], "mb", "-", "-", "-", "-")
                     ELSE /\ TRUE
                          /\ acc' = acc
               /\ pc' = [pc EXCEPT ![self] = "h_lin"]
               /\ UNCHANGED << mem, sb, lock, registry, cursnap, qsr, wnlive, 
                               regd, sleeping, woken, wkind, faults, sigs, 
                               myctr, insig, hcs, alive, cs, pre, T, htmp, hg, 
                               hf, hheld, entry, i, op, res, tmp, g, f, held, 
                               old, oldh, popped, it, nx, st, wi, wl, ph, scan, 
                               v, ipi, ret, mret >>

h_lin(self) == /\ pc[self] = "h_lin"
               /\ IF cs[T[self]] = 0
                     THEN /\ hcs' = [hcs EXCEPT ![T[self]] = 1000 + sigs]
                     ELSE /\ TRUE
                          /\ hcs' = hcs
               /\ pc' = [pc EXCEPT ![self] = "h_deref"]
               /\ UNCHANGED << mem, sb, lock, acc, registry, cursnap, qsr, 
                               wnlive, regd, sleeping, woken, wkind, faults, 
                               sigs, myctr, insig, alive, cs, pre, T, htmp, hg, 
                               hf, hheld, entry, i, op, res, tmp, g, f, held, 
                               old, oldh, popped, it, nx, st, wi, wl, ph, scan, 
                               v, ipi, ret, mret >>

h_lnest(self) == /\ pc[self] = "h_lnest"
                 /\ IF TSO
                       THEN /\ ~SBBlock \/ Len(sb[T[self]]) < SBMax
                            /\ sb' = [sb EXCEPT ![T[self]] = Append(sb[T[self]], <<(Rctr(T[self])), (htmp[self] + 1)>>)]
                            /\ mem' = mem
                       ELSE /\ mem' = [mem EXCEPT ![(Rctr(T[self]))] = htmp[self] + 1]
                            /\ sb' = sb
                 /\ acc' = Ev(T[self], "st", (Rctr(T[self])), (htmp[self] + 1), "-", "-")
                 /\ myctr' = [myctr EXCEPT ![T[self]] = htmp[self] + 1]
                 /\ pc' = [pc EXCEPT ![self] = "h_deref"]
                 /\ UNCHANGED << lock, registry, cursnap, qsr, wnlive, regd, 
                                 sleeping, woken, wkind, faults, sigs, insig, 
                                 hcs, alive, cs, pre, T, htmp, hg, hf, hheld, 
                                 entry, i, op, res, tmp, g, f, held, old, oldh, 
                                 popped, it, nx, st, wi, wl, ph, scan, v, ipi, 
                                 ret, mret >>

h_deref(self) == /\ pc[self] = "h_deref"
                 /\ hheld' = [hheld EXCEPT ![self] = Rd(T[self], "gptr")]
                 /\ acc' = Ev(T[self], "ld", "gptr", "-", "-", Rd(T[self], "gptr"))
                 /\ pc' = [pc EXCEPT ![self] = "h_use"]
                 /\ UNCHANGED << mem, sb, lock, registry, cursnap, qsr, wnlive, 
                                 regd, sleeping, woken, wkind, faults, sigs, 
                                 myctr, insig, hcs, alive, cs, pre, T, htmp, 
                                 hg, hf, entry, i, op, res, tmp, g, f, held, 
                                 old, oldh, popped, it, nx, st, wi, wl, ph, 
                                 scan, v, ipi, ret, mret >>

h_use(self) == /\ pc[self] = "h_use"
               /\ Assert(hheld[self] = NULL \/ alive[hheld[self]], 
                         "Failure of assertion at line 161, column 11.")
               /\ pc' = [pc EXCEPT ![self] = "h_utop"]
               /\ UNCHANGED << mem, sb, lock, acc, registry, cursnap, qsr, 
                               wnlive, regd, sleeping, woken, wkind, faults, 
                               sigs, myctr, insig, hcs, alive, cs, pre, T, 
                               htmp, hg, hf, hheld, entry, i, op, res, tmp, g, 
                               f, held, old, oldh, popped, it, nx, st, wi, wl, 
                               ph, scan, v, ipi, ret, mret >>

h_utop(self) == /\ pc[self] = "h_utop"
                /\ htmp' = [htmp EXCEPT ![self] = myctr[T[self]]]
                /\ IF Nest(myctr[T[self]]) # 1
                      THEN /\ pc' = [pc EXCEPT ![self] = "h_unest"]
                      ELSE /\ pc' = [pc EXCEPT ![self] = "h_uout"]
                /\ UNCHANGED << mem, sb, lock, acc, registry, cursnap, qsr, 
                                wnlive, regd, sleeping, woken, wkind, faults, 
                                sigs, myctr, insig, hcs, alive, cs, pre, T, hg, 
                                hf, hheld, entry, i, op, res, tmp, g, f, held, 
                                old, oldh, popped, it, nx, st, wi, wl, ph, 
                                scan, v, ipi, ret, mret >>

h_uout(self) == /\ pc[self] = "h_uout"
                /\ hcs' = [hcs EXCEPT ![T[self]] = 0]
                /\ hheld' = [hheld EXCEPT ![self] = NULL]
                /\ pc' = [pc EXCEPT ![self] = "h_umb1"]
                /\ UNCHANGED << mem, sb, lock, acc, registry, cursnap, qsr, 
                                wnlive, regd, sleeping, woken, wkind, faults, 
                                sigs, myctr, insig, alive, cs, pre, T, htmp, 
                                hg, hf, entry, i, op, res, tmp, g, f, held, 
                                old, oldh, popped, it, nx, st, wi, wl, ph, 
                                scan, v, ipi, ret, mret >>

h_umb1(self) == /\ pc[self] = "h_umb1"
                /\ IF Flavor = "memb" /\ ReaderFence /\ "ru_mb1" \notin Skip
                      THEN /\ Drained(T[self])
                           /\ acc' = Ev(T[self], "mb", "-", "-", "-", "-")
                      ELSE /\ TRUE
                           /\ acc' = acc
                /\ pc' = [pc EXCEPT ![self] = "h_ust"]
                /\ UNCHANGED << mem, sb, lock, registry, cursnap, qsr, wnlive, 
                                regd, sleeping, woken, wkind, faults, sigs, 
                                myctr, insig, hcs, alive, cs, pre, T, htmp, hg, 
                                hf, hheld, entry, i, op, res, tmp, g, f, held, 
                                old, oldh, popped, it, nx, st, wi, wl, ph, 
                                scan, v, ipi, ret, mret >>

h_ust(self) == /\ pc[self] = "h_ust"
               /\ IF Flavor = "mb" /\ "ru_st" \notin Weak
                     THEN /\ Drained(T[self])
                          /\ mem' = [mem EXCEPT ![(Rctr(T[self]))] = htmp[self] - 1]
                          /\ acc' = Ev(T[self], "st", (Rctr(T[self])), (htmp[self] - 1), "-", "-")
                          /\ sb' = sb
                     ELSE /\ IF TSO
                                THEN /\ ~SBBlock \/ Len(sb[T[self]]) < SBMax
                                     /\ sb' = [sb EXCEPT ![T[self]] = Append(sb[T[self]], <<(Rctr(T[self])), (htmp[self] - 1)>>)]
                                     /\ mem' = mem
                                ELSE /\ mem' = [mem EXCEPT ![(Rctr(T[self]))] = htmp[self] - 1]
                                     /\ sb' = sb
                          /\ acc' = Ev(T[self], "st", (Rctr(T[self])), (htmp[self] - 1), "-", "-")
               /\ myctr' = [myctr EXCEPT ![T[self]] = htmp[self] - 1]
               /\ pc' = [pc EXCEPT ![self] = "h_umb2"]
               /\ UNCHANGED << lock, registry, cursnap, qsr, wnlive, regd, 
                               sleeping, woken, wkind, faults, sigs, insig, 
                               hcs, alive, cs, pre, T, htmp, hg, hf, hheld, 
                               entry, i, op, res, tmp, g, f, held, old, oldh, 
                               popped, it, nx, st, wi, wl, ph, scan, v, ipi, 
                               ret, mret >>

h_umb2(self) == /\ pc[self] = "h_umb2"
                /\ IF Flavor = "memb" /\ ReaderFence /\ "ru_mb2" \notin Skip
                      THEN /\ Drained(T[self])
                           /\ acc' = Ev(T[self], "mb", "-", "-", "-", "-")
                      ELSE /\ TRUE
                           /\ acc' = acc
                /\ pc' = [pc EXCEPT ![self] = "h_uldf"]
                /\ UNCHANGED << mem, sb, lock, registry, cursnap, qsr, wnlive, 
                                regd, sleeping, woken, wkind, faults, sigs, 
                                myctr, insig, hcs, alive, cs, pre, T, htmp, hg, 
                                hf, hheld, entry, i, op, res, tmp, g, f, held, 
                                old, oldh, popped, it, nx, st, wi, wl, ph, 
                                scan, v, ipi, ret, mret >>

h_uldf(self) == /\ pc[self] = "h_uldf"
                /\ hf' = [hf EXCEPT ![self] = Rd(T[self], "gp_futex")]
                /\ acc' = Ev(T[self], "ld", "gp_futex", "-", "-", Rd(T[self], "gp_futex"))
                /\ IF hf'[self] # -1
                      THEN /\ pc' = [pc EXCEPT ![self] = "h_ret"]
                      ELSE /\ pc' = [pc EXCEPT ![self] = "h_ustf"]
                /\ UNCHANGED << mem, sb, lock, registry, cursnap, qsr, wnlive, 
                                regd, sleeping, woken, wkind, faults, sigs, 
                                myctr, insig, hcs, alive, cs, pre, T, htmp, hg, 
                                hheld, entry, i, op, res, tmp, g, f, held, old, 
                                oldh, popped, it, nx, st, wi, wl, ph, scan, v, 
                                ipi, ret, mret >>

h_ustf(self) == /\ pc[self] = "h_ustf"
                /\ IF TSO
                      THEN /\ ~SBBlock \/ Len(sb[T[self]]) < SBMax
                           /\ sb' = [sb EXCEPT ![T[self]] = Append(sb[T[self]], <<"gp_futex", 0>>)]
                           /\ mem' = mem
                      ELSE /\ mem' = [mem EXCEPT !["gp_futex"] = 0]
                           /\ sb' = sb
                /\ acc' = Ev(T[self], "st", "gp_futex", 0, "-", "-")
                /\ IF FutexMode = "compat"
                      THEN /\ pc' = [pc EXCEPT ![self] = "h_cmb"]
                      ELSE /\ pc' = [pc EXCEPT ![self] = "h_uwake"]
                /\ UNCHANGED << lock, registry, cursnap, qsr, wnlive, regd, 
                                sleeping, woken, wkind, faults, sigs, myctr, 
                                insig, hcs, alive, cs, pre, T, htmp, hg, hf, 
                                hheld, entry, i, op, res, tmp, g, f, held, old, 
                                oldh, popped, it, nx, st, wi, wl, ph, scan, v, 
                                ipi, ret, mret >>

h_uwake(self) == /\ pc[self] = "h_uwake"
                 /\ Drained(T[self])
                 /\ IF FutexMode = "futex"
                       THEN /\ \E w \in IF {t \in Threads : sleeping[t] = "gp_futex" /\ ~woken[t]} = {} THEN {"none"}
                                        ELSE {t \in Threads : sleeping[t] = "gp_futex" /\ ~woken[t]}:
                                 /\ IF w # "none"
                                       THEN /\ woken' = [woken EXCEPT ![w] = TRUE]
                                       ELSE /\ TRUE
                                            /\ woken' = woken
                                 /\ acc' = Ev(T[self], "fwake", "gp_futex", "-", "-", IF w = "none" THEN 0 ELSE 1)
                            /\ pc' = [pc EXCEPT ![self] = "h_ret"]
                       ELSE /\ acc' = Ev(T[self], "fwake", "gp_futex", "-", "-", "ENOSYS")
                            /\ pc' = [pc EXCEPT ![self] = "h_cmb"]
                            /\ woken' = woken
                 /\ UNCHANGED << mem, sb, lock, registry, cursnap, qsr, wnlive, 
                                 regd, sleeping, wkind, faults, sigs, myctr, 
                                 insig, hcs, alive, cs, pre, T, htmp, hg, hf, 
                                 hheld, entry, i, op, res, tmp, g, f, held, 
                                 old, oldh, popped, it, nx, st, wi, wl, ph, 
                                 scan, v, ipi, ret, mret >>

h_cmb(self) == /\ pc[self] = "h_cmb"
               /\ Drained(T[self])
               /\ acc' = Ev(T[self], "mb", "-", "-", "-", "-")
               /\ pc' = [pc EXCEPT ![self] = "h_ret"]
               /\ UNCHANGED << mem, sb, lock, registry, cursnap, qsr, wnlive, 
                               regd, sleeping, woken, wkind, faults, sigs, 
                               myctr, insig, hcs, alive, cs, pre, T, htmp, hg, 
                               hf, hheld, entry, i, op, res, tmp, g, f, held, 
                               old, oldh, popped, it, nx, st, wi, wl, ph, scan, 
                               v, ipi, ret, mret >>

h_unest(self) == /\ pc[self] = "h_unest"
                 /\ IF TSO
                       THEN /\ ~SBBlock \/ Len(sb[T[self]]) < SBMax
                            /\ sb' = [sb EXCEPT ![T[self]] = Append(sb[T[self]], <<(Rctr(T[self])), (htmp[self] - 1)>>)]
                            /\ mem' = mem
                       ELSE /\ mem' = [mem EXCEPT ![(Rctr(T[self]))] = htmp[self] - 1]
                            /\ sb' = sb
                 /\ acc' = Ev(T[self], "st", (Rctr(T[self])), (htmp[self] - 1), "-", "-")
                 /\ myctr' = [myctr EXCEPT ![T[self]] = htmp[self] - 1]
                 /\ hheld' = [hheld EXCEPT ![self] = NULL]
                 /\ pc' = [pc EXCEPT ![self] = "h_ret"]
                 /\ UNCHANGED << lock, registry, cursnap, qsr, wnlive, regd, 
                                 sleeping, woken, wkind, faults, sigs, insig, 
                                 hcs, alive, cs, pre, T, htmp, hg, hf, entry, 
                                 i, op, res, tmp, g, f, held, old, oldh, 
                                 popped, it, nx, st, wi, wl, ph, scan, v, ipi, 
                                 ret, mret >>

h_ret(self) == /\ pc[self] = "h_ret"
               /\ Assert(Nest(myctr[T[self]]) = Nest(entry[self]) /\ (Nest(entry[self]) # 0 => myctr[T[self]] = entry[self]), 
                         "Failure of assertion at line 186, column 11.")
               /\ Drained(T[self])
               /\ insig' = [insig EXCEPT ![T[self]] = FALSE]
               /\ acc' = Ev(T[self], "sig_exit", "-", "-", "-", "-")
               /\ pc' = [pc EXCEPT ![self] = "h_idle"]
               /\ UNCHANGED << mem, sb, lock, registry, cursnap, qsr, wnlive, 
                               regd, sleeping, woken, wkind, faults, sigs, 
                               myctr, hcs, alive, cs, pre, T, htmp, hg, hf, 
                               hheld, entry, i, op, res, tmp, g, f, held, old, 
                               oldh, popped, it, nx, st, wi, wl, ph, scan, v, 
                               ipi, ret, mret >>

sig(self) == h_idle(self) \/ h_ltop(self) \/ h_lld(self) \/ h_lst(self)
                \/ h_lmb(self) \/ h_lin(self) \/ h_lnest(self)
                \/ h_deref(self) \/ h_use(self) \/ h_utop(self)
                \/ h_uout(self) \/ h_umb1(self) \/ h_ust(self)
                \/ h_umb2(self) \/ h_uldf(self) \/ h_ustf(self)
                \/ h_uwake(self) \/ h_cmb(self) \/ h_unest(self)
                \/ h_ret(self)

t_top(self) == /\ pc[self] = "t_top"
               /\ IF i[self] <= Len(Prog[self])
                     THEN /\ op' = [op EXCEPT ![self] = Prog[self][i[self]]]
                          /\ res' = [res EXCEPT ![self] = "-"]
                          /\ pc' = [pc EXCEPT ![self] = "t_disp"]
                     ELSE /\ pc' = [pc EXCEPT ![self] = "t_end"]
                          /\ UNCHANGED << op, res >>
               /\ UNCHANGED << mem, sb, lock, acc, registry, cursnap, qsr, 
                               wnlive, regd, sleeping, woken, wkind, faults, 
                               sigs, myctr, insig, hcs, alive, cs, pre, T, 
                               htmp, hg, hf, hheld, entry, i, tmp, g, f, held, 
                               old, oldh, popped, it, nx, st, wi, wl, ph, scan, 
                               v, ipi, ret, mret >>

t_disp(self) == /\ pc[self] = "t_disp"
                /\ IF op[self].op = "reg"
                      THEN /\ pc' = [pc EXCEPT ![self] = "g_lock"]
                           /\ UNCHANGED << alive, res, old >>
                      ELSE /\ IF op[self].op = "unreg"
                                 THEN /\ pc' = [pc EXCEPT ![self] = "x_lock"]
                                      /\ UNCHANGED << alive, res, old >>
                                 ELSE /\ IF op[self].op = "lock"
                                            THEN /\ pc' = [pc EXCEPT ![self] = "rl_top"]
                                                 /\ UNCHANGED << alive, res, 
                                                                 old >>
                                            ELSE /\ IF op[self].op = "unlock"
                                                       THEN /\ pc' = [pc EXCEPT ![self] = "ru_top"]
                                                            /\ UNCHANGED << alive, 
                                                                            res, 
                                                                            old >>
                                                       ELSE /\ IF op[self].op = "deref"
                                                                  THEN /\ pc' = [pc EXCEPT ![self] = "dr_ld"]
                                                                       /\ UNCHANGED << alive, 
                                                                                       res, 
                                                                                       old >>
                                                                  ELSE /\ IF op[self].op = "use"
                                                                             THEN /\ Assert(held[self] = NULL \/ alive[held[self]], 
                                                                                            "Failure of assertion at line 207, column 37.")
                                                                                  /\ pc' = [pc EXCEPT ![self] = "t_ret"]
                                                                                  /\ UNCHANGED << alive, 
                                                                                                  res, 
                                                                                                  old >>
                                                                             ELSE /\ IF op[self].op = "pub"
                                                                                        THEN /\ pc' = [pc EXCEPT ![self] = "p_xchg"]
                                                                                             /\ UNCHANGED << alive, 
                                                                                                             res, 
                                                                                                             old >>
                                                                                        ELSE /\ IF op[self].op = "sync"
                                                                                                   THEN /\ pc' = [pc EXCEPT ![self] = "s_call"]
                                                                                                        /\ UNCHANGED << alive, 
                                                                                                                        res, 
                                                                                                                        old >>
                                                                                                   ELSE /\ IF old[self] # NULL
                                                                                                              THEN /\ alive' = [alive EXCEPT ![old[self]] = FALSE]
                                                                                                                   /\ res' = [res EXCEPT ![self] = old[self]]
                                                                                                                   /\ old' = [old EXCEPT ![self] = NULL]
                                                                                                              ELSE /\ TRUE
                                                                                                                   /\ UNCHANGED << alive, 
                                                                                                                                   res, 
                                                                                                                                   old >>
                                                                                                        /\ pc' = [pc EXCEPT ![self] = "t_ret"]
                /\ UNCHANGED << mem, sb, lock, acc, registry, cursnap, qsr, 
                                wnlive, regd, sleeping, woken, wkind, faults, 
                                sigs, myctr, insig, hcs, cs, pre, T, htmp, hg, 
                                hf, hheld, entry, i, op, tmp, g, f, held, oldh, 
                                popped, it, nx, st, wi, wl, ph, scan, v, ipi, 
                                ret, mret >>

g_lock(self) == /\ pc[self] = "g_lock"
                /\ Assert(self \notin regd /\ Nest(myctr[self]) = 0, 
                          "Failure of assertion at line 213, column 11.")
                /\ Drained(self) /\ lock["registry_lock"] = "free"
                /\ lock' = [lock EXCEPT !["registry_lock"] = self]
                /\ acc' = Ev(self, "lock", "registry_lock", "-", "-", "-")
                /\ pc' = [pc EXCEPT ![self] = "g_add"]
                /\ UNCHANGED << mem, sb, registry, cursnap, qsr, wnlive, regd, 
                                sleeping, woken, wkind, faults, sigs, myctr, 
                                insig, hcs, alive, cs, pre, T, htmp, hg, hf, 
                                hheld, entry, i, op, res, tmp, g, f, held, old, 
                                oldh, popped, it, nx, st, wi, wl, ph, scan, v, 
                                ipi, ret, mret >>

g_add(self) == /\ pc[self] = "g_add"
               /\ /\ regd' = (regd \cup {self})
                  /\ registry' = (registry \cup {self})
               /\ pc' = [pc EXCEPT ![self] = "g_unl"]
               /\ UNCHANGED << mem, sb, lock, acc, cursnap, qsr, wnlive, 
                               sleeping, woken, wkind, faults, sigs, myctr, 
                               insig, hcs, alive, cs, pre, T, htmp, hg, hf, 
                               hheld, entry, i, op, res, tmp, g, f, held, old, 
                               oldh, popped, it, nx, st, wi, wl, ph, scan, v, 
                               ipi, ret, mret >>

g_unl(self) == /\ pc[self] = "g_unl"
               /\ Drained(self)
               /\ lock' = [lock EXCEPT !["registry_lock"] = "free"]
               /\ acc' = Ev(self, "unlock", "registry_lock", "-", "-", "-")
               /\ pc' = [pc EXCEPT ![self] = "t_ret"]
               /\ UNCHANGED << mem, sb, registry, cursnap, qsr, wnlive, regd, 
                               sleeping, woken, wkind, faults, sigs, myctr, 
                               insig, hcs, alive, cs, pre, T, htmp, hg, hf, 
                               hheld, entry, i, op, res, tmp, g, f, held, old, 
                               oldh, popped, it, nx, st, wi, wl, ph, scan, v, 
                               ipi, ret, mret >>

x_lock(self) == /\ pc[self] = "x_lock"
                /\ Assert(self \in regd /\ Nest(myctr[self]) = 0, 
                          "Failure of assertion at line 218, column 11.")
                /\ Drained(self) /\ lock["registry_lock"] = "free"
                /\ lock' = [lock EXCEPT !["registry_lock"] = self]
                /\ acc' = Ev(self, "lock", "registry_lock", "-", "-", "-")
                /\ pc' = [pc EXCEPT ![self] = "x_del"]
                /\ UNCHANGED << mem, sb, registry, cursnap, qsr, wnlive, regd, 
                                sleeping, woken, wkind, faults, sigs, myctr, 
                                insig, hcs, alive, cs, pre, T, htmp, hg, hf, 
                                hheld, entry, i, op, res, tmp, g, f, held, old, 
                                oldh, popped, it, nx, st, wi, wl, ph, scan, v, 
                                ipi, ret, mret >>

x_del(self) == /\ pc[self] = "x_del"
               /\ /\ cursnap' = cursnap \ {self}
                  /\ qsr' = qsr \ {self}
                  /\ regd' = regd \ {self}
                  /\ registry' = registry \ {self}
               /\ pc' = [pc EXCEPT ![self] = "x_unl"]
               /\ UNCHANGED << mem, sb, lock, acc, wnlive, sleeping, woken, 
                               wkind, faults, sigs, myctr, insig, hcs, alive, 
                               cs, pre, T, htmp, hg, hf, hheld, entry, i, op, 
                               res, tmp, g, f, held, old, oldh, popped, it, nx, 
                               st, wi, wl, ph, scan, v, ipi, ret, mret >>

x_unl(self) == /\ pc[self] = "x_unl"
               /\ Drained(self)
               /\ lock' = [lock EXCEPT !["registry_lock"] = "free"]
               /\ acc' = Ev(self, "unlock", "registry_lock", "-", "-", "-")
               /\ pc' = [pc EXCEPT ![self] = "t_ret"]
               /\ UNCHANGED << mem, sb, registry, cursnap, qsr, wnlive, regd, 
                               sleeping, woken, wkind, faults, sigs, myctr, 
                               insig, hcs, alive, cs, pre, T, htmp, hg, hf, 
                               hheld, entry, i, op, res, tmp, g, f, held, old, 
                               oldh, popped, it, nx, st, wi, wl, ph, scan, v, 
                               ipi, ret, mret >>

rl_top(self) == /\ pc[self] = "rl_top"
                /\ Assert(self \in regd, 
                          "Failure of assertion at line 226, column 11.")
                /\ tmp' = [tmp EXCEPT ![self] = myctr[self]]
                /\ IF Nest(myctr[self]) # 0
                      THEN /\ pc' = [pc EXCEPT ![self] = "rl_nest"]
                      ELSE /\ pc' = [pc EXCEPT ![self] = "rl_ld"]
                /\ UNCHANGED << mem, sb, lock, acc, registry, cursnap, qsr, 
                                wnlive, regd, sleeping, woken, wkind, faults, 
                                sigs, myctr, insig, hcs, alive, cs, pre, T, 
                                htmp, hg, hf, hheld, entry, i, op, res, g, f, 
                                held, old, oldh, popped, it, nx, st, wi, wl, 
                                ph, scan, v, ipi, ret, mret >>

rl_ld(self) == /\ pc[self] = "rl_ld"
               /\ g' = [g EXCEPT ![self] = Rd(self, "gp_ctr")]
               /\ acc' = Ev(self, "ld", "gp_ctr", "-", "-", Rd(self, "gp_ctr"))
               /\ pc' = [pc EXCEPT ![self] = "rl_st"]
               /\ UNCHANGED << mem, sb, lock, registry, cursnap, qsr, wnlive, 
                               regd, sleeping, woken, wkind, faults, sigs, 
                               myctr, insig, hcs, alive, cs, pre, T, htmp, hg, 
                               hf, hheld, entry, i, op, res, tmp, f, held, old, 
                               oldh, popped, it, nx, st, wi, wl, ph, scan, v, 
                               ipi, ret, mret >>

rl_st(self) == /\ pc[self] = "rl_st"
               /\ IF TSO
                     THEN /\ ~SBBlock \/ Len(sb[self]) < SBMax
                          /\ sb' = [sb EXCEPT ![self] = Append(sb[self], <<(Rctr(self)), g[self]>>)]
                          /\ mem' = mem
                     ELSE /\ mem' = [mem EXCEPT ![(Rctr(self))] = g[self]]
                          /\ sb' = sb
               /\ acc' = Ev(self, "st", (Rctr(self)), g[self], "-", "-")
               /\ myctr' = [myctr EXCEPT ![self] = g[self]]
               /\ pc' = [pc EXCEPT ![self] = "rl_mb"]
               /\ UNCHANGED << lock, registry, cursnap, qsr, wnlive, regd, 
                               sleeping, woken, wkind, faults, sigs, insig, 
                               hcs, alive, cs, pre, T, htmp, hg, hf, hheld, 
                               entry, i, op, res, tmp, g, f, held, old, oldh, 
                               popped, it, nx, st, wi, wl, ph, scan, v, ipi, 
                               ret, mret >>

rl_mb(self) == /\ pc[self] = "rl_mb"
               /\ IF ReaderFence /\ "rl_mb" \notin Skip
                     THEN /\ Drained(self)
                          /\ acc' = Ev(self, "mb", "-", "-", "-", "-")
                     ELSE /\ TRUE
                          /\ acc' = acc
               /\ pc' = [pc EXCEPT ![self] = "rl_in"]
               /\ UNCHANGED << mem, sb, lock, registry, cursnap, qsr, wnlive, 
                               regd, sleeping, woken, wkind, faults, sigs, 
                               myctr, insig, hcs, alive, cs, pre, T, htmp, hg, 
                               hf, hheld, entry, i, op, res, tmp, g, f, held, 
                               old, oldh, popped, it, nx, st, wi, wl, ph, scan, 
                               v, ipi, ret, mret >>

rl_in(self) == /\ pc[self] = "rl_in"
               /\ cs' = [cs EXCEPT ![self] = i[self]]
               /\ pc' = [pc EXCEPT ![self] = "t_ret"]
               /\ UNCHANGED << mem, sb, lock, acc, registry, cursnap, qsr, 
                               wnlive, regd, sleeping, woken, wkind, faults, 
                               sigs, myctr, insig, hcs, alive, pre, T, htmp, 
                               hg, hf, hheld, entry, i, op, res, tmp, g, f, 
                               held, old, oldh, popped, it, nx, st, wi, wl, ph, 
                               scan, v, ipi, ret, mret >>

rl_nest(self) == /\ pc[self] = "rl_nest"
                 /\ IF TSO
                       THEN /\ ~SBBlock \/ Len(sb[self]) < SBMax
                            /\ sb' = [sb EXCEPT ![self] = Append(sb[self], <<(Rctr(self)), (tmp[self] + 1)>>)]
                            /\ mem' = mem
                       ELSE /\ mem' = [mem EXCEPT ![(Rctr(self))] = tmp[self] + 1]
                            /\ sb' = sb
                 /\ acc' = Ev(self, "st", (Rctr(self)), (tmp[self] + 1), "-", "-")
                 /\ myctr' = [myctr EXCEPT ![self] = tmp[self] + 1]
                 /\ pc' = [pc EXCEPT ![self] = "t_ret"]
                 /\ UNCHANGED << lock, registry, cursnap, qsr, wnlive, regd, 
                                 sleeping, woken, wkind, faults, sigs, insig, 
                                 hcs, alive, cs, pre, T, htmp, hg, hf, hheld, 
                                 entry, i, op, res, tmp, g, f, held, old, oldh, 
                                 popped, it, nx, st, wi, wl, ph, scan, v, ipi, 
                                 ret, mret >>

ru_top(self) == /\ pc[self] = "ru_top"
                /\ Assert(held[self] = NULL \/ alive[held[self]], 
                          "Failure of assertion at line 238, column 11.")
                /\ tmp' = [tmp EXCEPT ![self] = myctr[self]]
                /\ IF Nest(myctr[self]) # 1
                      THEN /\ pc' = [pc EXCEPT ![self] = "ru_nest"]
                      ELSE /\ pc' = [pc EXCEPT ![self] = "ru_out"]
                /\ UNCHANGED << mem, sb, lock, acc, registry, cursnap, qsr, 
                                wnlive, regd, sleeping, woken, wkind, faults, 
                                sigs, myctr, insig, hcs, alive, cs, pre, T, 
                                htmp, hg, hf, hheld, entry, i, op, res, g, f, 
                                held, old, oldh, popped, it, nx, st, wi, wl, 
                                ph, scan, v, ipi, ret, mret >>

ru_out(self) == /\ pc[self] = "ru_out"
                /\ cs' = [cs EXCEPT ![self] = 0]
                /\ held' = [held EXCEPT ![self] = NULL]
                /\ pc' = [pc EXCEPT ![self] = "ru_mb1"]
                /\ UNCHANGED << mem, sb, lock, acc, registry, cursnap, qsr, 
                                wnlive, regd, sleeping, woken, wkind, faults, 
                                sigs, myctr, insig, hcs, alive, pre, T, htmp, 
                                hg, hf, hheld, entry, i, op, res, tmp, g, f, 
                                old, oldh, popped, it, nx, st, wi, wl, ph, 
                                scan, v, ipi, ret, mret >>

ru_mb1(self) == /\ pc[self] = "ru_mb1"
                /\ IF Flavor = "memb" /\ ReaderFence /\ "ru_mb1" \notin Skip
                      THEN /\ Drained(self)
                           /\ acc' = Ev(self, "mb", "-", "-", "-", "-")
                      ELSE /\ TRUE
                           /\ acc' = acc
                /\ pc' = [pc EXCEPT ![self] = "ru_st"]
                /\ UNCHANGED << mem, sb, lock, registry, cursnap, qsr, wnlive, 
                                regd, sleeping, woken, wkind, faults, sigs, 
                                myctr, insig, hcs, alive, cs, pre, T, htmp, hg, 
                                hf, hheld, entry, i, op, res, tmp, g, f, held, 
                                old, oldh, popped, it, nx, st, wi, wl, ph, 
                                scan, v, ipi, ret, mret >>

ru_st(self) == /\ pc[self] = "ru_st"
               /\ IF Flavor = "mb" /\ "ru_st" \notin Weak
                     THEN /\ Drained(self)
                          /\ mem' = [mem EXCEPT ![(Rctr(self))] = tmp[self] - 1]
                          /\ acc' = Ev(self, "st", (Rctr(self)), (tmp[self] - 1), "-", "-")
                          /\ sb' = sb
                     ELSE /\ IF TSO
                                THEN /\ ~SBBlock \/ Len(sb[self]) < SBMax
                                     /\ sb' = [sb EXCEPT ![self] = Append(sb[self], <<(Rctr(self)), (tmp[self] - 1)>>)]
                                     /\ mem' = mem
                                ELSE /\ mem' = [mem EXCEPT ![(Rctr(self))] = tmp[self] - 1]
                                     /\ sb' = sb
                          /\ acc' = Ev(self, "st", (Rctr(self)), (tmp[self] - 1), "-", "-")
               /\ myctr' = [myctr EXCEPT ![self] = tmp[self] - 1]
               /\ pc' = [pc EXCEPT ![self] = "ru_mb2"]
               /\ UNCHANGED << lock, registry, cursnap, qsr, wnlive, regd, 
                               sleeping, woken, wkind, faults, sigs, insig, 
                               hcs, alive, cs, pre, T, htmp, hg, hf, hheld, 
                               entry, i, op, res, tmp, g, f, held, old, oldh, 
                               popped, it, nx, st, wi, wl, ph, scan, v, ipi, 
                               ret, mret >>

ru_mb2(self) == /\ pc[self] = "ru_mb2"
                /\ IF Flavor = "memb" /\ ReaderFence /\ "ru_mb2" \notin Skip
                      THEN /\ Drained(self)
                           /\ acc' = Ev(self, "mb", "-", "-", "-", "-")
                      ELSE /\ TRUE
                           /\ acc' = acc
                /\ pc' = [pc EXCEPT ![self] = "ru_ldf"]
                /\ UNCHANGED << mem, sb, lock, registry, cursnap, qsr, wnlive, 
                                regd, sleeping, woken, wkind, faults, sigs, 
                                myctr, insig, hcs, alive, cs, pre, T, htmp, hg, 
                                hf, hheld, entry, i, op, res, tmp, g, f, held, 
                                old, oldh, popped, it, nx, st, wi, wl, ph, 
                                scan, v, ipi, ret, mret >>

ru_ldf(self) == /\ pc[self] = "ru_ldf"
                /\ f' = [f EXCEPT ![self] = Rd(self, "gp_futex")]
                /\ acc' = Ev(self, "ld", "gp_futex", "-", "-", Rd(self, "gp_futex"))
                /\ IF f'[self] # -1
                      THEN /\ pc' = [pc EXCEPT ![self] = "t_ret"]
                      ELSE /\ pc' = [pc EXCEPT ![self] = "ru_stf"]
                /\ UNCHANGED << mem, sb, lock, registry, cursnap, qsr, wnlive, 
                                regd, sleeping, woken, wkind, faults, sigs, 
                                myctr, insig, hcs, alive, cs, pre, T, htmp, hg, 
                                hf, hheld, entry, i, op, res, tmp, g, held, 
                                old, oldh, popped, it, nx, st, wi, wl, ph, 
                                scan, v, ipi, ret, mret >>

ru_stf(self) == /\ pc[self] = "ru_stf"
                /\ IF TSO
                      THEN /\ ~SBBlock \/ Len(sb[self]) < SBMax
                           /\ sb' = [sb EXCEPT ![self] = Append(sb[self], <<"gp_futex", 0>>)]
                           /\ mem' = mem
                      ELSE /\ mem' = [mem EXCEPT !["gp_futex"] = 0]
                           /\ sb' = sb
                /\ acc' = Ev(self, "st", "gp_futex", 0, "-", "-")
                /\ IF FutexMode = "compat"
                      THEN /\ pc' = [pc EXCEPT ![self] = "ru_cmb"]
                      ELSE /\ pc' = [pc EXCEPT ![self] = "ru_wake"]
                /\ UNCHANGED << lock, registry, cursnap, qsr, wnlive, regd, 
                                sleeping, woken, wkind, faults, sigs, myctr, 
                                insig, hcs, alive, cs, pre, T, htmp, hg, hf, 
                                hheld, entry, i, op, res, tmp, g, f, held, old, 
                                oldh, popped, it, nx, st, wi, wl, ph, scan, v, 
                                ipi, ret, mret >>

ru_wake(self) == /\ pc[self] = "ru_wake"
                 /\ Drained(self)
                 /\ IF FutexMode = "futex"
                       THEN /\ \E w \in IF {t \in Threads : sleeping[t] = "gp_futex" /\ ~woken[t]} = {} THEN {"none"}
                                        ELSE {t \in Threads : sleeping[t] = "gp_futex" /\ ~woken[t]}:
                                 /\ IF w # "none"
                                       THEN /\ woken' = [woken EXCEPT ![w] = TRUE]
                                       ELSE /\ TRUE
                                            /\ woken' = woken
                                 /\ acc' = Ev(self, "fwake", "gp_futex", "-", "-", IF w = "none" THEN 0 ELSE 1)
                            /\ pc' = [pc EXCEPT ![self] = "t_ret"]
                       ELSE /\ acc' = Ev(self, "fwake", "gp_futex", "-", "-", "ENOSYS")
                            /\ pc' = [pc EXCEPT ![self] = "ru_cmb"]
                            /\ woken' = woken
                 /\ UNCHANGED << mem, sb, lock, registry, cursnap, qsr, wnlive, 
                                 regd, sleeping, wkind, faults, sigs, myctr, 
                                 insig, hcs, alive, cs, pre, T, htmp, hg, hf, 
                                 hheld, entry, i, op, res, tmp, g, f, held, 
                                 old, oldh, popped, it, nx, st, wi, wl, ph, 
                                 scan, v, ipi, ret, mret >>

ru_cmb(self) == /\ pc[self] = "ru_cmb"
                /\ Drained(self)
                /\ acc' = Ev(self, "mb", "-", "-", "-", "-")
                /\ pc' = [pc EXCEPT ![self] = "t_ret"]
                /\ UNCHANGED << mem, sb, lock, registry, cursnap, qsr, wnlive, 
                                regd, sleeping, woken, wkind, faults, sigs, 
                                myctr, insig, hcs, alive, cs, pre, T, htmp, hg, 
                                hf, hheld, entry, i, op, res, tmp, g, f, held, 
                                old, oldh, popped, it, nx, st, wi, wl, ph, 
                                scan, v, ipi, ret, mret >>

ru_nest(self) == /\ pc[self] = "ru_nest"
                 /\ IF TSO
                       THEN /\ ~SBBlock \/ Len(sb[self]) < SBMax
                            /\ sb' = [sb EXCEPT ![self] = Append(sb[self], <<(Rctr(self)), (tmp[self] - 1)>>)]
                            /\ mem' = mem
                       ELSE /\ mem' = [mem EXCEPT ![(Rctr(self))] = tmp[self] - 1]
                            /\ sb' = sb
                 /\ acc' = Ev(self, "st", (Rctr(self)), (tmp[self] - 1), "-", "-")
                 /\ myctr' = [myctr EXCEPT ![self] = tmp[self] - 1]
                 /\ pc' = [pc EXCEPT ![self] = "t_ret"]
                 /\ UNCHANGED << lock, registry, cursnap, qsr, wnlive, regd, 
                                 sleeping, woken, wkind, faults, sigs, insig, 
                                 hcs, alive, cs, pre, T, htmp, hg, hf, hheld, 
                                 entry, i, op, res, tmp, g, f, held, old, oldh, 
                                 popped, it, nx, st, wi, wl, ph, scan, v, ipi, 
                                 ret, mret >>

dr_ld(self) == /\ pc[self] = "dr_ld"
               /\ held' = [held EXCEPT ![self] = Rd(self, "gptr")]
               /\ acc' = Ev(self, "ld", "gptr", "-", "-", Rd(self, "gptr"))
               /\ res' = [res EXCEPT ![self] = held'[self]]
               /\ pc' = [pc EXCEPT ![self] = "t_ret"]
               /\ UNCHANGED << mem, sb, lock, registry, cursnap, qsr, wnlive, 
                               regd, sleeping, woken, wkind, faults, sigs, 
                               myctr, insig, hcs, alive, cs, pre, T, htmp, hg, 
                               hf, hheld, entry, i, op, tmp, g, f, old, oldh, 
                               popped, it, nx, st, wi, wl, ph, scan, v, ipi, 
                               ret, mret >>

p_xchg(self) == /\ pc[self] = "p_xchg"
                /\ Drained(self)
                /\ old' = [old EXCEPT ![self] = mem["gptr"]]
                /\ mem' = [mem EXCEPT !["gptr"] = op[self].o]
                /\ acc' = Ev(self, "xchg", "gptr", (op[self].o), "-", old'[self])
                /\ res' = [res EXCEPT ![self] = old'[self]]
                /\ pc' = [pc EXCEPT ![self] = "t_ret"]
                /\ UNCHANGED << sb, lock, registry, cursnap, qsr, wnlive, regd, 
                                sleeping, woken, wkind, faults, sigs, myctr, 
                                insig, hcs, alive, cs, pre, T, htmp, hg, hf, 
                                hheld, entry, i, op, tmp, g, f, held, oldh, 
                                popped, it, nx, st, wi, wl, ph, scan, v, ipi, 
                                ret, mret >>

s_call(self) == /\ pc[self] = "s_call"
                /\ pre' = [pre EXCEPT ![self] = OpenCS]
                /\ pc' = [pc EXCEPT ![self] = "s_mb0"]
                /\ UNCHANGED << mem, sb, lock, acc, registry, cursnap, qsr, 
                                wnlive, regd, sleeping, woken, wkind, faults, 
                                sigs, myctr, insig, hcs, alive, cs, T, htmp, 
                                hg, hf, hheld, entry, i, op, res, tmp, g, f, 
                                held, old, oldh, popped, it, nx, st, wi, wl, 
                                ph, scan, v, ipi, ret, mret >>

s_mb0(self) == /\ pc[self] = "s_mb0"
               /\ IF "s_mb0" \notin Skip
                     THEN /\ Drained(self)
                          /\ acc' = Ev(self, "mb", "-", "-", "-", "-")
                     ELSE /\ TRUE
                          /\ acc' = acc
               /\ pc' = [pc EXCEPT ![self] = "s_push"]
               /\ UNCHANGED << mem, sb, lock, registry, cursnap, qsr, wnlive, 
                               regd, sleeping, woken, wkind, faults, sigs, 
                               myctr, insig, hcs, alive, cs, pre, T, htmp, hg, 
                               hf, hheld, entry, i, op, res, tmp, g, f, held, 
                               old, oldh, popped, it, nx, st, wi, wl, ph, scan, 
                               v, ipi, ret, mret >>

s_push(self) == /\ pc[self] = "s_push"
                /\ wnlive' = (wnlive \cup {Wn(self)})
                /\ Drained(self)
                /\ oldh' = [oldh EXCEPT ![self] = mem["waiters"]]
                /\ mem' = [mem EXCEPT !["waiters"] = Wn(self)]
                /\ acc' = Ev(self, "xchg", "waiters", (Wn(self)), "-", oldh'[self])
                /\ pc' = [pc EXCEPT ![self] = "s_link"]
                /\ UNCHANGED << sb, lock, registry, cursnap, qsr, regd, 
                                sleeping, woken, wkind, faults, sigs, myctr, 
                                insig, hcs, alive, cs, pre, T, htmp, hg, hf, 
                                hheld, entry, i, op, res, tmp, g, f, held, old, 
                                popped, it, nx, st, wi, wl, ph, scan, v, ipi, 
                                ret, mret >>

s_link(self) == /\ pc[self] = "s_link"
                /\ IF TSO
                      THEN /\ ~SBBlock \/ Len(sb[self]) < SBMax
                           /\ sb' = [sb EXCEPT ![self] = Append(sb[self], <<(WnNext(Wn(self))), oldh[self]>>)]
                           /\ mem' = mem
                      ELSE /\ mem' = [mem EXCEPT ![(WnNext(Wn(self)))] = oldh[self]]
                           /\ sb' = sb
                /\ acc' = Ev(self, "st", (WnNext(Wn(self))), oldh[self], "-", "-")
                /\ IF oldh[self] # END
                      THEN /\ wi' = [wi EXCEPT ![self] = 0]
                           /\ pc' = [pc EXCEPT ![self] = "a_ld1"]
                      ELSE /\ pc' = [pc EXCEPT ![self] = "s_run"]
                           /\ wi' = wi
                /\ UNCHANGED << lock, registry, cursnap, qsr, wnlive, regd, 
                                sleeping, woken, wkind, faults, sigs, myctr, 
                                insig, hcs, alive, cs, pre, T, htmp, hg, hf, 
                                hheld, entry, i, op, res, tmp, g, f, held, old, 
                                oldh, popped, it, nx, st, wl, ph, scan, v, ipi, 
                                ret, mret >>

s_run(self) == /\ pc[self] = "s_run"
               /\ IF Tracing \/ ~TSO
                     THEN /\ Drained(self)
                          /\ mem' = [mem EXCEPT ![WnState(Wn(self))] = RUNNING]
                          /\ sb' = sb
                     ELSE /\ ~SBBlock \/ Len(sb[self]) < SBMax
                          /\ sb' = [sb EXCEPT ![self] = Append(sb[self], <<WnState(Wn(self)), RUNNING>>)]
                          /\ mem' = mem
               /\ pc' = [pc EXCEPT ![self] = "s_gplk"]
               /\ UNCHANGED << lock, acc, registry, cursnap, qsr, wnlive, regd, 
                               sleeping, woken, wkind, faults, sigs, myctr, 
                               insig, hcs, alive, cs, pre, T, htmp, hg, hf, 
                               hheld, entry, i, op, res, tmp, g, f, held, old, 
                               oldh, popped, it, nx, st, wi, wl, ph, scan, v, 
                               ipi, ret, mret >>

s_gplk(self) == /\ pc[self] = "s_gplk"
                /\ Drained(self) /\ lock["gp_lock"] = "free"
                /\ lock' = [lock EXCEPT !["gp_lock"] = self]
                /\ acc' = Ev(self, "lock", "gp_lock", "-", "-", "-")
                /\ pc' = [pc EXCEPT ![self] = "s_pop"]
                /\ UNCHANGED << mem, sb, registry, cursnap, qsr, wnlive, regd, 
                                sleeping, woken, wkind, faults, sigs, myctr, 
                                insig, hcs, alive, cs, pre, T, htmp, hg, hf, 
                                hheld, entry, i, op, res, tmp, g, f, held, old, 
                                oldh, popped, it, nx, st, wi, wl, ph, scan, v, 
                                ipi, ret, mret >>

s_pop(self) == /\ pc[self] = "s_pop"
               /\ Drained(self)
               /\ popped' = [popped EXCEPT ![self] = mem["waiters"]]
               /\ mem' = [mem EXCEPT !["waiters"] = END]
               /\ acc' = Ev(self, "xchg", "waiters", END, "-", popped'[self])
               /\ pc' = [pc EXCEPT ![self] = "s_popmb"]
               /\ UNCHANGED << sb, lock, registry, cursnap, qsr, wnlive, regd, 
                               sleeping, woken, wkind, faults, sigs, myctr, 
                               insig, hcs, alive, cs, pre, T, htmp, hg, hf, 
                               hheld, entry, i, op, res, tmp, g, f, held, old, 
                               oldh, it, nx, st, wi, wl, ph, scan, v, ipi, ret, 
                               mret >>

s_popmb(self) == /\ pc[self] = "s_popmb"
                 /\ IF "s_popmb" \notin Skip
                       THEN /\ Drained(self)
                            /\ acc' = Ev(self, "mb", "-", "-", "-", "-")
                       ELSE /\ TRUE
                            /\ acc' = acc
                 /\ pc' = [pc EXCEPT ![self] = "s_rglk"]
                 /\ UNCHANGED << mem, sb, lock, registry, cursnap, qsr, wnlive, 
                                 regd, sleeping, woken, wkind, faults, sigs, 
                                 myctr, insig, hcs, alive, cs, pre, T, htmp, 
                                 hg, hf, hheld, entry, i, op, res, tmp, g, f, 
                                 held, old, oldh, popped, it, nx, st, wi, wl, 
                                 ph, scan, v, ipi, ret, mret >>

s_rglk(self) == /\ pc[self] = "s_rglk"
                /\ Drained(self) /\ lock["registry_lock"] = "free"
                /\ lock' = [lock EXCEPT !["registry_lock"] = self]
                /\ acc' = Ev(self, "lock", "registry_lock", "-", "-", "-")
                /\ IF registry = {}
                      THEN /\ pc' = [pc EXCEPT ![self] = "s_out"]
                      ELSE /\ pc' = [pc EXCEPT ![self] = "s_mm1"]
                /\ UNCHANGED << mem, sb, registry, cursnap, qsr, wnlive, regd, 
                                sleeping, woken, wkind, faults, sigs, myctr, 
                                insig, hcs, alive, cs, pre, T, htmp, hg, hf, 
                                hheld, entry, i, op, res, tmp, g, f, held, old, 
                                oldh, popped, it, nx, st, wi, wl, ph, scan, v, 
                                ipi, ret, mret >>

s_mm1(self) == /\ pc[self] = "s_mm1"
               /\ mret' = [mret EXCEPT ![self] = "s_p1"]
               /\ IF "s_mm1" \in Skip
                     THEN /\ pc' = [pc EXCEPT ![self] = "s_p1"]
                     ELSE /\ pc' = [pc EXCEPT ![self] = "master"]
               /\ UNCHANGED << mem, sb, lock, acc, registry, cursnap, qsr, 
                               wnlive, regd, sleeping, woken, wkind, faults, 
                               sigs, myctr, insig, hcs, alive, cs, pre, T, 
                               htmp, hg, hf, hheld, entry, i, op, res, tmp, g, 
                               f, held, old, oldh, popped, it, nx, st, wi, wl, 
                               ph, scan, v, ipi, ret >>

s_p1(self) == /\ pc[self] = "s_p1"
              /\ ph' = [ph EXCEPT ![self] = 1]
              /\ ret' = [ret EXCEPT ![self] = "s_mb2"]
              /\ pc' = [pc EXCEPT ![self] = "w_top"]
              /\ UNCHANGED << mem, sb, lock, acc, registry, cursnap, qsr, 
                              wnlive, regd, sleeping, woken, wkind, faults, 
                              sigs, myctr, insig, hcs, alive, cs, pre, T, htmp, 
                              hg, hf, hheld, entry, i, op, res, tmp, g, f, 
                              held, old, oldh, popped, it, nx, st, wi, wl, 
                              scan, v, ipi, mret >>

s_mb2(self) == /\ pc[self] = "s_mb2"
               /\ IF "s_mb2" \notin Skip
                     THEN /\ Drained(self)
                          /\ acc' = Ev(self, "mb", "-", "-", "-", "-")
                     ELSE /\ TRUE
                          /\ acc' = acc
               /\ pc' = [pc EXCEPT ![self] = "s_flip"]
               /\ UNCHANGED << mem, sb, lock, registry, cursnap, qsr, wnlive, 
                               regd, sleeping, woken, wkind, faults, sigs, 
                               myctr, insig, hcs, alive, cs, pre, T, htmp, hg, 
                               hf, hheld, entry, i, op, res, tmp, g, f, held, 
                               old, oldh, popped, it, nx, st, wi, wl, ph, scan, 
                               v, ipi, ret, mret >>

s_flip(self) == /\ pc[self] = "s_flip"
                /\ IF TSO
                      THEN /\ ~SBBlock \/ Len(sb[self]) < SBMax
                           /\ sb' = [sb EXCEPT ![self] = Append(sb[self], <<"gp_ctr", (IF Ph(Rd(self, "gp_ctr")) = 0 THEN Rd(self, "gp_ctr") + PHASE ELSE Rd(self, "gp_ctr") - PHASE)>>)]
                           /\ mem' = mem
                      ELSE /\ mem' = [mem EXCEPT !["gp_ctr"] = IF Ph(Rd(self, "gp_ctr")) = 0 THEN Rd(self, "gp_ctr") + PHASE ELSE Rd(self, "gp_ctr") - PHASE]
                           /\ sb' = sb
                /\ acc' = Ev(self, "st", "gp_ctr", (IF Ph(Rd(self, "gp_ctr")) = 0 THEN Rd(self, "gp_ctr") + PHASE ELSE Rd(self, "gp_ctr") - PHASE), "-", "-")
                /\ pc' = [pc EXCEPT ![self] = "s_mb3"]
                /\ UNCHANGED << lock, registry, cursnap, qsr, wnlive, regd, 
                                sleeping, woken, wkind, faults, sigs, myctr, 
                                insig, hcs, alive, cs, pre, T, htmp, hg, hf, 
                                hheld, entry, i, op, res, tmp, g, f, held, old, 
                                oldh, popped, it, nx, st, wi, wl, ph, scan, v, 
                                ipi, ret, mret >>

s_mb3(self) == /\ pc[self] = "s_mb3"
               /\ IF "s_mb3" \notin Skip
                     THEN /\ Drained(self)
                          /\ acc' = Ev(self, "mb", "-", "-", "-", "-")
                     ELSE /\ TRUE
                          /\ acc' = acc
               /\ pc' = [pc EXCEPT ![self] = "s_p2"]
               /\ UNCHANGED << mem, sb, lock, registry, cursnap, qsr, wnlive, 
                               regd, sleeping, woken, wkind, faults, sigs, 
                               myctr, insig, hcs, alive, cs, pre, T, htmp, hg, 
                               hf, hheld, entry, i, op, res, tmp, g, f, held, 
                               old, oldh, popped, it, nx, st, wi, wl, ph, scan, 
                               v, ipi, ret, mret >>

s_p2(self) == /\ pc[self] = "s_p2"
              /\ ph' = [ph EXCEPT ![self] = 2]
              /\ ret' = [ret EXCEPT ![self] = "s_splice"]
              /\ pc' = [pc EXCEPT ![self] = "w_top"]
              /\ UNCHANGED << mem, sb, lock, acc, registry, cursnap, qsr, 
                              wnlive, regd, sleeping, woken, wkind, faults, 
                              sigs, myctr, insig, hcs, alive, cs, pre, T, htmp, 
                              hg, hf, hheld, entry, i, op, res, tmp, g, f, 
                              held, old, oldh, popped, it, nx, st, wi, wl, 
                              scan, v, ipi, mret >>

s_splice(self) == /\ pc[self] = "s_splice"
                  /\ /\ qsr' = {}
                     /\ registry' = (registry \cup qsr)
                  /\ pc' = [pc EXCEPT ![self] = "s_mm2"]
                  /\ UNCHANGED << mem, sb, lock, acc, cursnap, wnlive, regd, 
                                  sleeping, woken, wkind, faults, sigs, myctr, 
                                  insig, hcs, alive, cs, pre, T, htmp, hg, hf, 
                                  hheld, entry, i, op, res, tmp, g, f, held, 
                                  old, oldh, popped, it, nx, st, wi, wl, ph, 
                                  scan, v, ipi, ret, mret >>

s_mm2(self) == /\ pc[self] = "s_mm2"
               /\ mret' = [mret EXCEPT ![self] = "s_out"]
               /\ IF "s_mm2" \in Skip
                     THEN /\ pc' = [pc EXCEPT ![self] = "s_out"]
                     ELSE /\ pc' = [pc EXCEPT ![self] = "master"]
               /\ UNCHANGED << mem, sb, lock, acc, registry, cursnap, qsr, 
                               wnlive, regd, sleeping, woken, wkind, faults, 
                               sigs, myctr, insig, hcs, alive, cs, pre, T, 
                               htmp, hg, hf, hheld, entry, i, op, res, tmp, g, 
                               f, held, old, oldh, popped, it, nx, st, wi, wl, 
                               ph, scan, v, ipi, ret >>

s_out(self) == /\ pc[self] = "s_out"
               /\ Drained(self)
               /\ lock' = [lock EXCEPT !["registry_lock"] = "free"]
               /\ acc' = Ev(self, "unlock", "registry_lock", "-", "-", "-")
               /\ pc' = [pc EXCEPT ![self] = "s_gpun"]
               /\ UNCHANGED << mem, sb, registry, cursnap, qsr, wnlive, regd, 
                               sleeping, woken, wkind, faults, sigs, myctr, 
                               insig, hcs, alive, cs, pre, T, htmp, hg, hf, 
                               hheld, entry, i, op, res, tmp, g, f, held, old, 
                               oldh, popped, it, nx, st, wi, wl, ph, scan, v, 
                               ipi, ret, mret >>

s_gpun(self) == /\ pc[self] = "s_gpun"
                /\ Drained(self)
                /\ lock' = [lock EXCEPT !["gp_lock"] = "free"]
                /\ acc' = Ev(self, "unlock", "gp_lock", "-", "-", "-")
                /\ it' = [it EXCEPT ![self] = popped[self]]
                /\ pc' = [pc EXCEPT ![self] = "k_top"]
                /\ UNCHANGED << mem, sb, registry, cursnap, qsr, wnlive, regd, 
                                sleeping, woken, wkind, faults, sigs, myctr, 
                                insig, hcs, alive, cs, pre, T, htmp, hg, hf, 
                                hheld, entry, i, op, res, tmp, g, f, held, old, 
                                oldh, popped, nx, st, wi, wl, ph, scan, v, ipi, 
                                ret, mret >>

k_top(self) == /\ pc[self] = "k_top"
               /\ IF it[self] = END
                     THEN /\ pc' = [pc EXCEPT ![self] = "s_ret"]
                     ELSE /\ pc' = [pc EXCEPT ![self] = "k_next"]
               /\ UNCHANGED << mem, sb, lock, acc, registry, cursnap, qsr, 
                               wnlive, regd, sleeping, woken, wkind, faults, 
                               sigs, myctr, insig, hcs, alive, cs, pre, T, 
                               htmp, hg, hf, hheld, entry, i, op, res, tmp, g, 
                               f, held, old, oldh, popped, it, nx, st, wi, wl, 
                               ph, scan, v, ipi, ret, mret >>

k_next(self) == /\ pc[self] = "k_next"
                /\ Assert(it[self] \in wnlive, 
                          "Failure of assertion at line 299, column 11.")
                /\ nx' = [nx EXCEPT ![self] = Rd(self, (WnNext(it[self])))]
                /\ acc' = Ev(self, "ld", (WnNext(it[self])), "-", "-", Rd(self, (WnNext(it[self]))))
                /\ IF nx'[self] = NULL
                      THEN /\ pc' = [pc EXCEPT ![self] = "k_next"]
                      ELSE /\ pc' = [pc EXCEPT ![self] = "k_ldst"]
                /\ UNCHANGED << mem, sb, lock, registry, cursnap, qsr, wnlive, 
                                regd, sleeping, woken, wkind, faults, sigs, 
                                myctr, insig, hcs, alive, cs, pre, T, htmp, hg, 
                                hf, hheld, entry, i, op, res, tmp, g, f, held, 
                                old, oldh, popped, it, st, wi, wl, ph, scan, v, 
                                ipi, ret, mret >>

k_ldst(self) == /\ pc[self] = "k_ldst"
                /\ Assert(it[self] \in wnlive, 
                          "Failure of assertion at line 302, column 11.")
                /\ st' = [st EXCEPT ![self] = Rd(self, (WnState(it[self])))]
                /\ acc' = Ev(self, "ld", (WnState(it[self])), "-", "-", Rd(self, (WnState(it[self]))))
                /\ IF HasBit(st'[self], RUNNING)
                      THEN /\ it' = [it EXCEPT ![self] = nx[self]]
                           /\ pc' = [pc EXCEPT ![self] = "k_top"]
                      ELSE /\ pc' = [pc EXCEPT ![self] = "k_as"]
                           /\ it' = it
                /\ UNCHANGED << mem, sb, lock, registry, cursnap, qsr, wnlive, 
                                regd, sleeping, woken, wkind, faults, sigs, 
                                myctr, insig, hcs, alive, cs, pre, T, htmp, hg, 
                                hf, hheld, entry, i, op, res, tmp, g, f, held, 
                                old, oldh, popped, nx, wi, wl, ph, scan, v, 
                                ipi, ret, mret >>

k_as(self) == /\ pc[self] = "k_as"
              /\ Assert(it[self] \in wnlive, 
                        "Failure of assertion at line 305, column 11.")
              /\ st' = [st EXCEPT ![self] = Rd(self, (WnState(it[self])))]
              /\ acc' = Ev(self, "ld", (WnState(it[self])), "-", "-", Rd(self, (WnState(it[self]))))
              /\ Assert(st'[self] = WAITING, 
                        "Failure of assertion at line 307, column 11.")
              /\ pc' = [pc EXCEPT ![self] = "k_wk"]
              /\ UNCHANGED << mem, sb, lock, registry, cursnap, qsr, wnlive, 
                              regd, sleeping, woken, wkind, faults, sigs, 
                              myctr, insig, hcs, alive, cs, pre, T, htmp, hg, 
                              hf, hheld, entry, i, op, res, tmp, g, f, held, 
                              old, oldh, popped, it, nx, wi, wl, ph, scan, v, 
                              ipi, ret, mret >>

k_wk(self) == /\ pc[self] = "k_wk"
              /\ Assert(it[self] \in wnlive, 
                        "Failure of assertion at line 308, column 11.")
              /\ IF TSO
                    THEN /\ ~SBBlock \/ Len(sb[self]) < SBMax
                         /\ sb' = [sb EXCEPT ![self] = Append(sb[self], <<(WnState(it[self])), WAKEUP>>)]
                         /\ mem' = mem
                    ELSE /\ mem' = [mem EXCEPT ![(WnState(it[self]))] = WAKEUP]
                         /\ sb' = sb
              /\ acc' = Ev(self, "st", (WnState(it[self])), WAKEUP, "-", "-")
              /\ pc' = [pc EXCEPT ![self] = "k_ld2"]
              /\ UNCHANGED << lock, registry, cursnap, qsr, wnlive, regd, 
                              sleeping, woken, wkind, faults, sigs, myctr, 
                              insig, hcs, alive, cs, pre, T, htmp, hg, hf, 
                              hheld, entry, i, op, res, tmp, g, f, held, old, 
                              oldh, popped, it, nx, st, wi, wl, ph, scan, v, 
                              ipi, ret, mret >>

k_ld2(self) == /\ pc[self] = "k_ld2"
               /\ Assert(it[self] \in wnlive, 
                         "Failure of assertion at line 310, column 11.")
               /\ st' = [st EXCEPT ![self] = Rd(self, (WnState(it[self])))]
               /\ acc' = Ev(self, "ld", (WnState(it[self])), "-", "-", Rd(self, (WnState(it[self]))))
               /\ IF HasBit(st'[self], RUNNING)
                     THEN /\ pc' = [pc EXCEPT ![self] = "k_or"]
                     ELSE /\ IF FutexMode = "compat"
                                THEN /\ pc' = [pc EXCEPT ![self] = "kn_mb"]
                                ELSE /\ pc' = [pc EXCEPT ![self] = "k_fw"]
               /\ UNCHANGED << mem, sb, lock, registry, cursnap, qsr, wnlive, 
                               regd, sleeping, woken, wkind, faults, sigs, 
                               myctr, insig, hcs, alive, cs, pre, T, htmp, hg, 
                               hf, hheld, entry, i, op, res, tmp, g, f, held, 
                               old, oldh, popped, it, nx, wi, wl, ph, scan, v, 
                               ipi, ret, mret >>

k_fw(self) == /\ pc[self] = "k_fw"
              /\ Drained(self)
              /\ IF FutexMode = "futex"
                    THEN /\ \E w \in IF {t \in Threads : sleeping[t] = WnState(it[self]) /\ ~woken[t]} = {} THEN {"none"}
                                     ELSE {t \in Threads : sleeping[t] = WnState(it[self]) /\ ~woken[t]}:
                              /\ IF w # "none"
                                    THEN /\ woken' = [woken EXCEPT ![w] = TRUE]
                                    ELSE /\ TRUE
                                         /\ woken' = woken
                              /\ acc' = Ev(self, "fwake", WnState(it[self]), "-", "-", IF w = "none" THEN 0 ELSE 1)
                         /\ pc' = [pc EXCEPT ![self] = "k_or"]
                    ELSE /\ acc' = Ev(self, "fwake", WnState(it[self]), "-", "-", "ENOSYS")
                         /\ pc' = [pc EXCEPT ![self] = "kc_mb"]
                         /\ woken' = woken
              /\ UNCHANGED << mem, sb, lock, registry, cursnap, qsr, wnlive, 
                              regd, sleeping, wkind, faults, sigs, myctr, 
                              insig, hcs, alive, cs, pre, T, htmp, hg, hf, 
                              hheld, entry, i, op, res, tmp, g, f, held, old, 
                              oldh, popped, it, nx, st, wi, wl, ph, scan, v, 
                              ipi, ret, mret >>

kc_mb(self) == /\ pc[self] = "kc_mb"
               /\ Drained(self)
               /\ acc' = Ev(self, "mb", "-", "-", "-", "-")
               /\ pc' = [pc EXCEPT ![self] = "k_or"]
               /\ UNCHANGED << mem, sb, lock, registry, cursnap, qsr, wnlive, 
                               regd, sleeping, woken, wkind, faults, sigs, 
                               myctr, insig, hcs, alive, cs, pre, T, htmp, hg, 
                               hf, hheld, entry, i, op, res, tmp, g, f, held, 
                               old, oldh, popped, it, nx, st, wi, wl, ph, scan, 
                               v, ipi, ret, mret >>

kn_mb(self) == /\ pc[self] = "kn_mb"
               /\ Drained(self)
               /\ acc' = Ev(self, "mb", "-", "-", "-", "-")
               /\ pc' = [pc EXCEPT ![self] = "kn_lock"]
               /\ UNCHANGED << mem, sb, lock, registry, cursnap, qsr, wnlive, 
                               regd, sleeping, woken, wkind, faults, sigs, 
                               myctr, insig, hcs, alive, cs, pre, T, htmp, hg, 
                               hf, hheld, entry, i, op, res, tmp, g, f, held, 
                               old, oldh, popped, it, nx, st, wi, wl, ph, scan, 
                               v, ipi, ret, mret >>

kn_lock(self) == /\ pc[self] = "kn_lock"
                 /\ Drained(self) /\ lock["compat_lock"] = "free"
                 /\ lock' = [lock EXCEPT !["compat_lock"] = self]
                 /\ acc' = Ev(self, "lock", "compat_lock", "-", "-", "-")
                 /\ pc' = [pc EXCEPT ![self] = "kn_bc"]
                 /\ UNCHANGED << mem, sb, registry, cursnap, qsr, wnlive, regd, 
                                 sleeping, woken, wkind, faults, sigs, myctr, 
                                 insig, hcs, alive, cs, pre, T, htmp, hg, hf, 
                                 hheld, entry, i, op, res, tmp, g, f, held, 
                                 old, oldh, popped, it, nx, st, wi, wl, ph, 
                                 scan, v, ipi, ret, mret >>

kn_bc(self) == /\ pc[self] = "kn_bc"
               /\ Drained(self)
               /\ woken' = [t \in Threads |-> IF sleeping[t] = "compat_cond" THEN TRUE ELSE woken[t]]
               /\ acc' = Ev(self, "cbroadcast", "-", "-", "-", "-")
               /\ pc' = [pc EXCEPT ![self] = "kn_unl"]
               /\ UNCHANGED << mem, sb, lock, registry, cursnap, qsr, wnlive, 
                               regd, sleeping, wkind, faults, sigs, myctr, 
                               insig, hcs, alive, cs, pre, T, htmp, hg, hf, 
                               hheld, entry, i, op, res, tmp, g, f, held, old, 
                               oldh, popped, it, nx, st, wi, wl, ph, scan, v, 
                               ipi, ret, mret >>

kn_unl(self) == /\ pc[self] = "kn_unl"
                /\ Drained(self)
                /\ lock' = [lock EXCEPT !["compat_lock"] = "free"]
                /\ acc' = Ev(self, "unlock", "compat_lock", "-", "-", "-")
                /\ pc' = [pc EXCEPT ![self] = "k_or"]
                /\ UNCHANGED << mem, sb, registry, cursnap, qsr, wnlive, regd, 
                                sleeping, woken, wkind, faults, sigs, myctr, 
                                insig, hcs, alive, cs, pre, T, htmp, hg, hf, 
                                hheld, entry, i, op, res, tmp, g, f, held, old, 
                                oldh, popped, it, nx, st, wi, wl, ph, scan, v, 
                                ipi, ret, mret >>

k_or(self) == /\ pc[self] = "k_or"
              /\ Assert(it[self] \in wnlive, 
                        "Failure of assertion at line 330, column 11.")
              /\ Drained(self)
              /\ /\ acc' = Ev(self, "or", WnState(it[self]), TEARDOWN, "-", OrBit(mem[WnState(it[self])], TEARDOWN))
                 /\ mem' = [mem EXCEPT ![WnState(it[self])] = OrBit(mem[WnState(it[self])], TEARDOWN)]
              /\ it' = [it EXCEPT ![self] = nx[self]]
              /\ pc' = [pc EXCEPT ![self] = "k_top"]
              /\ UNCHANGED << sb, lock, registry, cursnap, qsr, wnlive, regd, 
                              sleeping, woken, wkind, faults, sigs, myctr, 
                              insig, hcs, alive, cs, pre, T, htmp, hg, hf, 
                              hheld, entry, i, op, res, tmp, g, f, held, old, 
                              oldh, popped, nx, st, wi, wl, ph, scan, v, ipi, 
                              ret, mret >>

a_ld1(self) == /\ pc[self] = "a_ld1"
               /\ st' = [st EXCEPT ![self] = Rd(self, (WnState(Wn(self))))]
               /\ acc' = Ev(self, "ld", (WnState(Wn(self))), "-", "-", Rd(self, (WnState(Wn(self)))))
               /\ IF st'[self] # WAITING
                     THEN /\ pc' = [pc EXCEPT ![self] = "a_or"]
                          /\ wi' = wi
                     ELSE /\ wi' = [wi EXCEPT ![self] = wi[self] + 1]
                          /\ IF wi'[self] < WaitAttempts
                                THEN /\ pc' = [pc EXCEPT ![self] = "a_ld1"]
                                ELSE /\ pc' = [pc EXCEPT ![self] = "a_ld2"]
               /\ UNCHANGED << mem, sb, lock, registry, cursnap, qsr, wnlive, 
                               regd, sleeping, woken, wkind, faults, sigs, 
                               myctr, insig, hcs, alive, cs, pre, T, htmp, hg, 
                               hf, hheld, entry, i, op, res, tmp, g, f, held, 
                               old, oldh, popped, it, nx, wl, ph, scan, v, ipi, 
                               ret, mret >>

a_ld2(self) == /\ pc[self] = "a_ld2"
               /\ st' = [st EXCEPT ![self] = Rd(self, (WnState(Wn(self))))]
               /\ acc' = Ev(self, "ld", (WnState(Wn(self))), "-", "-", Rd(self, (WnState(Wn(self)))))
               /\ IF st'[self] # WAITING
                     THEN /\ pc' = [pc EXCEPT ![self] = "a_or"]
                     ELSE /\ IF FutexMode = "compat"
                                THEN /\ pc' = [pc EXCEPT ![self] = "an_mb"]
                                ELSE /\ pc' = [pc EXCEPT ![self] = "a_fw"]
               /\ UNCHANGED << mem, sb, lock, registry, cursnap, qsr, wnlive, 
                               regd, sleeping, woken, wkind, faults, sigs, 
                               myctr, insig, hcs, alive, cs, pre, T, htmp, hg, 
                               hf, hheld, entry, i, op, res, tmp, g, f, held, 
                               old, oldh, popped, it, nx, wi, wl, ph, scan, v, 
                               ipi, ret, mret >>

a_fw(self) == /\ pc[self] = "a_fw"
              /\ Drained(self)
              /\ IF FutexMode # "futex"
                    THEN /\ acc' = Ev(self, "fwait", WnState(Wn(self)), "-", "-", "ENOSYS")
                         /\ pc' = [pc EXCEPT ![self] = "ac_mb"]
                         /\ UNCHANGED << sleeping, woken >>
                    ELSE /\ IF mem[WnState(Wn(self))] # WAITING
                               THEN /\ acc' = Ev(self, "fwait", WnState(Wn(self)), WAITING, "-", "EAGAIN")
                                    /\ pc' = [pc EXCEPT ![self] = "a_or"]
                                    /\ UNCHANGED << sleeping, woken >>
                               ELSE /\ sleeping' = [sleeping EXCEPT ![self] = WnState(Wn(self))]
                                    /\ woken' = [woken EXCEPT ![self] = FALSE]
                                    /\ acc' = Ev(self, "fwait", WnState(Wn(self)), WAITING, "-", "SLEEP")
                                    /\ pc' = [pc EXCEPT ![self] = "a_wk"]
              /\ UNCHANGED << mem, sb, lock, registry, cursnap, qsr, wnlive, 
                              regd, wkind, faults, sigs, myctr, insig, hcs, 
                              alive, cs, pre, T, htmp, hg, hf, hheld, entry, i, 
                              op, res, tmp, g, f, held, old, oldh, popped, it, 
                              nx, st, wi, wl, ph, scan, v, ipi, ret, mret >>

a_wk(self) == /\ pc[self] = "a_wk"
              /\ woken[self]
              /\ acc' = Ev(self, "fwoke", WnState(Wn(self)), "-", "-", wkind[self])
              /\ sleeping' = [sleeping EXCEPT ![self] = "none"]
              /\ woken' = [woken EXCEPT ![self] = FALSE]
              /\ wkind' = [wkind EXCEPT ![self] = "WAKE"]
              /\ pc' = [pc EXCEPT ![self] = "a_ld2"]
              /\ UNCHANGED << mem, sb, lock, registry, cursnap, qsr, wnlive, 
                              regd, faults, sigs, myctr, insig, hcs, alive, cs, 
                              pre, T, htmp, hg, hf, hheld, entry, i, op, res, 
                              tmp, g, f, held, old, oldh, popped, it, nx, st, 
                              wi, wl, ph, scan, v, ipi, ret, mret >>

ac_mb(self) == /\ pc[self] = "ac_mb"
               /\ Drained(self)
               /\ acc' = Ev(self, "mb", "-", "-", "-", "-")
               /\ pc' = [pc EXCEPT ![self] = "ac_ld"]
               /\ UNCHANGED << mem, sb, lock, registry, cursnap, qsr, wnlive, 
                               regd, sleeping, woken, wkind, faults, sigs, 
                               myctr, insig, hcs, alive, cs, pre, T, htmp, hg, 
                               hf, hheld, entry, i, op, res, tmp, g, f, held, 
                               old, oldh, popped, it, nx, st, wi, wl, ph, scan, 
                               v, ipi, ret, mret >>

ac_ld(self) == /\ pc[self] = "ac_ld"
               /\ st' = [st EXCEPT ![self] = Rd(self, (WnState(Wn(self))))]
               /\ acc' = Ev(self, "ld", (WnState(Wn(self))), "-", "-", Rd(self, (WnState(Wn(self)))))
               /\ IF st'[self] = WAITING
                     THEN /\ pc' = [pc EXCEPT ![self] = "ac_ld"]
                     ELSE /\ pc' = [pc EXCEPT ![self] = "a_ld2"]
               /\ UNCHANGED << mem, sb, lock, registry, cursnap, qsr, wnlive, 
                               regd, sleeping, woken, wkind, faults, sigs, 
                               myctr, insig, hcs, alive, cs, pre, T, htmp, hg, 
                               hf, hheld, entry, i, op, res, tmp, g, f, held, 
                               old, oldh, popped, it, nx, wi, wl, ph, scan, v, 
                               ipi, ret, mret >>

an_mb(self) == /\ pc[self] = "an_mb"
               /\ Drained(self)
               /\ acc' = Ev(self, "mb", "-", "-", "-", "-")
               /\ pc' = [pc EXCEPT ![self] = "an_lock"]
               /\ UNCHANGED << mem, sb, lock, registry, cursnap, qsr, wnlive, 
                               regd, sleeping, woken, wkind, faults, sigs, 
                               myctr, insig, hcs, alive, cs, pre, T, htmp, hg, 
                               hf, hheld, entry, i, op, res, tmp, g, f, held, 
                               old, oldh, popped, it, nx, st, wi, wl, ph, scan, 
                               v, ipi, ret, mret >>

an_lock(self) == /\ pc[self] = "an_lock"
                 /\ Drained(self) /\ lock["compat_lock"] = "free"
                 /\ lock' = [lock EXCEPT !["compat_lock"] = self]
                 /\ acc' = Ev(self, "lock", "compat_lock", "-", "-", "-")
                 /\ pc' = [pc EXCEPT ![self] = "an_ld"]
                 /\ UNCHANGED << mem, sb, registry, cursnap, qsr, wnlive, regd, 
                                 sleeping, woken, wkind, faults, sigs, myctr, 
                                 insig, hcs, alive, cs, pre, T, htmp, hg, hf, 
                                 hheld, entry, i, op, res, tmp, g, f, held, 
                                 old, oldh, popped, it, nx, st, wi, wl, ph, 
                                 scan, v, ipi, ret, mret >>

an_ld(self) == /\ pc[self] = "an_ld"
               /\ st' = [st EXCEPT ![self] = Rd(self, (WnState(Wn(self))))]
               /\ acc' = Ev(self, "ld", (WnState(Wn(self))), "-", "-", Rd(self, (WnState(Wn(self)))))
               /\ IF st'[self] # WAITING
                     THEN /\ pc' = [pc EXCEPT ![self] = "an_unl"]
                     ELSE /\ pc' = [pc EXCEPT ![self] = "an_cw"]
               /\ UNCHANGED << mem, sb, lock, registry, cursnap, qsr, wnlive, 
                               regd, sleeping, woken, wkind, faults, sigs, 
                               myctr, insig, hcs, alive, cs, pre, T, htmp, hg, 
                               hf, hheld, entry, i, op, res, tmp, g, f, held, 
                               old, oldh, popped, it, nx, wi, wl, ph, scan, v, 
                               ipi, ret, mret >>

an_cw(self) == /\ pc[self] = "an_cw"
               /\ Drained(self)
               /\ lock' = [lock EXCEPT !["compat_lock"] = "free"]
               /\ sleeping' = [sleeping EXCEPT ![self] = "compat_cond"]
               /\ woken' = [woken EXCEPT ![self] = FALSE]
               /\ acc' = Ev(self, "cwait", "compat_lock", "-", "-", "-")
               /\ pc' = [pc EXCEPT ![self] = "an_cwk"]
               /\ UNCHANGED << mem, sb, registry, cursnap, qsr, wnlive, regd, 
                               wkind, faults, sigs, myctr, insig, hcs, alive, 
                               cs, pre, T, htmp, hg, hf, hheld, entry, i, op, 
                               res, tmp, g, f, held, old, oldh, popped, it, nx, 
                               st, wi, wl, ph, scan, v, ipi, ret, mret >>

an_cwk(self) == /\ pc[self] = "an_cwk"
                /\ woken[self]
                /\ sleeping' = [sleeping EXCEPT ![self] = "none"]
                /\ woken' = [woken EXCEPT ![self] = FALSE]
                /\ wkind' = [wkind EXCEPT ![self] = "WAKE"]
                /\ pc' = [pc EXCEPT ![self] = "an_relk"]
                /\ UNCHANGED << mem, sb, lock, acc, registry, cursnap, qsr, 
                                wnlive, regd, faults, sigs, myctr, insig, hcs, 
                                alive, cs, pre, T, htmp, hg, hf, hheld, entry, 
                                i, op, res, tmp, g, f, held, old, oldh, popped, 
                                it, nx, st, wi, wl, ph, scan, v, ipi, ret, 
                                mret >>

an_relk(self) == /\ pc[self] = "an_relk"
                 /\ Drained(self) /\ lock["compat_lock"] = "free"
                 /\ lock' = [lock EXCEPT !["compat_lock"] = self]
                 /\ acc' = Ev(self, "cwoke", "compat_lock", "-", "-", "-")
                 /\ pc' = [pc EXCEPT ![self] = "an_ld"]
                 /\ UNCHANGED << mem, sb, registry, cursnap, qsr, wnlive, regd, 
                                 sleeping, woken, wkind, faults, sigs, myctr, 
                                 insig, hcs, alive, cs, pre, T, htmp, hg, hf, 
                                 hheld, entry, i, op, res, tmp, g, f, held, 
                                 old, oldh, popped, it, nx, st, wi, wl, ph, 
                                 scan, v, ipi, ret, mret >>

an_unl(self) == /\ pc[self] = "an_unl"
                /\ Drained(self)
                /\ lock' = [lock EXCEPT !["compat_lock"] = "free"]
                /\ acc' = Ev(self, "unlock", "compat_lock", "-", "-", "-")
                /\ pc' = [pc EXCEPT ![self] = "a_ld2"]
                /\ UNCHANGED << mem, sb, registry, cursnap, qsr, wnlive, regd, 
                                sleeping, woken, wkind, faults, sigs, myctr, 
                                insig, hcs, alive, cs, pre, T, htmp, hg, hf, 
                                hheld, entry, i, op, res, tmp, g, f, held, old, 
                                oldh, popped, it, nx, st, wi, wl, ph, scan, v, 
                                ipi, ret, mret >>

a_or(self) == /\ pc[self] = "a_or"
              /\ Drained(self)
              /\ /\ acc' = Ev(self, "or", WnState(Wn(self)), RUNNING, "-", OrBit(mem[WnState(Wn(self))], RUNNING))
                 /\ mem' = [mem EXCEPT ![WnState(Wn(self))] = OrBit(mem[WnState(Wn(self))], RUNNING)]
              /\ wi' = [wi EXCEPT ![self] = 0]
              /\ pc' = [pc EXCEPT ![self] = "a_ld3"]
              /\ UNCHANGED << sb, lock, registry, cursnap, qsr, wnlive, regd, 
                              sleeping, woken, wkind, faults, sigs, myctr, 
                              insig, hcs, alive, cs, pre, T, htmp, hg, hf, 
                              hheld, entry, i, op, res, tmp, g, f, held, old, 
                              oldh, popped, it, nx, st, wl, ph, scan, v, ipi, 
                              ret, mret >>

a_ld3(self) == /\ pc[self] = "a_ld3"
               /\ st' = [st EXCEPT ![self] = Rd(self, (WnState(Wn(self))))]
               /\ acc' = Ev(self, "ld", (WnState(Wn(self))), "-", "-", Rd(self, (WnState(Wn(self)))))
               /\ IF HasBit(st'[self], TEARDOWN)
                     THEN /\ pc' = [pc EXCEPT ![self] = "a_ld4"]
                          /\ wi' = wi
                     ELSE /\ wi' = [wi EXCEPT ![self] = wi[self] + 1]
                          /\ IF wi'[self] < WaitAttempts
                                THEN /\ pc' = [pc EXCEPT ![self] = "a_ld3"]
                                ELSE /\ pc' = [pc EXCEPT ![self] = "a_ld4"]
               /\ UNCHANGED << mem, sb, lock, registry, cursnap, qsr, wnlive, 
                               regd, sleeping, woken, wkind, faults, sigs, 
                               myctr, insig, hcs, alive, cs, pre, T, htmp, hg, 
                               hf, hheld, entry, i, op, res, tmp, g, f, held, 
                               old, oldh, popped, it, nx, wl, ph, scan, v, ipi, 
                               ret, mret >>

a_ld4(self) == /\ pc[self] = "a_ld4"
               /\ st' = [st EXCEPT ![self] = Rd(self, (WnState(Wn(self))))]
               /\ acc' = Ev(self, "ld", (WnState(Wn(self))), "-", "-", Rd(self, (WnState(Wn(self)))))
               /\ IF ~HasBit(st'[self], TEARDOWN)
                     THEN /\ pc' = [pc EXCEPT ![self] = "a_ld4"]
                     ELSE /\ pc' = [pc EXCEPT ![self] = "a_ld5"]
               /\ UNCHANGED << mem, sb, lock, registry, cursnap, qsr, wnlive, 
                               regd, sleeping, woken, wkind, faults, sigs, 
                               myctr, insig, hcs, alive, cs, pre, T, htmp, hg, 
                               hf, hheld, entry, i, op, res, tmp, g, f, held, 
                               old, oldh, popped, it, nx, wi, wl, ph, scan, v, 
                               ipi, ret, mret >>

a_ld5(self) == /\ pc[self] = "a_ld5"
               /\ st' = [st EXCEPT ![self] = Rd(self, (WnState(Wn(self))))]
               /\ acc' = Ev(self, "ld", (WnState(Wn(self))), "-", "-", Rd(self, (WnState(Wn(self)))))
               /\ Assert(HasBit(st'[self], TEARDOWN), 
                         "Failure of assertion at line 377, column 11.")
               /\ pc' = [pc EXCEPT ![self] = "s_ret"]
               /\ UNCHANGED << mem, sb, lock, registry, cursnap, qsr, wnlive, 
                               regd, sleeping, woken, wkind, faults, sigs, 
                               myctr, insig, hcs, alive, cs, pre, T, htmp, hg, 
                               hf, hheld, entry, i, op, res, tmp, g, f, held, 
                               old, oldh, popped, it, nx, wi, wl, ph, scan, v, 
                               ipi, ret, mret >>

s_ret(self) == /\ pc[self] = "s_ret"
               /\ Assert(pre[self] \cap OpenCS = {}, 
                         "Failure of assertion at line 380, column 11.")
               /\ mem' = [mem EXCEPT ![WnNext(Wn(self))] = NULL,
                                     ![WnState(Wn(self))] = 0]
               /\ wnlive' = wnlive \ {Wn(self)}
               /\ pre' = [pre EXCEPT ![self] = {}]
               /\ pc' = [pc EXCEPT ![self] = "t_ret"]
               /\ UNCHANGED << sb, lock, acc, registry, cursnap, qsr, regd, 
                               sleeping, woken, wkind, faults, sigs, myctr, 
                               insig, hcs, alive, cs, T, htmp, hg, hf, hheld, 
                               entry, i, op, res, tmp, g, f, held, old, oldh, 
                               popped, it, nx, st, wi, wl, ph, scan, v, ipi, 
                               ret, mret >>

w_top(self) == /\ pc[self] = "w_top"
               /\ wl' = [wl EXCEPT ![self] = 0]
               /\ pc' = [pc EXCEPT ![self] = "w_loop"]
               /\ UNCHANGED << mem, sb, lock, acc, registry, cursnap, qsr, 
                               wnlive, regd, sleeping, woken, wkind, faults, 
                               sigs, myctr, insig, hcs, alive, cs, pre, T, 
                               htmp, hg, hf, hheld, entry, i, op, res, tmp, g, 
                               f, held, old, oldh, popped, it, nx, st, wi, ph, 
                               scan, v, ipi, ret, mret >>

w_loop(self) == /\ pc[self] = "w_loop"
                /\ IF wl[self] < QSAttempts
                      THEN /\ wl' = [wl EXCEPT ![self] = wl[self] + 1]
                      ELSE /\ TRUE
                           /\ wl' = wl
                /\ IF wl'[self] < QSAttempts
                      THEN /\ pc' = [pc EXCEPT ![self] = "w_scan0"]
                      ELSE /\ pc' = [pc EXCEPT ![self] = "w_dec"]
                /\ UNCHANGED << mem, sb, lock, acc, registry, cursnap, qsr, 
                                wnlive, regd, sleeping, woken, wkind, faults, 
                                sigs, myctr, insig, hcs, alive, cs, pre, T, 
                                htmp, hg, hf, hheld, entry, i, op, res, tmp, g, 
                                f, held, old, oldh, popped, it, nx, st, wi, ph, 
                                scan, v, ipi, ret, mret >>

w_dec(self) == /\ pc[self] = "w_dec"
               /\ Drained(self)
               /\ /\ acc' = Ev(self, "dec", "gp_futex", "-", "-", mem["gp_futex"] - 1)
                  /\ mem' = [mem EXCEPT !["gp_futex"] = mem["gp_futex"] - 1]
               /\ pc' = [pc EXCEPT ![self] = "w_mm"]
               /\ UNCHANGED << sb, lock, registry, cursnap, qsr, wnlive, regd, 
                               sleeping, woken, wkind, faults, sigs, myctr, 
                               insig, hcs, alive, cs, pre, T, htmp, hg, hf, 
                               hheld, entry, i, op, res, tmp, g, f, held, old, 
                               oldh, popped, it, nx, st, wi, wl, ph, scan, v, 
                               ipi, ret, mret >>

w_mm(self) == /\ pc[self] = "w_mm"
              /\ mret' = [mret EXCEPT ![self] = "w_scan0"]
              /\ IF "w_mm" \in Skip
                    THEN /\ pc' = [pc EXCEPT ![self] = "w_scan0"]
                    ELSE /\ pc' = [pc EXCEPT ![self] = "master"]
              /\ UNCHANGED << mem, sb, lock, acc, registry, cursnap, qsr, 
                              wnlive, regd, sleeping, woken, wkind, faults, 
                              sigs, myctr, insig, hcs, alive, cs, pre, T, htmp, 
                              hg, hf, hheld, entry, i, op, res, tmp, g, f, 
                              held, old, oldh, popped, it, nx, st, wi, wl, ph, 
                              scan, v, ipi, ret >>

w_scan0(self) == /\ pc[self] = "w_scan0"
                 /\ scan' = [scan EXCEPT ![self] = IF ph[self] = 1 THEN registry ELSE cursnap]
                 /\ pc' = [pc EXCEPT ![self] = "w_scan"]
                 /\ UNCHANGED << mem, sb, lock, acc, registry, cursnap, qsr, 
                                 wnlive, regd, sleeping, woken, wkind, faults, 
                                 sigs, myctr, insig, hcs, alive, cs, pre, T, 
                                 htmp, hg, hf, hheld, entry, i, op, res, tmp, 
                                 g, f, held, old, oldh, popped, it, nx, st, wi, 
                                 wl, ph, v, ipi, ret, mret >>

w_scan(self) == /\ pc[self] = "w_scan"
                /\ IF scan[self] = {}
                      THEN /\ pc' = [pc EXCEPT ![self] = "w_chk"]
                      ELSE /\ pc' = [pc EXCEPT ![self] = "w_ldr"]
                /\ UNCHANGED << mem, sb, lock, acc, registry, cursnap, qsr, 
                                wnlive, regd, sleeping, woken, wkind, faults, 
                                sigs, myctr, insig, hcs, alive, cs, pre, T, 
                                htmp, hg, hf, hheld, entry, i, op, res, tmp, g, 
                                f, held, old, oldh, popped, it, nx, st, wi, wl, 
                                ph, scan, v, ipi, ret, mret >>

w_ldr(self) == /\ pc[self] = "w_ldr"
               /\ \E r \in scan[self]:
                    /\ Assert(r \in regd, 
                              "Failure of assertion at line 396, column 13.")
                    /\ v' = [v EXCEPT ![self] = Rd(self, Rctr(r))]
                    /\ acc' = Ev(self, "ld", Rctr(r), "-", "-", Rd(self, Rctr(r)))
                    /\ scan' = [scan EXCEPT ![self] = scan[self] \ {r}]
                    /\ IF Nest(Rd(self, Rctr(r))) = 0
                          THEN /\ IF ph[self] = 1
                                     THEN /\ registry' = registry \ {r}
                                          /\ UNCHANGED cursnap
                                     ELSE /\ cursnap' = cursnap \ {r}
                                          /\ UNCHANGED registry
                               /\ qsr' = (qsr \cup {r})
                          ELSE /\ IF Ph(Rd(self, Rctr(r))) = Ph(Rd(self, "gp_ctr"))
                                     THEN /\ IF ph[self] = 1
                                                THEN /\ registry' = registry \ {r}
                                                     /\ cursnap' = (cursnap \cup {r})
                                                     /\ qsr' = qsr
                                                ELSE /\ cursnap' = cursnap \ {r}
                                                     /\ qsr' = (qsr \cup {r})
                                                     /\ UNCHANGED registry
                                     ELSE /\ TRUE
                                          /\ UNCHANGED << registry, cursnap, 
                                                          qsr >>
               /\ pc' = [pc EXCEPT ![self] = "w_scan"]
               /\ UNCHANGED << mem, sb, lock, wnlive, regd, sleeping, woken, 
                               wkind, faults, sigs, myctr, insig, hcs, alive, 
                               cs, pre, T, htmp, hg, hf, hheld, entry, i, op, 
                               res, tmp, g, f, held, old, oldh, popped, it, nx, 
                               st, wi, wl, ph, ipi, ret, mret >>

w_chk(self) == /\ pc[self] = "w_chk"
               /\ IF (IF ph[self] = 1 THEN registry ELSE cursnap) # {}
                     THEN /\ pc' = [pc EXCEPT ![self] = "w_wait"]
                     ELSE /\ IF wl[self] < QSAttempts
                                THEN /\ pc' = [pc EXCEPT ![self] = "w_done"]
                                ELSE /\ pc' = [pc EXCEPT ![self] = "w_mm2"]
               /\ UNCHANGED << mem, sb, lock, acc, registry, cursnap, qsr, 
                               wnlive, regd, sleeping, woken, wkind, faults, 
                               sigs, myctr, insig, hcs, alive, cs, pre, T, 
                               htmp, hg, hf, hheld, entry, i, op, res, tmp, g, 
                               f, held, old, oldh, popped, it, nx, st, wi, wl, 
                               ph, scan, v, ipi, ret, mret >>

w_mm2(self) == /\ pc[self] = "w_mm2"
               /\ mret' = [mret EXCEPT ![self] = "w_st0"]
               /\ IF "w_mm2" \in Skip
                     THEN /\ pc' = [pc EXCEPT ![self] = "w_st0"]
                     ELSE /\ pc' = [pc EXCEPT ![self] = "master"]
               /\ UNCHANGED << mem, sb, lock, acc, registry, cursnap, qsr, 
                               wnlive, regd, sleeping, woken, wkind, faults, 
                               sigs, myctr, insig, hcs, alive, cs, pre, T, 
                               htmp, hg, hf, hheld, entry, i, op, res, tmp, g, 
                               f, held, old, oldh, popped, it, nx, st, wi, wl, 
                               ph, scan, v, ipi, ret >>

w_st0(self) == /\ pc[self] = "w_st0"
               /\ IF TSO
                     THEN /\ ~SBBlock \/ Len(sb[self]) < SBMax
                          /\ sb' = [sb EXCEPT ![self] = Append(sb[self], <<"gp_futex", 0>>)]
                          /\ mem' = mem
                     ELSE /\ mem' = [mem EXCEPT !["gp_futex"] = 0]
                          /\ sb' = sb
               /\ acc' = Ev(self, "st", "gp_futex", 0, "-", "-")
               /\ pc' = [pc EXCEPT ![self] = "w_done"]
               /\ UNCHANGED << lock, registry, cursnap, qsr, wnlive, regd, 
                               sleeping, woken, wkind, faults, sigs, myctr, 
                               insig, hcs, alive, cs, pre, T, htmp, hg, hf, 
                               hheld, entry, i, op, res, tmp, g, f, held, old, 
                               oldh, popped, it, nx, st, wi, wl, ph, scan, v, 
                               ipi, ret, mret >>

w_done(self) == /\ pc[self] = "w_done"
                /\ IF ret[self] = "s_mb2"
                      THEN /\ pc' = [pc EXCEPT ![self] = "s_mb2"]
                      ELSE /\ pc' = [pc EXCEPT ![self] = "s_splice"]
                /\ UNCHANGED << mem, sb, lock, acc, registry, cursnap, qsr, 
                                wnlive, regd, sleeping, woken, wkind, faults, 
                                sigs, myctr, insig, hcs, alive, cs, pre, T, 
                                htmp, hg, hf, hheld, entry, i, op, res, tmp, g, 
                                f, held, old, oldh, popped, it, nx, st, wi, wl, 
                                ph, scan, v, ipi, ret, mret >>

w_wait(self) == /\ pc[self] = "w_wait"
                /\ IF wl[self] < QSAttempts
                      THEN /\ pc' = [pc EXCEPT ![self] = "wr_unl"]
                      ELSE /\ pc' = [pc EXCEPT ![self] = "wg_mm"]
                /\ UNCHANGED << mem, sb, lock, acc, registry, cursnap, qsr, 
                                wnlive, regd, sleeping, woken, wkind, faults, 
                                sigs, myctr, insig, hcs, alive, cs, pre, T, 
                                htmp, hg, hf, hheld, entry, i, op, res, tmp, g, 
                                f, held, old, oldh, popped, it, nx, st, wi, wl, 
                                ph, scan, v, ipi, ret, mret >>

wg_mm(self) == /\ pc[self] = "wg_mm"
               /\ mret' = [mret EXCEPT ![self] = "wg_unl"]
               /\ IF "wg_mm" \in Skip
                     THEN /\ pc' = [pc EXCEPT ![self] = "wg_unl"]
                     ELSE /\ pc' = [pc EXCEPT ![self] = "master"]
               /\ UNCHANGED << mem, sb, lock, acc, registry, cursnap, qsr, 
                               wnlive, regd, sleeping, woken, wkind, faults, 
                               sigs, myctr, insig, hcs, alive, cs, pre, T, 
                               htmp, hg, hf, hheld, entry, i, op, res, tmp, g, 
                               f, held, old, oldh, popped, it, nx, st, wi, wl, 
                               ph, scan, v, ipi, ret >>

wg_unl(self) == /\ pc[self] = "wg_unl"
                /\ Drained(self)
                /\ lock' = [lock EXCEPT !["registry_lock"] = "free"]
                /\ acc' = Ev(self, "unlock", "registry_lock", "-", "-", "-")
                /\ pc' = [pc EXCEPT ![self] = "wg_ld"]
                /\ UNCHANGED << mem, sb, registry, cursnap, qsr, wnlive, regd, 
                                sleeping, woken, wkind, faults, sigs, myctr, 
                                insig, hcs, alive, cs, pre, T, htmp, hg, hf, 
                                hheld, entry, i, op, res, tmp, g, f, held, old, 
                                oldh, popped, it, nx, st, wi, wl, ph, scan, v, 
                                ipi, ret, mret >>

wg_ld(self) == /\ pc[self] = "wg_ld"
               /\ f' = [f EXCEPT ![self] = Rd(self, "gp_futex")]
               /\ acc' = Ev(self, "ld", "gp_futex", "-", "-", Rd(self, "gp_futex"))
               /\ IF f'[self] # -1
                     THEN /\ pc' = [pc EXCEPT ![self] = "wg_lock"]
                     ELSE /\ IF FutexMode = "compat"
                                THEN /\ pc' = [pc EXCEPT ![self] = "wgc_mb"]
                                ELSE /\ pc' = [pc EXCEPT ![self] = "wg_fw"]
               /\ UNCHANGED << mem, sb, lock, registry, cursnap, qsr, wnlive, 
                               regd, sleeping, woken, wkind, faults, sigs, 
                               myctr, insig, hcs, alive, cs, pre, T, htmp, hg, 
                               hf, hheld, entry, i, op, res, tmp, g, held, old, 
                               oldh, popped, it, nx, st, wi, wl, ph, scan, v, 
                               ipi, ret, mret >>

wg_fw(self) == /\ pc[self] = "wg_fw"
               /\ Drained(self)
               /\ IF FutexMode # "futex"
                     THEN /\ acc' = Ev(self, "fwait", "gp_futex", "-", "-", "ENOSYS")
                          /\ pc' = [pc EXCEPT ![self] = "wgc_mb"]
                          /\ UNCHANGED << sleeping, woken >>
                     ELSE /\ IF mem["gp_futex"] # -1
                                THEN /\ acc' = Ev(self, "fwait", "gp_futex", -1, "-", "EAGAIN")
                                     /\ pc' = [pc EXCEPT ![self] = "wg_lock"]
                                     /\ UNCHANGED << sleeping, woken >>
                                ELSE /\ sleeping' = [sleeping EXCEPT ![self] = "gp_futex"]
                                     /\ woken' = [woken EXCEPT ![self] = FALSE]
                                     /\ acc' = Ev(self, "fwait", "gp_futex", -1, "-", "SLEEP")
                                     /\ pc' = [pc EXCEPT ![self] = "wg_wk"]
               /\ UNCHANGED << mem, sb, lock, registry, cursnap, qsr, wnlive, 
                               regd, wkind, faults, sigs, myctr, insig, hcs, 
                               alive, cs, pre, T, htmp, hg, hf, hheld, entry, 
                               i, op, res, tmp, g, f, held, old, oldh, popped, 
                               it, nx, st, wi, wl, ph, scan, v, ipi, ret, mret >>

wg_wk(self) == /\ pc[self] = "wg_wk"
               /\ woken[self]
               /\ acc' = Ev(self, "fwoke", "gp_futex", "-", "-", wkind[self])
               /\ sleeping' = [sleeping EXCEPT ![self] = "none"]
               /\ woken' = [woken EXCEPT ![self] = FALSE]
               /\ wkind' = [wkind EXCEPT ![self] = "WAKE"]
               /\ pc' = [pc EXCEPT ![self] = "wg_ld"]
               /\ UNCHANGED << mem, sb, lock, registry, cursnap, qsr, wnlive, 
                               regd, faults, sigs, myctr, insig, hcs, alive, 
                               cs, pre, T, htmp, hg, hf, hheld, entry, i, op, 
                               res, tmp, g, f, held, old, oldh, popped, it, nx, 
                               st, wi, wl, ph, scan, v, ipi, ret, mret >>

wgc_mb(self) == /\ pc[self] = "wgc_mb"
                /\ Drained(self)
                /\ acc' = Ev(self, "mb", "-", "-", "-", "-")
                /\ pc' = [pc EXCEPT ![self] = "wgc_ld"]
                /\ UNCHANGED << mem, sb, lock, registry, cursnap, qsr, wnlive, 
                                regd, sleeping, woken, wkind, faults, sigs, 
                                myctr, insig, hcs, alive, cs, pre, T, htmp, hg, 
                                hf, hheld, entry, i, op, res, tmp, g, f, held, 
                                old, oldh, popped, it, nx, st, wi, wl, ph, 
                                scan, v, ipi, ret, mret >>

wgc_ld(self) == /\ pc[self] = "wgc_ld"
                /\ f' = [f EXCEPT ![self] = Rd(self, "gp_futex")]
                /\ acc' = Ev(self, "ld", "gp_futex", "-", "-", Rd(self, "gp_futex"))
                /\ IF f'[self] = -1
                      THEN /\ pc' = [pc EXCEPT ![self] = "wgc_ld"]
                      ELSE /\ pc' = [pc EXCEPT ![self] = "wg_ld"]
                /\ UNCHANGED << mem, sb, lock, registry, cursnap, qsr, wnlive, 
                                regd, sleeping, woken, wkind, faults, sigs, 
                                myctr, insig, hcs, alive, cs, pre, T, htmp, hg, 
                                hf, hheld, entry, i, op, res, tmp, g, held, 
                                old, oldh, popped, it, nx, st, wi, wl, ph, 
                                scan, v, ipi, ret, mret >>

wg_lock(self) == /\ pc[self] = "wg_lock"
                 /\ Drained(self) /\ lock["registry_lock"] = "free"
                 /\ lock' = [lock EXCEPT !["registry_lock"] = self]
                 /\ acc' = Ev(self, "lock", "registry_lock", "-", "-", "-")
                 /\ pc' = [pc EXCEPT ![self] = "w_loop"]
                 /\ UNCHANGED << mem, sb, registry, cursnap, qsr, wnlive, regd, 
                                 sleeping, woken, wkind, faults, sigs, myctr, 
                                 insig, hcs, alive, cs, pre, T, htmp, hg, hf, 
                                 hheld, entry, i, op, res, tmp, g, f, held, 
                                 old, oldh, popped, it, nx, st, wi, wl, ph, 
                                 scan, v, ipi, ret, mret >>

wr_unl(self) == /\ pc[self] = "wr_unl"
                /\ Drained(self)
                /\ lock' = [lock EXCEPT !["registry_lock"] = "free"]
                /\ acc' = Ev(self, "unlock", "registry_lock", "-", "-", "-")
                /\ pc' = [pc EXCEPT ![self] = "wr_lock"]
                /\ UNCHANGED << mem, sb, registry, cursnap, qsr, wnlive, regd, 
                                sleeping, woken, wkind, faults, sigs, myctr, 
                                insig, hcs, alive, cs, pre, T, htmp, hg, hf, 
                                hheld, entry, i, op, res, tmp, g, f, held, old, 
                                oldh, popped, it, nx, st, wi, wl, ph, scan, v, 
                                ipi, ret, mret >>

wr_lock(self) == /\ pc[self] = "wr_lock"
                 /\ Drained(self) /\ lock["registry_lock"] = "free"
                 /\ lock' = [lock EXCEPT !["registry_lock"] = self]
                 /\ acc' = Ev(self, "lock", "registry_lock", "-", "-", "-")
                 /\ pc' = [pc EXCEPT ![self] = "w_loop"]
                 /\ UNCHANGED << mem, sb, registry, cursnap, qsr, wnlive, regd, 
                                 sleeping, woken, wkind, faults, sigs, myctr, 
                                 insig, hcs, alive, cs, pre, T, htmp, hg, hf, 
                                 hheld, entry, i, op, res, tmp, g, f, held, 
                                 old, oldh, popped, it, nx, st, wi, wl, ph, 
                                 scan, v, ipi, ret, mret >>

master(self) == /\ pc[self] = "master"
                /\ IF Flavor = "memb" /\ SysMb
                      THEN /\ ipi' = [ipi EXCEPT ![self] = Threads]
                           /\ pc' = [pc EXCEPT ![self] = "m_ipi"]
                      ELSE /\ pc' = [pc EXCEPT ![self] = "m_mb"]
                           /\ ipi' = ipi
                /\ UNCHANGED << mem, sb, lock, acc, registry, cursnap, qsr, 
                                wnlive, regd, sleeping, woken, wkind, faults, 
                                sigs, myctr, insig, hcs, alive, cs, pre, T, 
                                htmp, hg, hf, hheld, entry, i, op, res, tmp, g, 
                                f, held, old, oldh, popped, it, nx, st, wi, wl, 
                                ph, scan, v, ret, mret >>

m_mb(self) == /\ pc[self] = "m_mb"
              /\ Drained(self)
              /\ acc' = Ev(self, "mb", "-", "-", "-", "-")
              /\ pc' = [pc EXCEPT ![self] = "m_ret"]
              /\ UNCHANGED << mem, sb, lock, registry, cursnap, qsr, wnlive, 
                              regd, sleeping, woken, wkind, faults, sigs, 
                              myctr, insig, hcs, alive, cs, pre, T, htmp, hg, 
                              hf, hheld, entry, i, op, res, tmp, g, f, held, 
                              old, oldh, popped, it, nx, st, wi, wl, ph, scan, 
                              v, ipi, ret, mret >>

m_ipi(self) == /\ pc[self] = "m_ipi"
               /\ IF ipi[self] # {}
                     THEN /\ \E t \in ipi[self]:
                               /\ Drained(t)
                               /\ ipi' = [ipi EXCEPT ![self] = ipi[self] \ {t}]
                          /\ pc' = [pc EXCEPT ![self] = "m_ipi"]
                     ELSE /\ pc' = [pc EXCEPT ![self] = "m_sys"]
                          /\ ipi' = ipi
               /\ UNCHANGED << mem, sb, lock, acc, registry, cursnap, qsr, 
                               wnlive, regd, sleeping, woken, wkind, faults, 
                               sigs, myctr, insig, hcs, alive, cs, pre, T, 
                               htmp, hg, hf, hheld, entry, i, op, res, tmp, g, 
                               f, held, old, oldh, popped, it, nx, st, wi, wl, 
                               ph, scan, v, ret, mret >>

m_sys(self) == /\ pc[self] = "m_sys"
               /\ acc' = Ev(self, "sysmb", "-", "-", "-", "-")
               /\ pc' = [pc EXCEPT ![self] = "m_ret"]
               /\ UNCHANGED << mem, sb, lock, registry, cursnap, qsr, wnlive, 
                               regd, sleeping, woken, wkind, faults, sigs, 
                               myctr, insig, hcs, alive, cs, pre, T, htmp, hg, 
                               hf, hheld, entry, i, op, res, tmp, g, f, held, 
                               old, oldh, popped, it, nx, st, wi, wl, ph, scan, 
                               v, ipi, ret, mret >>

m_ret(self) == /\ pc[self] = "m_ret"
               /\ IF mret[self] = "s_p1"
                     THEN /\ pc' = [pc EXCEPT ![self] = "s_p1"]
                     ELSE /\ IF mret[self] = "w_scan0"
                                THEN /\ pc' = [pc EXCEPT ![self] = "w_scan0"]
                                ELSE /\ IF mret[self] = "w_st0"
                                           THEN /\ pc' = [pc EXCEPT ![self] = "w_st0"]
                                           ELSE /\ IF mret[self] = "wg_unl"
                                                      THEN /\ pc' = [pc EXCEPT ![self] = "wg_unl"]
                                                      ELSE /\ pc' = [pc EXCEPT ![self] = "s_out"]
               /\ UNCHANGED << mem, sb, lock, acc, registry, cursnap, qsr, 
                               wnlive, regd, sleeping, woken, wkind, faults, 
                               sigs, myctr, insig, hcs, alive, cs, pre, T, 
                               htmp, hg, hf, hheld, entry, i, op, res, tmp, g, 
                               f, held, old, oldh, popped, it, nx, st, wi, wl, 
                               ph, scan, v, ipi, ret, mret >>

t_ret(self) == /\ pc[self] = "t_ret"
               /\ i' = [i EXCEPT ![self] = i[self] + 1]
               /\ pc' = [pc EXCEPT ![self] = "t_top"]
               /\ UNCHANGED << mem, sb, lock, acc, registry, cursnap, qsr, 
                               wnlive, regd, sleeping, woken, wkind, faults, 
                               sigs, myctr, insig, hcs, alive, cs, pre, T, 
                               htmp, hg, hf, hheld, entry, op, res, tmp, g, f, 
                               held, old, oldh, popped, it, nx, st, wi, wl, ph, 
                               scan, v, ipi, ret, mret >>

t_end(self) == /\ pc[self] = "t_end"
               /\ TRUE
               /\ pc' = [pc EXCEPT ![self] = "Done"]
               /\ UNCHANGED << mem, sb, lock, acc, registry, cursnap, qsr, 
                               wnlive, regd, sleeping, woken, wkind, faults, 
                               sigs, myctr, insig, hcs, alive, cs, pre, T, 
                               htmp, hg, hf, hheld, entry, i, op, res, tmp, g, 
                               f, held, old, oldh, popped, it, nx, st, wi, wl, 
                               ph, scan, v, ipi, ret, mret >>

thr(self) == t_top(self) \/ t_disp(self) \/ g_lock(self) \/ g_add(self)
                \/ g_unl(self) \/ x_lock(self) \/ x_del(self)
                \/ x_unl(self) \/ rl_top(self) \/ rl_ld(self)
                \/ rl_st(self) \/ rl_mb(self) \/ rl_in(self)
                \/ rl_nest(self) \/ ru_top(self) \/ ru_out(self)
                \/ ru_mb1(self) \/ ru_st(self) \/ ru_mb2(self)
                \/ ru_ldf(self) \/ ru_stf(self) \/ ru_wake(self)
                \/ ru_cmb(self) \/ ru_nest(self) \/ dr_ld(self)
                \/ p_xchg(self) \/ s_call(self) \/ s_mb0(self)
                \/ s_push(self) \/ s_link(self) \/ s_run(self)
                \/ s_gplk(self) \/ s_pop(self) \/ s_popmb(self)
                \/ s_rglk(self) \/ s_mm1(self) \/ s_p1(self) \/ s_mb2(self)
                \/ s_flip(self) \/ s_mb3(self) \/ s_p2(self)
                \/ s_splice(self) \/ s_mm2(self) \/ s_out(self)
                \/ s_gpun(self) \/ k_top(self) \/ k_next(self)
                \/ k_ldst(self) \/ k_as(self) \/ k_wk(self) \/ k_ld2(self)
                \/ k_fw(self) \/ kc_mb(self) \/ kn_mb(self)
                \/ kn_lock(self) \/ kn_bc(self) \/ kn_unl(self)
                \/ k_or(self) \/ a_ld1(self) \/ a_ld2(self) \/ a_fw(self)
                \/ a_wk(self) \/ ac_mb(self) \/ ac_ld(self) \/ an_mb(self)
                \/ an_lock(self) \/ an_ld(self) \/ an_cw(self)
                \/ an_cwk(self) \/ an_relk(self) \/ an_unl(self)
                \/ a_or(self) \/ a_ld3(self) \/ a_ld4(self) \/ a_ld5(self)
                \/ s_ret(self) \/ w_top(self) \/ w_loop(self)
                \/ w_dec(self) \/ w_mm(self) \/ w_scan0(self)
                \/ w_scan(self) \/ w_ldr(self) \/ w_chk(self)
                \/ w_mm2(self) \/ w_st0(self) \/ w_done(self)
                \/ w_wait(self) \/ wg_mm(self) \/ wg_unl(self)
                \/ wg_ld(self) \/ wg_fw(self) \/ wg_wk(self)
                \/ wgc_mb(self) \/ wgc_ld(self) \/ wg_lock(self)
                \/ wr_unl(self) \/ wr_lock(self) \/ master(self)
                \/ m_mb(self) \/ m_ipi(self) \/ m_sys(self) \/ m_ret(self)
                \/ t_ret(self) \/ t_end(self)

Next == (\E self \in Flushers: flusher(self))
           \/ (\E self \in FaultIds: faulter(self))
           \/ (\E self \in SigIds: sig(self))
           \/ (\E self \in Threads: thr(self))

Spec == /\ Init /\ [][Next]_vars
        /\ \A self \in Flushers : WF_vars(flusher(self))
        /\ \A self \in Threads : WF_vars(thr(self))

\* END TRANSLATION

AllDone == \A t \in Threads : pc[t] = "Done"
\* with signals: a thread does not take steps while its handler runs; handlers and flushers are always allowed
SigNext == \/ \E self \in Flushers : flusher(self)
           \/ \E self \in FaultIds : faulter(self)
           \/ \E self \in SigIds : sig(self)
           \/ \E self \in Threads : ~insig[self] /\ thr(self)
SigSpec == Init /\ [][SigNext]_vars
SigDeadlockFree == AllDone \/ ENABLED SigNext
DeadlockFree == AllDone \/ ENABLED Next
SBBound == \A t \in Threads : Len(sb[t]) <= SBMax
LockOrder == ~(\E t \in Threads : lock["registry_lock"] = t /\ pc[t] = "s_gplk")
FutexRange == mem["gp_futex"] \in {0, -1}

\* ---- C02: liveness.  Weak fairness of every thread and of every store-buffer flush agent; no fairness for signal handlers
\* (none in the liveness configurations) and none needed for faults (bounded by FaultBudget).
FairSpec == /\ Init /\ [][Next]_vars
            /\ \A self \in Flushers : WF_vars(flusher(self))
            /\ \A self \in Threads : WF_vars(thr(self))
Termination == <>AllDone                     \* every thread finishes its (finite) program: every synchronize_rcu() call returned
SyncReturns == \A t \in Threads : (pc[t] = "s_call") ~> (pc[t] = "t_ret")     \* per-call form
\* no thread sleeps (futex or condition variable) for ever once everybody else is done or asleep: implied by DeadlockFree

\* ---- C15: the three reader lists partition exactly the set of registered threads; outside a grace period all of them are
\* back in the registry.  (No load of a departed reader's word: assertion in w_ldr.  Sections only of registered threads:
\* assertion in rl_top, so GPGuarantee in s_ret ranges over sections of registered threads.)
\* registry lock is never held across a sleep (futex or condition variable); a buffered store to a wait node never outlives the node
NoSleepWithRegistryLock == \A t \in Threads : sleeping[t] # "none" => lock["registry_lock"] # t /\ (sleeping[t] # "gp_futex" => lock["gp_lock"] # t)
WaitNodeQuiet == \A t \in Threads : \A j \in DOMAIN sb[t] : \A u \in Threads : sb[t][j][1] \in {WnNext(Wn(u)), WnState(Wn(u))} => Wn(u) \in wnlive
RegistryExact == /\ registry \cup cursnap \cup qsr = regd
                 /\ registry \cap cursnap = {} /\ registry \cap qsr = {} /\ cursnap \cap qsr = {}
ListsHome == lock["gp_lock"] = "free" => cursnap = {} /\ qsr = {}
RegLockDiscipline == \A t \in Threads : pc[t] \in {"g_add", "g_unl", "x_del", "x_unl", "w_scan", "w_ldr", "w_chk", "s_splice"} => lock["registry_lock"] = t
\* the registry as the driver's "proj" events see it: list surgery of a thread that holds the registry lock has already been
\* executed by the code (it is plain code between two scheduling points) but is a separate, silent step of the specification
ProjMembers == ((registry \cup cursnap \cup qsr) \cup {t \in Threads : pc[t] = "g_add"}) \ {t \in Threads : pc[t] = "x_del"}
=============================================================================
