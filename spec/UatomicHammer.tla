--------------------------- MODULE UatomicHammer ---------------------------
(* C20, schedule dimension on real hardware: TLC evaluates the explainability predicates of UatomicExplain on every
   experiment record logged by the 8-thread hammer and the store-buffering litmus of harness/d_uatomic.c (file named
   by the environment variable TRACE).  One state per record; ExperimentOK is the invariant. *)
EXTENDS UatomicExplain, Json, IOUtils, TLC, TLCExt

HLog   == ndJsonDeserialize(IOEnv.TRACE)
NRec   == Len(HLog)
NChunks == 8
ChunkLo(c) == ((c - 1) * NRec) \div NChunks + 1
ChunkHi(c) == (c * NRec) \div NChunks

VARIABLES chunk, pos
vars == <<chunk, pos>>
Init == chunk = 0 /\ pos = 0
Next == \/ /\ chunk = 0 /\ chunk' \in 1..NChunks /\ pos' = ChunkLo(chunk') /\ pos' <= ChunkHi(chunk')
        \/ /\ chunk > 0 /\ pos < ChunkHi(chunk) /\ pos' = pos + 1 /\ chunk' = chunk
Spec == Init /\ [][Next]_vars

Explainable == pos > 0 => ExperimentOK(HLog[pos])
Post == PrintT(<<"VALIDATED", NRec, TLCGet("distinct")>>)
=============================================================================
