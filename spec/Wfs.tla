-------------------------------- MODULE Wfs --------------------------------
(***************************************************************************)
(* cds_wfs (include/urcu/static/wfstack.h) at the granularity of one       *)
(* action per shared-memory access, under SC or x86-TSO store buffers.     *)
(*                                                                         *)
(* One stack "s1" (head word "s1.head", pop mutex "s1.lock").  The empty   *)
(* stack / end of list is the sentinel CDS_WFS_END ("END"); a node whose   *)
(* push is in flight (head exchanged, next not yet stored) has next = NULL *)
(* and every traversal waits on it (___cds_wfs_node_sync_next).            *)
(* Threads execute the operation sequences of a scenario (Prog):           *)
(*   [op |-> "push",   n]              cds_wfs_push                        *)
(*   [op |-> "pop",    blk, lck, ws]   lck: cds_wfs_pop_with_state_blocking*)
(*                                     (blk) or pop_lock + __cds_wfs_pop_  *)
(*                                     with_state_nonblocking + pop_unlock;*)
(*                                     else __cds_wfs_pop_*; ws = FALSE:   *)
(*                                     the variant without state (no LAST) *)
(*   [op |-> "popall", blk, lck]       (__)cds_wfs_pop_all(_blocking) then *)
(*                                     cds_wfs_first / cds_wfs_next_       *)
(*                                     blocking (blk) or _nonblocking      *)
(*                                     retried on WOULDBLOCK over the      *)
(*                                     popped list; result = that list     *)
(*   [op |-> "empty"]                  cds_wfs_empty                       *)
(* Property monitors (C11): LinMon over an abstract LIFO sequence (top     *)
(* first), node conservation and concrete shape = abstract stack at        *)
(* quiescence, no node returned twice.                                     *)
(*                                                                         *)
(* acc is the "last access" ghost used by trace validation and by          *)
(* schedule generation; it only changes when Tracing = TRUE.               *)
(***************************************************************************)
EXTENDS Naturals, Sequences, FiniteSets, TLC

CONSTANTS Threads,    \* set of thread ids (strings)
          Prog,       \* [Threads -> Seq(op record)]
          TSO,        \* TRUE: stores are buffered (x86-TSO); FALSE: sequential consistency
          Tracing,    \* TRUE: maintain acc
          SBMax       \* bound on store-buffer length used by the state constraint

NULL == "NULL"
END == "END"                           \* CDS_WFS_END ((struct cds_wfs_head *) 0x1UL); &END->node == END
WB == "WOULDBLOCK"
HeadLoc == "s1.head"
LockName == "s1.lock"
NextOf(n) == n \o ".next"
OpsOf(t) == {Prog[t][i] : i \in DOMAIN Prog[t]}
AllOps == UNION {OpsOf(t) : t \in Threads}
Nodes == {o.n : o \in {x \in AllOps : x.op = "push"}}
Locs == {HeadLoc} \cup {NextOf(n) : n \in Nodes}
FlId(t) == "F:" \o t
Flushers == {FlId(t) : t \in Threads}
FlOf == [f \in Flushers |-> CHOOSE t \in Threads : FlId(t) = f]

\* ---- abstract object: one LIFO sequence, top first ----
RECURSIVE Join(_)
Join(s) == IF s = <<>> THEN "" ELSE IF Len(s) = 1 THEN s[1] ELSE s[1] \o "," \o Join(Tail(s))
Elems(s) == {s[j] : j \in DOMAIN s}
SApply(abs, o, stage, t) ==
  CASE o.op = "push"   -> [abs |-> <<o.n>> \o abs, res |-> IF abs = <<>> THEN "wasEmpty" ELSE "nonEmpty"]
    [] o.op = "pop"    -> IF abs = <<>> THEN [abs |-> abs, res |-> NULL]
                          ELSE [abs |-> Tail(abs), res |-> IF o.ws /\ Len(abs) = 1 THEN Head(abs) \o "/LAST" ELSE Head(abs)]
    [] o.op = "popall" -> [abs |-> <<>>, res |-> Join(abs)]
    [] o.op = "empty"  -> [abs |-> abs, res |-> IF abs = <<>> THEN "TRUE" ELSE "FALSE"]
LM == INSTANCE LinMon WITH Apply <- SApply, Thr <- Threads

(* --algorithm wfs {
variables
  mem = [l \in Locs |-> IF l = HeadLoc THEN END ELSE NULL],
  sb = [t \in Threads |-> <<>>],
  lock = "free",
  acc = [k |-> 0],
  pend = [t \in Threads |-> LM!NoOp],
  cfgs = LM!InitCfgs(<<>>),
  popd = {};                                \* ghost: nodes returned by pop / pop_all (conservation, double pop)

define {
  LastIdx(t, loc) == LET S == {i \in DOMAIN sb[t] : sb[t][i][1] = loc} IN
                     IF S = {} THEN 0 ELSE CHOOSE i \in S : \A j \in S : j <= i
  Rd(t, loc) == IF LastIdx(t, loc) = 0 THEN mem[loc] ELSE sb[t][LastIdx(t, loc)][2]
  Drained(t) == sb[t] = <<>>
  Ev(t, op, var, a, b, r) == IF Tracing THEN [k |-> acc.k + 1, t |-> t, op |-> op, var |-> var, a |-> a, b |-> b, r |-> r] ELSE acc
  Linearizable == cfgs # {}
}

macro Ld(dst, loc)        { dst := Rd(self, loc); acc := Ev(self, "ld", loc, "-", "-", Rd(self, loc)); }
macro St(loc, v)          { if (TSO) { sb[self] := Append(sb[self], <<loc, v>>) } else { mem[loc] := v };
                            acc := Ev(self, "st", loc, v, "-", "-"); }
macro Xchg(dst, loc, v)   { await Drained(self); dst := mem[loc]; mem[loc] := v; acc := Ev(self, "xchg", loc, v, "-", dst); }
macro Cas(dst, loc, o, n) { await Drained(self); dst := mem[loc]; if (mem[loc] = o) { mem[loc] := n };
                            acc := Ev(self, "cas", loc, o, n, dst); }
macro Mb()                { await Drained(self); acc := Ev(self, "mb", "-", "-", "-", "-"); }
macro Lock()              { await Drained(self) /\ lock = "free"; lock := self; acc := Ev(self, "lock", LockName, "-", "-", "-"); }
macro Unlock()            { await Drained(self); lock := "free"; acc := Ev(self, "unlock", LockName, "-", "-", "-"); }

fair process (flusher \in Flushers) {
fl: while (TRUE) {
      await sb[FlOf[self]] # <<>>;
      mem[Head(sb[FlOf[self]])[1]] := Head(sb[FlOf[self]])[2] || sb[FlOf[self]] := Tail(sb[FlOf[self]])
      || acc := IF Tracing THEN [k |-> acc.k + 1, t |-> FlOf[self], op |-> "flush", var |-> Head(sb[FlOf[self]])[1],
                               a |-> Head(sb[FlOf[self]])[2], b |-> "-", r |-> "-"] ELSE acc;
    }
}

fair process (thr \in Threads)
variables i = 1, op = LM!NoOp, a = NULL, hd = NULL, node = NULL, next = NULL, res = NULL, old = NULL, seen = <<>>;
{
t_top:  while (i <= Len(Prog[self])) {
          op := Prog[self][i]; pend[self] := Prog[self][i];
          res := NULL; seen := <<>>;
t_disp:   if (op.op = "push") { goto w_mb }
          else if (op.op = "pop") { goto o_lock }
          else if (op.op = "popall") { goto a_lock }
          else { goto m_ld };

        \* ---------------- _cds_wfs_push
w_mb:     Mb();                                                  \* cmm_emit_legacy_smp_mb()
w_xchg:   Xchg(old, HeadLoc, op.n);                              \* old_head = uatomic_xchg(&s->head, new_head)
w_st:     St(NextOf(op.n), old);                                 \* uatomic_store(&node->next, &old_head->node, RELEASE)
          res := IF old = END THEN "wasEmpty" ELSE "nonEmpty";   \* return !___cds_wfs_end(old_head)
          goto t_ret;

        \* ---------------- (_)__cds_wfs_pop_with_state_{blocking,nonblocking} -> ___cds_wfs_pop
o_lock:   if (op.lck) { Lock() };                                \* _cds_wfs_pop_lock
o_ldh:    Ld(hd, HeadLoc);                                       \* head = uatomic_load(&s->head, CONSUME)
          if (hd = END) { res := NULL; goto o_unlock };          \* ___cds_wfs_end(head): return NULL
o_sync:   Ld(next, NextOf(hd));                                  \* ___cds_wfs_node_sync_next(&head->node): load node->next
          if (next = NULL) { if (op.blk) { goto o_sync } else { res := WB; goto o_unlock } };
o_cas:    Cas(a, HeadLoc, hd, next);                             \* uatomic_cmpxchg(&s->head, head, new_head) == head ?
          if (a = hd) { res := IF op.ws /\ next = END THEN hd \o "/LAST" ELSE hd }
          else if (op.blk) { goto o_ldh }                        \* busy-loop if head changed under us
          else { res := WB; goto o_unlock };
o_mb:     Mb();                                                  \* cmm_emit_legacy_smp_mb()
o_unlock: if (op.lck) { Unlock() };                              \* _cds_wfs_pop_unlock
          goto t_ret;

        \* ---------------- (_)__cds_wfs_pop_all(_blocking), then iteration over the popped list
a_lock:   if (op.lck) { Lock() };
a_xchg:   Xchg(hd, HeadLoc, END);                                \* head = uatomic_xchg(&s->head, CDS_WFS_END)
a_mb:     Mb();                                                  \* cmm_emit_legacy_smp_mb()
a_unlock: if (op.lck) { Unlock() };
          if (hd = END) { res := ""; goto t_ret }                \* return NULL
          else { node := hd; seen := <<hd>> };                   \* _cds_wfs_first(head)
i_next:   Ld(next, NextOf(node));                                \* ___cds_wfs_next -> ___cds_wfs_node_sync_next(node)
          if (next = NULL) { goto i_next }                       \* push in flight: wait (blocking) / WOULDBLOCK and retry
          else if (next = END) { res := Join(seen); goto t_ret }
          else { node := next; seen := Append(seen, next); goto i_next };

        \* ---------------- _cds_wfs_empty
m_ld:     Ld(a, HeadLoc);                                        \* ___cds_wfs_end(uatomic_load(&s->head))
          res := IF a = END THEN "TRUE" ELSE "FALSE";

t_ret:    cfgs := IF res = WB THEN LM!AfterAbort(cfgs, pend, self) ELSE LM!AfterReturn(cfgs, pend, self, res)
          || pend[self] := LM!NoOp;
          if (op.op = "pop" /\ res \notin {NULL, WB}) { assert hd \notin popd; popd := popd \cup {hd} }
          else if (op.op = "popall") { assert Elems(seen) \cap popd = {} /\ Cardinality(Elems(seen)) = Len(seen);
                                       popd := popd \cup Elems(seen) };
          i := i + 1;
        }
}
} *)
\* BEGIN TRANSLATION
VARIABLES pc, mem, sb, lock, acc, pend, cfgs, popd

(* define statement *)
LastIdx(t, loc) == LET S == {i \in DOMAIN sb[t] : sb[t][i][1] = loc} IN
                   IF S = {} THEN 0 ELSE CHOOSE i \in S : \A j \in S : j <= i
Rd(t, loc) == IF LastIdx(t, loc) = 0 THEN mem[loc] ELSE sb[t][LastIdx(t, loc)][2]
Drained(t) == sb[t] = <<>>
Ev(t, op, var, a, b, r) == IF Tracing THEN [k |-> acc.k + 1, t |-> t, op |-> op, var |-> var, a |-> a, b |-> b, r |-> r] ELSE acc
Linearizable == cfgs # {}

VARIABLES i, op, a, hd, node, next, res, old, seen

vars == << pc, mem, sb, lock, acc, pend, cfgs, popd, i, op, a, hd, node, next, 
           res, old, seen >>

ProcSet == (Flushers) \cup (Threads)

Init == (* Global variables *)
        /\ mem = [l \in Locs |-> IF l = HeadLoc THEN END ELSE NULL]
        /\ sb = [t \in Threads |-> <<>>]
        /\ lock = "free"
        /\ acc = [k |-> 0]
        /\ pend = [t \in Threads |-> LM!NoOp]
        /\ cfgs = LM!InitCfgs(<<>>)
        /\ popd = {}
        (* Process thr *)
        /\ i = [self \in Threads |-> 1]
        /\ op = [self \in Threads |-> LM!NoOp]
        /\ a = [self \in Threads |-> NULL]
        /\ hd = [self \in Threads |-> NULL]
        /\ node = [self \in Threads |-> NULL]
        /\ next = [self \in Threads |-> NULL]
        /\ res = [self \in Threads |-> NULL]
        /\ old = [self \in Threads |-> NULL]
        /\ seen = [self \in Threads |-> <<>>]
        /\ pc = [self \in ProcSet |-> CASE self \in Flushers -> "fl"
                                        [] self \in Threads -> "t_top"]

fl(self) == /\ pc[self] = "fl"
            /\ sb[FlOf[self]] # <<>>
            /\ /\ acc' = IF Tracing THEN [k |-> acc.k + 1, t |-> FlOf[self], op |-> "flush", var |-> Head(sb[FlOf[self]])[1],
                                        a |-> Head(sb[FlOf[self]])[2], b |-> "-", r |-> "-"] ELSE acc
               /\ mem' = [mem EXCEPT ![Head(sb[FlOf[self]])[1]] = Head(sb[FlOf[self]])[2]]
               /\ sb' = [sb EXCEPT ![FlOf[self]] = Tail(sb[FlOf[self]])]
            /\ pc' = [pc EXCEPT ![self] = "fl"]
            /\ UNCHANGED << lock, pend, cfgs, popd, i, op, a, hd, node, next, 
                            res, old, seen >>

flusher(self) == fl(self)

t_top(self) == /\ pc[self] = "t_top"
               /\ IF i[self] <= Len(Prog[self])
                     THEN /\ op' = [op EXCEPT ![self] = Prog[self][i[self]]]
                          /\ pend' = [pend EXCEPT ![self] = Prog[self][i[self]]]
                          /\ res' = [res EXCEPT ![self] = NULL]
                          /\ seen' = [seen EXCEPT ![self] = <<>>]
                          /\ pc' = [pc EXCEPT ![self] = "t_disp"]
                     ELSE /\ pc' = [pc EXCEPT ![self] = "Done"]
                          /\ UNCHANGED << pend, op, res, seen >>
               /\ UNCHANGED << mem, sb, lock, acc, cfgs, popd, i, a, hd, node, 
                               next, old >>

t_disp(self) == /\ pc[self] = "t_disp"
                /\ IF op[self].op = "push"
                      THEN /\ pc' = [pc EXCEPT ![self] = "w_mb"]
                      ELSE /\ IF op[self].op = "pop"
                                 THEN /\ pc' = [pc EXCEPT ![self] = "o_lock"]
                                 ELSE /\ IF op[self].op = "popall"
                                            THEN /\ pc' = [pc EXCEPT ![self] = "a_lock"]
                                            ELSE /\ pc' = [pc EXCEPT ![self] = "m_ld"]
                /\ UNCHANGED << mem, sb, lock, acc, pend, cfgs, popd, i, op, a, 
                                hd, node, next, res, old, seen >>

w_mb(self) == /\ pc[self] = "w_mb"
              /\ Drained(self)
              /\ acc' = Ev(self, "mb", "-", "-", "-", "-")
              /\ pc' = [pc EXCEPT ![self] = "w_xchg"]
              /\ UNCHANGED << mem, sb, lock, pend, cfgs, popd, i, op, a, hd, 
                              node, next, res, old, seen >>

w_xchg(self) == /\ pc[self] = "w_xchg"
                /\ Drained(self)
                /\ old' = [old EXCEPT ![self] = mem[HeadLoc]]
                /\ mem' = [mem EXCEPT ![HeadLoc] = op[self].n]
                /\ acc' = Ev(self, "xchg", HeadLoc, (op[self].n), "-", old'[self])
                /\ pc' = [pc EXCEPT ![self] = "w_st"]
                /\ UNCHANGED << sb, lock, pend, cfgs, popd, i, op, a, hd, node, 
                                next, res, seen >>

w_st(self) == /\ pc[self] = "w_st"
              /\ IF TSO
                    THEN /\ sb' = [sb EXCEPT ![self] = Append(sb[self], <<(NextOf(op[self].n)), old[self]>>)]
                         /\ mem' = mem
                    ELSE /\ mem' = [mem EXCEPT ![(NextOf(op[self].n))] = old[self]]
                         /\ sb' = sb
              /\ acc' = Ev(self, "st", (NextOf(op[self].n)), old[self], "-", "-")
              /\ res' = [res EXCEPT ![self] = IF old[self] = END THEN "wasEmpty" ELSE "nonEmpty"]
              /\ pc' = [pc EXCEPT ![self] = "t_ret"]
              /\ UNCHANGED << lock, pend, cfgs, popd, i, op, a, hd, node, next, 
                              old, seen >>

o_lock(self) == /\ pc[self] = "o_lock"
                /\ IF op[self].lck
                      THEN /\ Drained(self) /\ lock = "free"
                           /\ lock' = self
                           /\ acc' = Ev(self, "lock", LockName, "-", "-", "-")
                      ELSE /\ TRUE
                           /\ UNCHANGED << lock, acc >>
                /\ pc' = [pc EXCEPT ![self] = "o_ldh"]
                /\ UNCHANGED << mem, sb, pend, cfgs, popd, i, op, a, hd, node, 
                                next, res, old, seen >>

o_ldh(self) == /\ pc[self] = "o_ldh"
               /\ hd' = [hd EXCEPT ![self] = Rd(self, HeadLoc)]
               /\ acc' = Ev(self, "ld", HeadLoc, "-", "-", Rd(self, HeadLoc))
               /\ IF hd'[self] = END
                     THEN /\ res' = [res EXCEPT ![self] = NULL]
                          /\ pc' = [pc EXCEPT ![self] = "o_unlock"]
                     ELSE /\ pc' = [pc EXCEPT ![self] = "o_sync"]
                          /\ res' = res
               /\ UNCHANGED << mem, sb, lock, pend, cfgs, popd, i, op, a, node, 
                               next, old, seen >>

o_sync(self) == /\ pc[self] = "o_sync"
                /\ next' = [next EXCEPT ![self] = Rd(self, (NextOf(hd[self])))]
                /\ acc' = Ev(self, "ld", (NextOf(hd[self])), "-", "-", Rd(self, (NextOf(hd[self]))))
                /\ IF next'[self] = NULL
                      THEN /\ IF op[self].blk
                                 THEN /\ pc' = [pc EXCEPT ![self] = "o_sync"]
                                      /\ res' = res
                                 ELSE /\ res' = [res EXCEPT ![self] = WB]
                                      /\ pc' = [pc EXCEPT ![self] = "o_unlock"]
                      ELSE /\ pc' = [pc EXCEPT ![self] = "o_cas"]
                           /\ res' = res
                /\ UNCHANGED << mem, sb, lock, pend, cfgs, popd, i, op, a, hd, 
                                node, old, seen >>

o_cas(self) == /\ pc[self] = "o_cas"
               /\ Drained(self)
               /\ a' = [a EXCEPT ![self] = mem[HeadLoc]]
               /\ IF mem[HeadLoc] = hd[self]
                     THEN /\ mem' = [mem EXCEPT ![HeadLoc] = next[self]]
                     ELSE /\ TRUE
                          /\ mem' = mem
               /\ acc' = Ev(self, "cas", HeadLoc, hd[self], next[self], a'[self])
               /\ IF a'[self] = hd[self]
                     THEN /\ res' = [res EXCEPT ![self] = IF op[self].ws /\ next[self] = END THEN hd[self] \o "/LAST" ELSE hd[self]]
                          /\ pc' = [pc EXCEPT ![self] = "o_mb"]
                     ELSE /\ IF op[self].blk
                                THEN /\ pc' = [pc EXCEPT ![self] = "o_ldh"]
                                     /\ res' = res
                                ELSE /\ res' = [res EXCEPT ![self] = WB]
                                     /\ pc' = [pc EXCEPT ![self] = "o_unlock"]
               /\ UNCHANGED << sb, lock, pend, cfgs, popd, i, op, hd, node, 
                               next, old, seen >>

o_mb(self) == /\ pc[self] = "o_mb"
              /\ Drained(self)
              /\ acc' = Ev(self, "mb", "-", "-", "-", "-")
              /\ pc' = [pc EXCEPT ![self] = "o_unlock"]
              /\ UNCHANGED << mem, sb, lock, pend, cfgs, popd, i, op, a, hd, 
                              node, next, res, old, seen >>

o_unlock(self) == /\ pc[self] = "o_unlock"
                  /\ IF op[self].lck
                        THEN /\ Drained(self)
                             /\ lock' = "free"
                             /\ acc' = Ev(self, "unlock", LockName, "-", "-", "-")
                        ELSE /\ TRUE
                             /\ UNCHANGED << lock, acc >>
                  /\ pc' = [pc EXCEPT ![self] = "t_ret"]
                  /\ UNCHANGED << mem, sb, pend, cfgs, popd, i, op, a, hd, 
                                  node, next, res, old, seen >>

a_lock(self) == /\ pc[self] = "a_lock"
                /\ IF op[self].lck
                      THEN /\ Drained(self) /\ lock = "free"
                           /\ lock' = self
                           /\ acc' = Ev(self, "lock", LockName, "-", "-", "-")
                      ELSE /\ TRUE
                           /\ UNCHANGED << lock, acc >>
                /\ pc' = [pc EXCEPT ![self] = "a_xchg"]
                /\ UNCHANGED << mem, sb, pend, cfgs, popd, i, op, a, hd, node, 
                                next, res, old, seen >>

a_xchg(self) == /\ pc[self] = "a_xchg"
                /\ Drained(self)
                /\ hd' = [hd EXCEPT ![self] = mem[HeadLoc]]
                /\ mem' = [mem EXCEPT ![HeadLoc] = END]
                /\ acc' = Ev(self, "xchg", HeadLoc, END, "-", hd'[self])
                /\ pc' = [pc EXCEPT ![self] = "a_mb"]
                /\ UNCHANGED << sb, lock, pend, cfgs, popd, i, op, a, node, 
                                next, res, old, seen >>

a_mb(self) == /\ pc[self] = "a_mb"
              /\ Drained(self)
              /\ acc' = Ev(self, "mb", "-", "-", "-", "-")
              /\ pc' = [pc EXCEPT ![self] = "a_unlock"]
              /\ UNCHANGED << mem, sb, lock, pend, cfgs, popd, i, op, a, hd, 
                              node, next, res, old, seen >>

a_unlock(self) == /\ pc[self] = "a_unlock"
                  /\ IF op[self].lck
                        THEN /\ Drained(self)
                             /\ lock' = "free"
                             /\ acc' = Ev(self, "unlock", LockName, "-", "-", "-")
                        ELSE /\ TRUE
                             /\ UNCHANGED << lock, acc >>
                  /\ IF hd[self] = END
                        THEN /\ res' = [res EXCEPT ![self] = ""]
                             /\ pc' = [pc EXCEPT ![self] = "t_ret"]
                             /\ UNCHANGED << node, seen >>
                        ELSE /\ node' = [node EXCEPT ![self] = hd[self]]
                             /\ seen' = [seen EXCEPT ![self] = <<hd[self]>>]
                             /\ pc' = [pc EXCEPT ![self] = "i_next"]
                             /\ res' = res
                  /\ UNCHANGED << mem, sb, pend, cfgs, popd, i, op, a, hd, 
                                  next, old >>

i_next(self) == /\ pc[self] = "i_next"
                /\ next' = [next EXCEPT ![self] = Rd(self, (NextOf(node[self])))]
                /\ acc' = Ev(self, "ld", (NextOf(node[self])), "-", "-", Rd(self, (NextOf(node[self]))))
                /\ IF next'[self] = NULL
                      THEN /\ pc' = [pc EXCEPT ![self] = "i_next"]
                           /\ UNCHANGED << node, res, seen >>
                      ELSE /\ IF next'[self] = END
                                 THEN /\ res' = [res EXCEPT ![self] = Join(seen[self])]
                                      /\ pc' = [pc EXCEPT ![self] = "t_ret"]
                                      /\ UNCHANGED << node, seen >>
                                 ELSE /\ node' = [node EXCEPT ![self] = next'[self]]
                                      /\ seen' = [seen EXCEPT ![self] = Append(seen[self], next'[self])]
                                      /\ pc' = [pc EXCEPT ![self] = "i_next"]
                                      /\ res' = res
                /\ UNCHANGED << mem, sb, lock, pend, cfgs, popd, i, op, a, hd, 
                                old >>

m_ld(self) == /\ pc[self] = "m_ld"
              /\ a' = [a EXCEPT ![self] = Rd(self, HeadLoc)]
              /\ acc' = Ev(self, "ld", HeadLoc, "-", "-", Rd(self, HeadLoc))
              /\ res' = [res EXCEPT ![self] = IF a'[self] = END THEN "TRUE" ELSE "FALSE"]
              /\ pc' = [pc EXCEPT ![self] = "t_ret"]
              /\ UNCHANGED << mem, sb, lock, pend, cfgs, popd, i, op, hd, node, 
                              next, old, seen >>

t_ret(self) == /\ pc[self] = "t_ret"
               /\ /\ cfgs' = (IF res[self] = WB THEN LM!AfterAbort(cfgs, pend, self) ELSE LM!AfterReturn(cfgs, pend, self, res[self]))
                  /\ pend' = [pend EXCEPT ![self] = LM!NoOp]
               /\ IF op[self].op = "pop" /\ res[self] \notin {NULL, WB}
                     THEN /\ Assert(hd[self] \notin popd, 
                                    "Failure of assertion at line 152, column 57.")
                          /\ popd' = (popd \cup {hd[self]})
                     ELSE /\ IF op[self].op = "popall"
                                THEN /\ Assert(Elems(seen[self]) \cap popd = {} /\ Cardinality(Elems(seen[self])) = Len(seen[self]), 
                                               "Failure of assertion at line 153, column 40.")
                                     /\ popd' = (popd \cup Elems(seen[self]))
                                ELSE /\ TRUE
                                     /\ popd' = popd
               /\ i' = [i EXCEPT ![self] = i[self] + 1]
               /\ pc' = [pc EXCEPT ![self] = "t_top"]
               /\ UNCHANGED << mem, sb, lock, acc, op, a, hd, node, next, res, 
                               old, seen >>

thr(self) == t_top(self) \/ t_disp(self) \/ w_mb(self) \/ w_xchg(self)
                \/ w_st(self) \/ o_lock(self) \/ o_ldh(self)
                \/ o_sync(self) \/ o_cas(self) \/ o_mb(self)
                \/ o_unlock(self) \/ a_lock(self) \/ a_xchg(self)
                \/ a_mb(self) \/ a_unlock(self) \/ i_next(self)
                \/ m_ld(self) \/ t_ret(self)

Next == (\E self \in Flushers: flusher(self))
           \/ (\E self \in Threads: thr(self))

Spec == /\ Init /\ [][Next]_vars
        /\ \A self \in Flushers : WF_vars(flusher(self))
        /\ \A self \in Threads : WF_vars(thr(self))

\* END TRANSLATION

AllDone == \A t \in Threads : pc[t] = "Done"
\* every pushed node is either still stacked (in every surviving linearisation) or was returned by exactly one pop / pop_all
Conservation == AllDone => \A c \in cfgs : Elems(c.abs) \cap popd = {} /\ Elems(c.abs) \cup popd = Nodes
\* at quiescence the concrete list reachable from head is the abstract stack of one of the surviving linearisations
\* (several survive when the history does not order two pushes, e.g. both returned "nonEmpty")
RECURSIVE Walk(_, _, _)
Walk(m, n, fuel) == IF n = END THEN <<>> ELSE IF fuel = 0 \/ n = NULL THEN <<"?">> ELSE <<n>> \o Walk(m, m[NextOf(n)], fuel - 1)
Shape == (AllDone /\ \A t \in Threads : sb[t] = <<>>) => \E c \in cfgs : Walk(mem, mem[HeadLoc], Cardinality(Nodes) + 1) = c.abs
\* deadlock freedom with an explicit notion of termination (flushers never terminate)
DeadlockFree == AllDone \/ ENABLED Next
SBBound == \A t \in Threads : Len(sb[t]) <= SBMax
=============================================================================
