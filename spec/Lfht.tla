-------------------------------- MODULE Lfht --------------------------------
(***************************************************************************)
(* cds_lfht (src/rculfhash.c): the split-ordered list of the RCU lock-free *)
(* hash table at the granularity of one action per shared-memory access    *)
(* (every uatomic load / cmpxchg / or / xchg / store, every barrier, mutex *)
(* operation and grace period of the code is one label), under SC or       *)
(* x86-TSO store buffers, with abstract RCU (harness/absrcu.h semantics).  *)
(*                                                                         *)
(* Memory: one word <x>.next per node, value "<ptr>+<flags>" exactly as    *)
(* the VSCHED runtime prints a flagged pointer: flags 1 REMOVED, 2 BUCKET, *)
(* 4 REMOVAL_OWNER describe the node that CONTAINS the word; ptr is the    *)
(* successor (NULL = end).  User nodes are the names of NodeHash, bucket   *)
(* nodes b0 .. b<MaxSize-1>.  ht.size, ht.resize_target,                   *)
(* ht.resize_initiated, ht.in_progress_destroy hold decimal strings.       *)
(* Hashes have HBits bits; the list is ordered by the HBits-bit reversal   *)
(* (order-isomorphic to bit_reverse_ulong for hashes < 2^HBits).           *)
(*                                                                         *)
(* Threads execute the operation sequences of a scenario (Prog).  Every    *)
(* operation has rl / ru: rcu_read_lock() is taken at its call /           *)
(* rcu_read_unlock() executed at its return (a read-side critical section  *)
(* may span several operations: lookup, then del / replace of the node     *)
(* found, as the API requires).                                            *)
(*   [op |-> "add" | "addu" | "addr", n]   cds_lfht_add / add_unique /     *)
(*                                          add_replace of node n          *)
(*   [op |-> "lookup", h, k]    cds_lfht_lookup into the thread's iterator *)
(*   [op |-> "del", n]          cds_lfht_del(n); n = "@": iterator's node  *)
(*   [op |-> "repl", n]         cds_lfht_replace(iterator, n)              *)
(*   [op |-> "dups", h, k]      lookup + next_duplicate until NULL         *)
(*   [op |-> "iter"]            cds_lfht_first + cds_lfht_next until NULL  *)
(*   [op |-> "reclaim"]         synchronize_rcu, then free every node this *)
(*                              thread obtained (del / replace returned 0, *)
(*                              add_replace returned it)                   *)
(*   [op |-> "resize", size]    cds_lfht_resize(ht, size): init_table /    *)
(*                              fini_table with their grace periods        *)
(*   [op |-> "wait", ts]        driver-level barrier                       *)
(*   [op |-> "destroy"]         cds_lfht_destroy (no concurrent operation: *)
(*                              API requirement, hence one atomic step)    *)
(*                                                                         *)
(* Property monitors                                                       *)
(*  C05  Linearizable (LinMon over LfhtLin), ResidentFound (a lookup       *)
(*       returns NULL only if no matching node was present during its      *)
(*       whole execution, a traversal visits every node present during its *)
(*       whole execution and only nodes present at some time during it),   *)
(*       structure: Sorted, BucketsLinked, FlagsOk, InTabIsPhysical,       *)
(*       Conservation; FrozenAfterRemoved (action property).               *)
(*  C06  GuaranteeF (at most one node per key for keys inserted only by    *)
(*       add_unique / add_replace), NoDupExposed (no traversal returns two *)
(*       nodes of such a key, or one node twice), KeyNeverMissed (lookup   *)
(*       of a continuously present key never returns NULL; part of         *)
(*       ResidentFound), winner uniqueness through Linearizable.           *)
(*  C07  SingleOwner, OwnedRemoved, NoUAF (alive ghosts of user nodes --   *)
(*       cleared by the owner's reclaim after its grace period --, of the  *)
(*       bucket table of every order -- cleared by                         *)
(*       cds_lfht_free_bucket_table --, of the table itself; every access  *)
(*       and every dereference of ->reverse_hash / key asserts alive).     *)
(*                                                                         *)
(* acc is the "last access" ghost used by trace validation and schedule    *)
(* generation; it only changes when Tracing = TRUE.                        *)
(***************************************************************************)
EXTENDS Naturals, Sequences, FiniteSets, TLC, LfhtLin     \* LfhtLin declares Threads, NodeHash [user node -> hash], NodeKey [user node -> key]

CONSTANTS Prog,       \* [Threads -> Seq(op record)]
          TSO,        \* TRUE: stores are buffered (x86-TSO); FALSE: sequential consistency
          Tracing,    \* TRUE: maintain acc
          SBMax,      \* bound on store-buffer length used by the state constraint
          HBits,      \* number of hash bits (hashes < 2^HBits)
          InitSize,   \* number of buckets at creation (power of two)
          MaxSize,    \* max_nr_buckets (power of two, <= 2^HBits)
          InitNodes,  \* sequence of user nodes added (cds_lfht_add, in this order) before the threads start
          Mut         \* {} for every claim.  Negative controls (the monitors are not vacuous): a set of seeded design errors,
                      \* "lookup_keeps_removed" lookup does not skip logically removed nodes
                      \* "owner_or"     REMOVAL_OWNER set with or instead of xchg: every remover believes it won
                      \* "uniq_tail"    add_unique / add_replace insert behind the equal-hash run instead of in front of it
                      \* "gc_norestart" garbage collection continues behind an unlink attempt instead of restarting from the bucket
                      \* "size_early"   grow publishes the new size before the new bucket nodes are linked
                      \* "free_early"   shrink frees the last bucket table without waiting for a grace period

\* ---------------------------------------------------------------- names, words, tables
SizeLoc == "ht.size"
TargetLoc == "ht.resize_target"
InitdLoc == "ht.resize_initiated"
IpdLoc == "ht.in_progress_destroy"
MutexName == "ht.resize_mutex"
NextOf(n) == n \o ".next"
B(j) == "b" \o ToString(j)
BIdxs == 0..(MaxSize - 1)
Buckets == {B(j) : j \in BIdxs}
ListNodes == UserNodes \cup Buckets
Ptrs == ListNodes \cup {NULL}
BIdx == [b \in Buckets |-> CHOOSE j \in BIdxs : B(j) = b]
RECURSIVE RevBits(_, _)
RevBits(x, n) == IF n = 0 THEN 0 ELSE (x % 2) * 2^(n - 1) + RevBits(x \div 2, n - 1)
Rev == [h \in 0..(2^HBits - 1) |-> RevBits(h, HBits)]
RH == [x \in ListNodes |-> IF x \in Buckets THEN Rev[BIdx[x]] ELSE Rev[NodeHash[x]]]       \* ->reverse_hash
RECURSIVE Log2(_)
Log2(x) == IF x <= 1 THEN 0 ELSE 1 + Log2(x \div 2)
Orders == 0..Log2(MaxSize)
OrdOfIdx(j) == IF j = 0 THEN 0 ELSE Log2(j) + 1                                              \* bucket table (order) holding bucket j
OrdOf == [b \in Buckets |-> OrdOfIdx(BIdx[b])]
BucketsOfOrder(o) == {b \in Buckets : OrdOf[b] = o}
Sizes == {2^o : o \in Orders}
SzStr == [s \in Sizes |-> ToString(s)]
SzVal == [x \in {ToString(s) : s \in Sizes} |-> CHOOSE s \in Sizes : ToString(s) = x]
MinN(a, b) == IF a < b THEN a ELSE b
MaxN(a, b) == IF a > b THEN a ELSE b
RECURSIVE CeilPow2(_, _)
CeilPow2(x, p) == IF p >= x THEN p ELSE CeilPow2(x, 2 * p)
ClampSize(c) == CeilPow2(MinN(MaxN(c, 1), MaxSize), 1)                                       \* resize_target_update_count
\* pointer words
WTab == [p \in Ptrs |-> [f \in 0..7 |-> p \o "+" \o ToString(f)]]
W(p, f) == WTab[p][f]
AllWords == {W(p, f) : p \in Ptrs, f \in 0..7}
PtrOf == [w \in AllWords |-> CHOOSE p \in Ptrs : \E f \in 0..7 : W(p, f) = w]
FlgOf == [w \in AllWords |-> CHOOSE f \in 0..7 : \E p \in Ptrs : W(p, f) = w]
P(w) == PtrOf[w]                                      \* clear_flag
IsRem(w) == FlgOf[w] % 2 = 1                          \* is_removed
IsBkt(w) == (FlgOf[w] \div 2) % 2 = 1                 \* is_bucket
IsOwn(w) == FlgOf[w] \div 4 = 1                       \* is_removal_owner
SetBit(f, b) == IF (f \div b) % 2 = 1 THEN f ELSE f + b
WOr(w, b) == W(PtrOf[w], SetBit(FlgOf[w], b))
BF(w) == IF IsBkt(w) THEN 2 ELSE 0                    \* the BUCKET flag of the node whose ->next holds w
NULLW == W(NULL, 0)

OpsOf(t) == {Prog[t][j] : j \in DOMAIN Prog[t]}
AllOps == UNION {OpsOf(t) : t \in Threads}
FlId(t) == "F:" \o t
Flushers == {FlId(t) : t \in Threads}
FlOf == [f \in Flushers |-> CHOOSE t \in Threads : FlId(t) = f]
Locs == {NextOf(n) : n \in ListNodes} \cup {SizeLoc, TargetLoc, InitdLoc, IpdLoc}
KeyOfN(n) == NodeKey[n]
\* keys that are only ever inserted with add_unique / add_replace (guarantee F applies to them)
PlainKeys == {NodeKey[o.n] : o \in {x \in AllOps : x.op = "add"}}
        \cup {k \in {NodeKey[n] : n \in UserNodes} : Cardinality({j \in DOMAIN InitNodes : NodeKey[InitNodes[j]] = k}) > 1}
UniqueKeys == {NodeKey[n] : n \in UserNodes} \ PlainKeys
ASSUME MaxSize <= 2^HBits /\ InitSize \in Sizes /\ MaxSize \in Sizes
ASSUME \A n \in UserNodes : NodeHash[n] < 2^HBits
ASSUME \A o \in AllOps : o.op = "addr" => NodeKey[o.n] \in UniqueKeys       \* add_replace on duplicated keys: which duplicate is replaced is not specified

\* ---------------------------------------------------------------- initial list: buckets 0..InitSize-1 and InitNodes, sorted by
\* (reversed hash, bucket first, insertion order) -- what cds_lfht_create_bucket + sequential cds_lfht_add build
InitElems == InitNodes \o [j \in 1..InitSize |-> B(j - 1)]
IdxIn(s, x) == CHOOSE j \in DOMAIN s : s[j] = x
Rank(x) == IF x \in Buckets THEN RH[x] * (Len(InitNodes) + 1) ELSE RH[x] * (Len(InitNodes) + 1) + IdxIn(InitNodes, x)
InitChain == SortSeq(InitElems, LAMBDA a, b : Rank(a) < Rank(b))
InitNext(x) == LET j == IdxIn(InitChain, x) IN IF j = Len(InitChain) THEN NULL ELSE InitChain[j + 1]
InitMem == [l \in Locs |->
              IF l = SizeLoc \/ l = TargetLoc THEN SzStr[InitSize]
              ELSE IF l = InitdLoc \/ l = IpdLoc THEN "0"
              ELSE LET x == CHOOSE n \in ListNodes : NextOf(n) = l IN
                   IF x \in Elems(InitChain) THEN W(InitNext(x), IF x \in Buckets THEN 2 ELSE 0) ELSE NULLW]

\* operation record handed to the linearizability monitor (iterator-relative arguments resolved)
PendOf(o, itn) == CASE o.op \in {"add", "addu", "addr"} -> [op |-> o.op, n |-> o.n]
                    [] o.op = "lookup"  -> [op |-> "lookup", h |-> o.h, k |-> o.k]
                    [] o.op = "del"     -> [op |-> "del", n |-> IF o.n = "@" THEN itn ELSE o.n]
                    [] o.op = "repl"    -> [op |-> "repl", old |-> itn, n |-> o.n]
                    [] o.op = "destroy" -> [op |-> "destroy"]
                    [] OTHER            -> LM!NoOp
\* filter of an in-flight lookup / traversal / unique add: which nodes it is about
NoFlt == [kind |-> "none"]
FltOf(o) == CASE o.op \in {"lookup", "dups"} -> [kind |-> "key", h |-> o.h, k |-> o.k]
              [] o.op \in {"addu", "addr"}   -> [kind |-> "key", h |-> NodeHash[o.n], k |-> NodeKey[o.n]]
              [] o.op = "iter"               -> [kind |-> "all"]
              [] OTHER                       -> NoFlt
Sel(f, n) == f.kind = "all" \/ (f.kind = "key" /\ NodeHash[n] = f.h /\ NodeKey[n] = f.k)

(* --algorithm lfht {
variables
  mem = InitMem,
  sb = [t \in Threads |-> <<>>],
  lock = "free",                                   \* ht.resize_mutex
  acc = [k |-> 0],
  pend = [t \in Threads |-> LM!NoOp],
  cfgs = LM!InitCfgs(Elems(InitNodes)),
  incs = [t \in Threads |-> FALSE],                \* abstract RCU: inside a read-side critical section
  gpw = [t \in Threads |-> {}],                    \* abstract RCU: sections the grace period of t still waits for
  inTab = Elems(InitNodes),                        \* ghost: user nodes logically in the table (linked, REMOVED clear)
  owners = [n \in UserNodes |-> {}],               \* ghost: threads that obtained n from del / replace / add_replace
  alive = [n \in UserNodes |-> TRUE],              \* ghost: node memory not yet reclaimed by its owner
  balive = [o \in Orders |-> 2^o <= InitSize],     \* ghost: bucket table of order o allocated
  htalive = TRUE,                                  \* ghost: struct cds_lfht not yet freed
  uaf = FALSE,                                     \* ghost: some access hit reclaimed memory
  flt = [t \in Threads |-> NoFlt],                 \* ghost: filter of the in-flight lookup / traversal / unique add of t
  resident = [t \in Threads |-> {}],               \* ghost: selected nodes present since the call of t's operation
  cand = [t \in Threads |-> {}],                   \* ghost: selected nodes present at some time since the call
  kres = [t \in Threads |-> FALSE],                \* ghost: some selected node present at all times since the call
  fin = [t \in Threads |-> Len(Prog[t]) = 0];      \* thread has returned from its last operation

define {
  LastIdx(t, loc) == LET S == {j \in DOMAIN sb[t] : sb[t][j][1] = loc} IN
                     IF S = {} THEN 0 ELSE CHOOSE j \in S : \A k \in S : k <= j
  Rd(t, loc) == IF LastIdx(t, loc) = 0 THEN mem[loc] ELSE sb[t][LastIdx(t, loc)][2]
  Drained(t) == sb[t] = <<>>
  Ev(t, op, var, a, b, r) == IF Tracing THEN [k |-> acc.k + 1, t |-> t, op |-> op, var |-> var, a |-> a, b |-> b, r |-> r] ELSE acc
  InCs == {t \in Threads : incs[t]}
  Alive(x) == IF x \in Buckets THEN balive[OrdOf[x]] ELSE alive[x]
  Dead(x) == x # NULL /\ ~Alive(x)
  \* ghost updates at the linearisation points of insertion / removal of user node n
  ResAfterRemove(S) == [t \in Threads |-> resident[t] \ S]
  KresAfter(tab) == [t \in Threads |-> kres[t] /\ \E m \in tab : Sel(flt[t], m)]
  CandAfterInsert(n) == [t \in Threads |-> IF Sel(flt[t], n) THEN cand[t] \cup {n} ELSE cand[t]]
  \* nodes reachable from bucket 0 in committed memory (bounded walk)
  RECURSIVE ReachFrom(_, _)
  ReachFrom(x, fuel) == IF x = NULL \/ fuel = 0 THEN {} ELSE {x} \cup ReachFrom(P(mem[NextOf(x)]), fuel - 1)
  Reach == ReachFrom(B(0), Cardinality(ListNodes) + 1)
}

macro Ld(dst, loc)        { dst := Rd(self, loc); acc := Ev(self, "ld", loc, "-", "-", Rd(self, loc)); }
macro St(loc, v)          { if (TSO) { sb[self] := Append(sb[self], <<loc, v>>) } else { mem[loc] := v };
                            acc := Ev(self, "st", loc, v, "-", "-"); }
macro Xchg(dst, loc, v)   { await Drained(self); dst := mem[loc]; mem[loc] := v; acc := Ev(self, "xchg", loc, v, "-", dst); }
macro Cas(dst, loc, o, n) { await Drained(self); dst := mem[loc]; if (mem[loc] = o) { mem[loc] := n };
                            acc := Ev(self, "cas", loc, o, n, dst); }
\* cmpxchg preceded by the plain initialisation store iloc := iv of a still private node (new_node->next = ...); the store is
\* visible to nobody before the cmpxchg succeeds and is repeated before every retry, so it is committed with the successful one
macro CasIns(dst, loc, o, n, iloc, iv) { await Drained(self); dst := mem[loc];
                            if (mem[loc] = o) { mem[loc] := n || mem[iloc] := iv };
                            acc := Ev(self, "cas", loc, o, n, dst); }
macro Or(dst, loc, bit)   { await Drained(self); dst := mem[loc]; mem[loc] := WOr(mem[loc], bit);
                            acc := Ev(self, "or", loc, ToString(bit), "-", WOr(dst, bit)); }
macro Mb()                { await Drained(self); acc := Ev(self, "mb", "-", "-", "-", "-"); }
macro Lock()              { await Drained(self) /\ lock = "free"; lock := self; acc := Ev(self, "lock", MutexName, "-", "-", "-"); }
macro Unlock()            { await Drained(self); lock := "free"; acc := Ev(self, "unlock", MutexName, "-", "-", "-"); }
macro LdSz()              { sz := SzVal[Rd(self, SizeLoc)]; acc := Ev(self, "ld", SizeLoc, "-", "-", Rd(self, SizeLoc));
                            uaf := uaf \/ ~htalive; }
macro RUnlock()           { incs[self] := FALSE; gpw := [w \in Threads |-> gpw[w] \ {self}]; }

fair process (flusher \in Flushers) {
fl: while (TRUE) {
      await sb[FlOf[self]] # <<>>;
      mem[Head(sb[FlOf[self]])[1]] := Head(sb[FlOf[self]])[2] || sb[FlOf[self]] := Tail(sb[FlOf[self]])
      || acc := IF Tracing THEN [k |-> acc.k + 1, t |-> FlOf[self], op |-> "flush", var |-> Head(sb[FlOf[self]])[1],
                               a |-> Head(sb[FlOf[self]])[2], b |-> "-", r |-> "-"] ELSE acc;
    }
}

fair process (thr \in Threads)
variables i = 1, op = LM!NoOp, res = "-", tmp = NULLW, tmp2 = NULLW, sz = 1,
          bkt = NULL, prev = NULL, itw = NULLW, nxw = NULLW, node = NULL, bflag = FALSE, uniq = FALSE, aret = "-",
          dn = NULL, dnx = NULLW, drh = 0, dkey = "-", dret = "-",
          gcb = NULL, gcrh = 0, gcret = "-", gret = "-",
          oldn = NULL, oldnx = NULLW,
          itn = NULL, itx = NULLW, seen = <<>>, owned = <<>>,
          zi = 0, zj = 0, zlim = 0, zfree = 0;
{
t_top:  while (i <= Len(Prog[self])) {
          \* the call: the driver's scheduling point (vrt_yield), rcu_read_lock() when the scenario says so
          op := Prog[self][i]; res := "-"; seen := <<>>;
          pend[self] := PendOf(Prog[self][i], itn);
          acc := Ev(self, "call", "-", "-", "-", "-");
          if (Prog[self][i].rl) { incs[self] := TRUE };
          flt[self] := FltOf(Prog[self][i]);
          resident[self] := {n \in inTab : Sel(FltOf(Prog[self][i]), n)};
          cand[self] := {n \in inTab : Sel(FltOf(Prog[self][i]), n)};
          kres[self] := \E n \in inTab : Sel(FltOf(Prog[self][i]), n);
t_disp:   if (op.op \in {"add", "addu", "addr"}) { goto a_ldsz }
          else if (op.op \in {"lookup", "dups"}) { goto l_ldsz }
          else if (op.op = "iter") { goto f_ldb }
          else if (op.op = "del") { goto d_ldsz }
          else if (op.op = "repl") { goto r_chk }
          else if (op.op = "reclaim") { gret := "reclaim"; goto g_mb }
          else if (op.op = "resize") { goto z_tgt }
          else if (op.op = "wait") { goto w_join }
          else { goto x_destroy };

        \* ================= cds_lfht_add / cds_lfht_add_unique / cds_lfht_add_replace
a_ldsz:   LdSz();                                                \* size = uatomic_load(&ht->size, CMM_ACQUIRE)              :1851/1866/1883
          node := op.n; bflag := FALSE; uniq := (op.op # "add"); aret := "api";
          bkt := B(NodeHash[op.n] % sz);                         \* bucket = lookup_bucket(ht, size, hash)                   :1106
        \* ----------------- _cds_lfht_add(ht, hash, match, key, size, node, unique_ret, bucket_flag)
a_ldb:    prev := bkt;                                           \* iter_prev = bucket
          Ld(itw, NextOf(bkt));                                  \* iter = rcu_dereference(iter_prev->next)                  :1116
          uaf := uaf \/ Dead(bkt);
a_loop:   if (P(itw) = NULL) { goto a_ins }                      \* is_end(iter)                                             :1119
          else if (RH[P(itw)] > RH[node]) { uaf := uaf \/ Dead(P(itw)); goto a_ins }                       \* :1121
          else if (bflag /\ RH[P(itw)] = RH[node]) { uaf := uaf \/ Dead(P(itw)); goto a_ins }              \* :1125
          else {
            Ld(nxw, NextOf(P(itw)));                             \* next = rcu_dereference(clear_flag(iter)->next)           :1128
            uaf := uaf \/ Dead(P(itw));
            if (IsRem(nxw)) { goto a_gc }                        \* goto gc_node                                             :1129
            else if (uniq /\ ~IsBkt(nxw) /\ RH[P(itw)] = RH[node]) {
              \* cds_lfht_next_duplicate(ht, match, key, &d_iter) with d_iter = { node, iter }                               :1153
              dn := P(itw); drh := RH[node]; dkey := NodeKey[node]; dret := "add"; goto n_loop }
            else { prev := P(itw); itw := nxw; goto a_loop }     \* iter_prev = clear_flag(iter); iter = next                :1165
          };
a_ins:    \* node->next = clear_flag(iter) [| BUCKET] (plain, node still private); cmpxchg(&iter_prev->next, iter, new_node)  :1177-1184
          CasIns(tmp, NextOf(prev), itw, W(node, BF(itw)), NextOf(node), W(P(itw), IF bflag THEN 2 ELSE 0));
          uaf := uaf \/ Dead(prev);
          if (tmp = itw) {
            if (~bflag) { inTab := inTab \cup {node}; cand := CandAfterInsert(node) };
            goto a_ok }
          else { goto a_ldb };                                   \* continue (retry from the bucket)                         :1186
a_gc:     Cas(tmp, NextOf(prev), itw, W(P(nxw), BF(itw)));       \* (void) uatomic_cmpxchg(&iter_prev->next, iter, new_next) :1199
          uaf := uaf \/ Dead(prev);
          goto a_ldb;
a_ok:     if (aret = "pop") { goto zp_next }
          else { res := IF op.op = "add" THEN "ok" ELSE IF op.op = "addu" THEN node ELSE NULL; goto t_ret };
a_dup:    \* *unique_ret = d_iter; return                                                                                    :1157
          if (op.op = "addu") { res := dn; goto t_ret }
          else { oldn := dn; oldnx := dnx; goto r_loop };        \* add_replace: _cds_lfht_replace(ht, size, iter.node, iter.next, node) :1891

        \* ================= cds_lfht_replace(ht, old_iter, hash, match, key, new_node)
r_chk:    node := op.n; oldn := itn; oldnx := itx;
          if (itn = NULL) { res := "-ENOENT"; goto t_ret }       \* if (!old_iter->node) return -ENOENT                      :1906
          else {
            uaf := uaf \/ Dead(itn);                             \* old_iter->node->reverse_hash, match(old_iter->node, key)
            if (RH[itn] # RH[op.n] \/ NodeKey[itn] # NodeKey[op.n]) { res := "-EINVAL"; goto t_ret } };   \* :1908-1911
r_ldsz:   LdSz();                                                \* size = uatomic_load(&ht->size, CMM_ACQUIRE)              :1912
        \* ----------------- _cds_lfht_replace(ht, size, old_node, old_next, new_node)
r_loop:   if (IsRem(oldnx)) {                                    \* too late, the old node has been removed under us         :1035
            if (op.op = "addr") { goto a_ldb }                   \* add_replace: for (;;) _cds_lfht_add(...)                 :1884
            else { res := "-ENOENT"; goto t_ret } }
          else {
            \* new_node->next = old_next (plain, private); cmpxchg(&old_node->next, old_next, new_node | REMOVED | REMOVAL_OWNER) :1050-1067
            CasIns(tmp, NextOf(oldn), oldnx, W(node, 5), NextOf(node), oldnx);
            uaf := uaf \/ Dead(oldn);
            if (tmp = oldnx) {
              inTab := (inTab \ {oldn}) \cup {node};
              owners[oldn] := owners[oldn] \cup {self};
              owned := Append(owned, oldn);
              resident := ResAfterRemove({oldn});
              cand := CandAfterInsert(node);
              goto r_gc }
            else { oldnx := tmp; goto r_loop } };                \* old_next = ret_next                                      :1070
r_gc:     \* bucket = lookup_bucket(ht, size, bit_reverse_ulong(old_node->reverse_hash)); _cds_lfht_gc_bucket(bucket, new_node) :1078
          gcb := B(NodeHash[oldn] % sz); gcrh := RH[node]; gcret := "repl"; goto c_ldb;
r_asrt:   Ld(tmp, NextOf(oldn));                                 \* urcu_posix_assert(is_removed(uatomic_load(&old_node->next))) :1081
          uaf := uaf \/ Dead(oldn);
          assert IsRem(tmp);
          res := IF op.op = "addr" THEN oldn ELSE "0";
          goto t_ret;

        \* ================= _cds_lfht_gc_bucket(bucket, node): unlink every logically removed node up to node's reversed hash
c_ldb:    prev := gcb;                                           \* iter_prev = bucket
          Ld(itw, NextOf(gcb));                                  \* iter = rcu_dereference(iter_prev->next)                  :983
          uaf := uaf \/ Dead(gcb);
c_loop:   if (P(itw) = NULL) { goto c_ret }                      \* is_end(iter): return                                     :995
          else if (RH[P(itw)] > gcrh) { uaf := uaf \/ Dead(P(itw)); goto c_ret }                           \* :997
          else {
            Ld(nxw, NextOf(P(itw)));                             \* next = rcu_dereference(clear_flag(iter)->next)           :999
            uaf := uaf \/ Dead(P(itw));
            if (IsRem(nxw)) { goto c_cas }
            else { prev := P(itw); itw := nxw; goto c_loop } };
c_cas:    Cas(tmp, NextOf(prev), itw, W(P(nxw), BF(itw)));       \* (void) uatomic_cmpxchg(&iter_prev->next, iter, new_next) :1011
          uaf := uaf \/ Dead(prev);
          if ("gc_norestart" \in Mut) { itw := W(P(nxw), BF(itw)); goto c_loop } else { goto c_ldb };
c_ret:    if (gcret = "del") { goto d_asrt } else if (gcret = "repl") { goto r_asrt } else { goto zr_next };

        \* ================= cds_lfht_del(ht, node) -> _cds_lfht_del(ht, size, node)
d_ldsz:   LdSz();                                                \* size = uatomic_load(&ht->size, CMM_ACQUIRE)              :1922
          node := pend[self].n;
          if (pend[self].n = NULL) { res := "-ENOENT"; goto t_ret };       \* if (!node) return -ENOENT                    :1216
d_ld1:    Ld(tmp, NextOf(node));                                 \* next = uatomic_load(&node->next)                         :1230
          uaf := uaf \/ Dead(node);
          if (IsRem(tmp)) { res := "-ENOENT"; goto t_ret };      \* already logically removed                                :1231
d_or:     Or(tmp, NextOf(node), 1);                              \* uatomic_or_mo(&node->next, REMOVED_FLAG, CMM_RELEASE)    :1247
          uaf := uaf \/ Dead(node);
          if (~IsRem(tmp)) {                                     \* first setter: the node leaves the table here
            inTab := inTab \ {node};
            resident := ResAfterRemove({node});
            kres := KresAfter(inTab \ {node}) };
          \* bucket = lookup_bucket(ht, size, bit_reverse_ulong(node->reverse_hash)); _cds_lfht_gc_bucket(bucket, node)        :1256
          gcb := B(NodeHash[node] % sz); gcrh := RH[node]; gcret := "del";
          goto c_ldb;
d_asrt:   Ld(tmp, NextOf(node));                                 \* urcu_posix_assert(is_removed(uatomic_load(&node->next))) :1259
          uaf := uaf \/ Dead(node);
          assert IsRem(tmp);
d_ld2:    Ld(tmp, NextOf(node));                                 \* flag_removal_owner(uatomic_load(&node->next))            :1273
          uaf := uaf \/ Dead(node);
d_xchg:   if ("owner_or" \in Mut) { Or(tmp2, NextOf(node), 4) }
          else { Xchg(tmp2, NextOf(node), WOr(tmp, 4)) };        \* uatomic_xchg(&node->next, ...)                           :1272
          uaf := uaf \/ Dead(node);
          if ("owner_or" \in Mut \/ ~IsOwn(tmp2)) {                                    \* we own the node and win the removal race
            owners[node] := owners[node] \cup {self};
            owned := Append(owned, node);
            res := "0" }
          else { res := "-ENOENT" };
          goto t_ret;

        \* ================= cds_lfht_lookup(ht, hash, match, key, iter)   (also the first step of the duplicate walk)
l_ldsz:   LdSz();                                                \* size = uatomic_load(&ht->size, CMM_ACQUIRE)              :1746
          bkt := B(op.h % sz); drh := Rev[op.h]; dkey := op.k; dret := op.op;
l_ldb:    Ld(tmp, NextOf(bkt));                                  \* node = clear_flag(rcu_dereference(bucket->next))         :1749
          uaf := uaf \/ Dead(bkt);
          dn := P(tmp);
l_loop:   if (dn = NULL) { goto q_none }                         \* is_end(node)                                             :1752
          else if (RH[dn] > drh) { uaf := uaf \/ Dead(dn); goto q_none }                                   \* :1756
          else {
            Ld(dnx, NextOf(dn));                                 \* next = rcu_dereference(node->next)                       :1760
            uaf := uaf \/ Dead(dn);
            if (("lookup_keeps_removed" \in Mut \/ ~IsRem(dnx)) /\ ~IsBkt(dnx) /\ RH[dn] = drh /\ NodeKey[dn] = dkey) { goto l_asrt }   \* :1762-1765
            else { dn := P(dnx); goto l_loop } };                \* node = clear_flag(next)                                  :1768
l_asrt:   Ld(tmp, NextOf(dn));                                   \* urcu_posix_assert(!node || !is_bucket(uatomic_load(&node->next))) :1770
          uaf := uaf \/ Dead(dn);
          itn := dn; itx := dnx;                                 \* iter->node = node; iter->next = next
          if (op.op = "lookup") { res := dn; goto t_ret }
          else { seen := Append(seen, dn); dn := P(dnx); goto n_loop };

        \* ================= cds_lfht_next_duplicate(ht, match, key, iter)   (from add_unique / add_replace and from the dups walk)
n_loop:   if (dn = NULL) { goto q_none }                         \* is_end(node)                                             :1789
          else if (RH[dn] > drh) { uaf := uaf \/ Dead(dn); goto q_none }                                   \* :1793
          else {
            Ld(dnx, NextOf(dn));                                 \* next = rcu_dereference(node->next)                       :1797
            uaf := uaf \/ Dead(dn);
            if (~IsRem(dnx) /\ ~IsBkt(dnx) /\ NodeKey[dn] = dkey) { goto n_asrt }                          \* :1798-1800
            else { dn := P(dnx); goto n_loop } };                \* node = clear_flag(next)                                  :1803
n_asrt:   Ld(tmp, NextOf(dn));                                   \* urcu_posix_assert(!node || !is_bucket(uatomic_load(&node->next))) :1805
          uaf := uaf \/ Dead(dn);
          if (dret = "add") { goto a_dup }
          else { itn := dn; itx := dnx; seen := Append(seen, dn); dn := P(dnx); goto n_loop };
q_none:   \* node = next = NULL: nothing (more) found
          if (dret = "add") {                                    \* if (!d_iter.node) goto insert                            :1154
            if ("uniq_tail" \in Mut) { prev := P(itw); itw := nxw; goto a_loop } else { goto a_ins } }
          else { itn := NULL; itx := NULLW;
                 res := IF op.op = "lookup" THEN NULL ELSE Join(seen);
                 goto t_ret };

        \* ================= cds_lfht_first / cds_lfht_next until NULL (cds_lfht_for_each)
f_ldb:    Ld(itx, NextOf(B(0)));                                 \* iter->next = uatomic_load(&bucket_at(ht, 0)->next, CMM_CONSUME) :1841
          uaf := uaf \/ Dead(B(0)) \/ ~htalive;
          dn := P(itx);
v_loop:   if (dn = NULL) { itn := NULL; itx := NULLW; res := Join(seen); goto t_ret }       \* is_end(node)                :1818
          else {
            Ld(dnx, NextOf(dn));                                 \* next = rcu_dereference(node->next)                       :1822
            uaf := uaf \/ Dead(dn);
            if (~IsRem(dnx) /\ ~IsBkt(dnx)) { goto v_asrt }
            else { dn := P(dnx); goto v_loop } };                \* node = clear_flag(next)                                  :1827
v_asrt:   Ld(tmp, NextOf(dn));                                   \* urcu_posix_assert(!node || !is_bucket(uatomic_load(&node->next))) :1829
          uaf := uaf \/ Dead(dn);
          itn := dn; itx := dnx; seen := Append(seen, dn); dn := P(dnx);
          goto v_loop;

        \* ================= synchronize_rcu (abstract): full barrier + snapshot of the open sections, then wait for them
g_mb:     Mb();                                                  \* every real synchronize_rcu starts with a full barrier
          gpw[self] := InCs \ {self};
g_end:    await Drained(self) /\ gpw[self] = {};                 \* grace period elapsed
          acc := Ev(self, "gp_end", "-", "-", "-", "-");
          if (gret = "reclaim") { if (owned = <<>>) { res := "ok"; goto t_ret } else { goto g_free } }
          else if (gret = "fini1") { goto zf_free1 }
          else { goto zf_free2 };
g_free:   alive[Head(owned)] := FALSE;                           \* free(node) by its owner
          owned := Tail(owned);
          if (owned # <<>>) { goto g_free } else { res := "ok"; goto t_ret };

        \* ================= cds_lfht_resize(ht, new_size)
z_tgt:    St(TargetLoc, SzStr[ClampSize(op.size)]);              \* resize_target_update_count: uatomic_store(&ht->resize_target, count) :2193
z_ini:    St(InitdLoc, "1");                                     \* uatomic_store(&ht->resize_initiated, 1)                  :2203
z_lock:   Lock();                                                \* mutex_lock(&ht->resize_mutex)                            :2205
        \* ----------------- _do_cds_lfht_resize
z_ipd:    Ld(tmp, IpdLoc);                                       \* if (uatomic_load(&ht->in_progress_destroy)) break        :2156
          uaf := uaf \/ ~htalive;
          if (tmp # "0") { goto z_unlock };
z_ini2:   St(InitdLoc, "1");                                     \* uatomic_store(&ht->resize_initiated, 1)                  :2159
z_ldt:    Ld(tmp, TargetLoc);                                    \* old_size = ht->size (plain); new_size = uatomic_load(&ht->resize_target) :2161-2162
          if (SzVal[Rd(self, SizeLoc)] < SzVal[tmp]) {           \* _do_cds_lfht_grow: init_table(ht, old_order + 1, new_order)
            zi := Log2(SzVal[Rd(self, SizeLoc)]) + 1; zlim := Log2(SzVal[tmp]); goto zi_ldt }
          else if (SzVal[Rd(self, SizeLoc)] > SzVal[tmp]) {      \* _do_cds_lfht_shrink: fini_table(ht, new_order + 1, old_order)
            zi := Log2(SzVal[Rd(self, SizeLoc)]); zlim := Log2(SzVal[tmp]) + 1; zfree := 0; goto zf_ldt }
          else { goto z_ini0 };
        \* ----------------- init_table(ht, first_order, last_order): for (i = first_order; i <= last_order; i++)
zi_ldt:   if (zi > zlim) { goto z_ini0 }
          else {
            Ld(tmp, TargetLoc);                                  \* if (uatomic_load(&ht->resize_target) < (1UL << i)) break :1426
            if (SzVal[tmp] < 2^zi) { goto z_ini0 } };
zi_alloc: \* cds_lfht_alloc_bucket_table(ht, i) (calloc: zeroed)                                                               :1429
          balive[zi] := TRUE;
          mem := [l \in Locs |-> IF l \in {NextOf(b) : b \in BucketsOfOrder(zi)} THEN NULLW ELSE mem[l]];
          if ("size_early" \in Mut) { goto zi_size };
zi_pop:   \* init_table_populate_partition(ht, i, 0, len): read_lock, first bucket node                                          :1390
          incs[self] := TRUE;
          zj := 2^(zi - 1);
          \* new_node->reverse_hash = bit_reverse_ulong(j); _cds_lfht_add(ht, j, NULL, NULL, size, new_node, NULL, 1)           :1397-1398
          node := B(2^(zi - 1)); bflag := TRUE; uniq := FALSE; aret := "pop"; bkt := B(0);
          goto a_ldb;
zp_next:  if (zj + 1 < 2^zi) {                                   \* for (j = size + start; j < size + start + len; j++)      :1391
            zj := zj + 1; node := B(zj); bkt := B(zj % 2^(zi - 1)); goto a_ldb }
          else { RUnlock();                                      \* ht->flavor->read_unlock()                                :1400
                 if ("size_early" \in Mut) { goto zi_ipd } else { goto zi_size } };
zi_size:  St(SizeLoc, SzStr[2^zi]);                              \* uatomic_store(&ht->size, 1UL << i, CMM_RELEASE)          :1442
          if ("size_early" \in Mut) { goto zi_pop };
zi_ipd:   Ld(tmp, IpdLoc);                                       \* if (uatomic_load(&ht->in_progress_destroy)) break        :1445
          if (tmp # "0") { goto z_ini0 } else { zi := zi + 1; goto zi_ldt };
        \* ----------------- fini_table(ht, first_order, last_order): for (i = last_order; i >= first_order; i--)
zf_ldt:   if (zi < zlim) { goto zf_end }
          else {
            Ld(tmp, TargetLoc);                                  \* if (uatomic_load(&ht->resize_target) > (1UL << (i - 1))) break :1531
            if (SzVal[tmp] > 2^(zi - 1)) { goto zf_end } };
zf_size:  St(SizeLoc, SzStr[2^(zi - 1)]);                        \* cmm_smp_wmb(); uatomic_store(&ht->size, 1UL << (i - 1))  :1534-1535
          gret := "fini1";
          goto g_mb;                                             \* ht->flavor->update_synchronize_rcu()                     :1543
zf_free1: if (zfree # 0) { balive[zfree] := FALSE };             \* if (free_by_rcu_order) cds_lfht_free_bucket_table(ht, free_by_rcu_order) :1545
          \* remove_table_partition(ht, i, 0, len): read_lock                                                                :1483
          incs[self] := TRUE;
          zj := 2^(zi - 1);
zr_or:    Or(tmp, NextOf(B(zj)), 1);                             \* uatomic_or(&fini_bucket->next, REMOVED_FLAG)             :1498
          uaf := uaf \/ Dead(B(zj));
          \* _cds_lfht_gc_bucket(parent_bucket, fini_bucket)                                                                 :1499
          gcb := B(zj - 2^(zi - 1)); gcrh := RH[B(zj)]; gcret := "rm";
          goto c_ldb;
zr_next:  if (zj + 1 < 2^zi) { zj := zj + 1; goto zr_or }
          else { RUnlock(); zfree := zi; goto zf_ipd };          \* read_unlock(); free_by_rcu_order = i                      :1501,1555
zf_ipd:   Ld(tmp, IpdLoc);                                       \* if (uatomic_load(&ht->in_progress_destroy)) break        :1558
          if (tmp # "0") { goto zf_end } else { zi := zi - 1; goto zf_ldt };
zf_end:   if (zfree # 0) {                                       \* update_synchronize_rcu(); cds_lfht_free_bucket_table     :1562-1564
            if ("free_early" \in Mut) { goto zf_free2 } else { gret := "fini2"; goto g_mb } }
          else { goto z_ini0 };
zf_free2: balive[zfree] := FALSE;                                \* cds_lfht_free_bucket_table(ht, free_by_rcu_order)        :1564
          zfree := 0;
z_ini0:   St(InitdLoc, "0");                                     \* uatomic_store(&ht->resize_initiated, 0)                  :2168
z_mb:     Mb();                                                  \* cmm_smp_mb(): write resize_initiated before read resize_target :2170
z_chk:    Ld(tmp, TargetLoc);                                    \* while (ht->size != uatomic_load(&ht->resize_target))     :2171
          if (SzVal[Rd(self, SizeLoc)] # SzVal[tmp]) { goto z_ipd };
z_unlock: Unlock();                                              \* mutex_unlock(&ht->resize_mutex)                          :2207
          res := "ok";
          goto t_ret;

        \* ================= driver-level barrier
w_join:   await \A k \in DOMAIN op.ts : fin[op.ts[k]];
          acc := Ev(self, "joined", "-", "-", "-", "-");
          res := "ok";
          goto t_ret;

        \* ================= cds_lfht_destroy(ht, NULL) (no CDS_LFHT_AUTO_RESIZE): cds_lfht_delete_bucket, free of every level and of ht.
        \* The caller guarantees that no other operation is in flight, so the walk (plain loads) is one step.
x_destroy: assert \A t \in Threads \ {self} : pc[t] \in {"t_top", "t_disp", "w_join", "Done"};     \* scenario obligation: nothing else in flight
          if (\E x \in Reach : x \in UserNodes) { res := "-EPERM" }      \* a non-bucket node is linked: return -EPERM            :1977
          else {
            uaf := uaf \/ ~htalive \/ \E x \in Reach : Dead(x);
            balive := [o \in Orders |-> FALSE];                  \* cds_lfht_free_bucket_table(ht, order) for every order    :1995
            htalive := FALSE;                                    \* poison_free(ht->alloc, ht)                               :2060
            res := "0" };

t_ret:    \* the return: rcu_read_unlock() when the scenario says so; history and ghost bookkeeping
          cfgs := IF pend[self].op = "none" THEN cfgs ELSE HReturn(cfgs, pend, self, res) || pend[self] := LM!NoOp;
          if (op.ru) { RUnlock() };
          flt[self] := NoFlt; resident[self] := {}; cand[self] := {}; kres[self] := FALSE;
          if (i = Len(Prog[self])) { fin[self] := TRUE };
          \* locals that are dead between operations are reset so that equivalent states coincide
          tmp := NULLW; tmp2 := NULLW; bkt := NULL; prev := NULL; itw := NULLW; nxw := NULLW; node := NULL; dn := NULL; dnx := NULLW;
          oldn := NULL; oldnx := NULLW; gcb := NULL; seen := <<>>; sz := 1; bflag := FALSE; uniq := FALSE; aret := "-";
          drh := 0; dkey := "-"; dret := "-"; gcrh := 0; gcret := "-"; gret := "-"; zi := 0; zj := 0; zlim := 0; zfree := 0;
          i := i + 1;
        }
}
} *)
\* BEGIN TRANSLATION
VARIABLES pc, mem, sb, lock, acc, pend, cfgs, incs, gpw, inTab, owners, alive, 
          balive, htalive, uaf, flt, resident, cand, kres, fin

(* define statement *)
LastIdx(t, loc) == LET S == {j \in DOMAIN sb[t] : sb[t][j][1] = loc} IN
                   IF S = {} THEN 0 ELSE CHOOSE j \in S : \A k \in S : k <= j
Rd(t, loc) == IF LastIdx(t, loc) = 0 THEN mem[loc] ELSE sb[t][LastIdx(t, loc)][2]
Drained(t) == sb[t] = <<>>
Ev(t, op, var, a, b, r) == IF Tracing THEN [k |-> acc.k + 1, t |-> t, op |-> op, var |-> var, a |-> a, b |-> b, r |-> r] ELSE acc
InCs == {t \in Threads : incs[t]}
Alive(x) == IF x \in Buckets THEN balive[OrdOf[x]] ELSE alive[x]
Dead(x) == x # NULL /\ ~Alive(x)

ResAfterRemove(S) == [t \in Threads |-> resident[t] \ S]
KresAfter(tab) == [t \in Threads |-> kres[t] /\ \E m \in tab : Sel(flt[t], m)]
CandAfterInsert(n) == [t \in Threads |-> IF Sel(flt[t], n) THEN cand[t] \cup {n} ELSE cand[t]]

RECURSIVE ReachFrom(_, _)
ReachFrom(x, fuel) == IF x = NULL \/ fuel = 0 THEN {} ELSE {x} \cup ReachFrom(P(mem[NextOf(x)]), fuel - 1)
Reach == ReachFrom(B(0), Cardinality(ListNodes) + 1)

VARIABLES i, op, res, tmp, tmp2, sz, bkt, prev, itw, nxw, node, bflag, uniq, 
          aret, dn, dnx, drh, dkey, dret, gcb, gcrh, gcret, gret, oldn, oldnx, 
          itn, itx, seen, owned, zi, zj, zlim, zfree

vars == << pc, mem, sb, lock, acc, pend, cfgs, incs, gpw, inTab, owners, 
           alive, balive, htalive, uaf, flt, resident, cand, kres, fin, i, op, 
           res, tmp, tmp2, sz, bkt, prev, itw, nxw, node, bflag, uniq, aret, 
           dn, dnx, drh, dkey, dret, gcb, gcrh, gcret, gret, oldn, oldnx, itn, 
           itx, seen, owned, zi, zj, zlim, zfree >>

ProcSet == (Flushers) \cup (Threads)

Init == (* Global variables *)
        /\ mem = InitMem
        /\ sb = [t \in Threads |-> <<>>]
        /\ lock = "free"
        /\ acc = [k |-> 0]
        /\ pend = [t \in Threads |-> LM!NoOp]
        /\ cfgs = LM!InitCfgs(Elems(InitNodes))
        /\ incs = [t \in Threads |-> FALSE]
        /\ gpw = [t \in Threads |-> {}]
        /\ inTab = Elems(InitNodes)
        /\ owners = [n \in UserNodes |-> {}]
        /\ alive = [n \in UserNodes |-> TRUE]
        /\ balive = [o \in Orders |-> 2^o <= InitSize]
        /\ htalive = TRUE
        /\ uaf = FALSE
        /\ flt = [t \in Threads |-> NoFlt]
        /\ resident = [t \in Threads |-> {}]
        /\ cand = [t \in Threads |-> {}]
        /\ kres = [t \in Threads |-> FALSE]
        /\ fin = [t \in Threads |-> Len(Prog[t]) = 0]
        (* Process thr *)
        /\ i = [self \in Threads |-> 1]
        /\ op = [self \in Threads |-> LM!NoOp]
        /\ res = [self \in Threads |-> "-"]
        /\ tmp = [self \in Threads |-> NULLW]
        /\ tmp2 = [self \in Threads |-> NULLW]
        /\ sz = [self \in Threads |-> 1]
        /\ bkt = [self \in Threads |-> NULL]
        /\ prev = [self \in Threads |-> NULL]
        /\ itw = [self \in Threads |-> NULLW]
        /\ nxw = [self \in Threads |-> NULLW]
        /\ node = [self \in Threads |-> NULL]
        /\ bflag = [self \in Threads |-> FALSE]
        /\ uniq = [self \in Threads |-> FALSE]
        /\ aret = [self \in Threads |-> "-"]
        /\ dn = [self \in Threads |-> NULL]
        /\ dnx = [self \in Threads |-> NULLW]
        /\ drh = [self \in Threads |-> 0]
        /\ dkey = [self \in Threads |-> "-"]
        /\ dret = [self \in Threads |-> "-"]
        /\ gcb = [self \in Threads |-> NULL]
        /\ gcrh = [self \in Threads |-> 0]
        /\ gcret = [self \in Threads |-> "-"]
        /\ gret = [self \in Threads |-> "-"]
        /\ oldn = [self \in Threads |-> NULL]
        /\ oldnx = [self \in Threads |-> NULLW]
        /\ itn = [self \in Threads |-> NULL]
        /\ itx = [self \in Threads |-> NULLW]
        /\ seen = [self \in Threads |-> <<>>]
        /\ owned = [self \in Threads |-> <<>>]
        /\ zi = [self \in Threads |-> 0]
        /\ zj = [self \in Threads |-> 0]
        /\ zlim = [self \in Threads |-> 0]
        /\ zfree = [self \in Threads |-> 0]
        /\ pc = [self \in ProcSet |-> CASE self \in Flushers -> "fl"
                                        [] self \in Threads -> "t_top"]

fl(self) == /\ pc[self] = "fl"
            /\ sb[FlOf[self]] # <<>>
            /\ /\ acc' = IF Tracing THEN [k |-> acc.k + 1, t |-> FlOf[self], op |-> "flush", var |-> Head(sb[FlOf[self]])[1],
                                        a |-> Head(sb[FlOf[self]])[2], b |-> "-", r |-> "-"] ELSE acc
               /\ mem' = [mem EXCEPT ![Head(sb[FlOf[self]])[1]] = Head(sb[FlOf[self]])[2]]
               /\ sb' = [sb EXCEPT ![FlOf[self]] = Tail(sb[FlOf[self]])]
            /\ pc' = [pc EXCEPT ![self] = "fl"]
            /\ UNCHANGED << lock, pend, cfgs, incs, gpw, inTab, owners, alive, 
                            balive, htalive, uaf, flt, resident, cand, kres, 
                            fin, i, op, res, tmp, tmp2, sz, bkt, prev, itw, 
                            nxw, node, bflag, uniq, aret, dn, dnx, drh, dkey, 
                            dret, gcb, gcrh, gcret, gret, oldn, oldnx, itn, 
                            itx, seen, owned, zi, zj, zlim, zfree >>

flusher(self) == fl(self)

t_top(self) == /\ pc[self] = "t_top"
               /\ IF i[self] <= Len(Prog[self])
                     THEN /\ op' = [op EXCEPT ![self] = Prog[self][i[self]]]
                          /\ res' = [res EXCEPT ![self] = "-"]
                          /\ seen' = [seen EXCEPT ![self] = <<>>]
                          /\ pend' = [pend EXCEPT ![self] = PendOf(Prog[self][i[self]], itn[self])]
                          /\ acc' = Ev(self, "call", "-", "-", "-", "-")
                          /\ IF Prog[self][i[self]].rl
                                THEN /\ incs' = [incs EXCEPT ![self] = TRUE]
                                ELSE /\ TRUE
                                     /\ incs' = incs
                          /\ flt' = [flt EXCEPT ![self] = FltOf(Prog[self][i[self]])]
                          /\ resident' = [resident EXCEPT ![self] = {n \in inTab : Sel(FltOf(Prog[self][i[self]]), n)}]
                          /\ cand' = [cand EXCEPT ![self] = {n \in inTab : Sel(FltOf(Prog[self][i[self]]), n)}]
                          /\ kres' = [kres EXCEPT ![self] = \E n \in inTab : Sel(FltOf(Prog[self][i[self]]), n)]
                          /\ pc' = [pc EXCEPT ![self] = "t_disp"]
                     ELSE /\ pc' = [pc EXCEPT ![self] = "Done"]
                          /\ UNCHANGED << acc, pend, incs, flt, resident, cand, 
                                          kres, op, res, seen >>
               /\ UNCHANGED << mem, sb, lock, cfgs, gpw, inTab, owners, alive, 
                               balive, htalive, uaf, fin, i, tmp, tmp2, sz, 
                               bkt, prev, itw, nxw, node, bflag, uniq, aret, 
                               dn, dnx, drh, dkey, dret, gcb, gcrh, gcret, 
                               gret, oldn, oldnx, itn, itx, owned, zi, zj, 
                               zlim, zfree >>

t_disp(self) == /\ pc[self] = "t_disp"
                /\ IF op[self].op \in {"add", "addu", "addr"}
                      THEN /\ pc' = [pc EXCEPT ![self] = "a_ldsz"]
                           /\ gret' = gret
                      ELSE /\ IF op[self].op \in {"lookup", "dups"}
                                 THEN /\ pc' = [pc EXCEPT ![self] = "l_ldsz"]
                                      /\ gret' = gret
                                 ELSE /\ IF op[self].op = "iter"
                                            THEN /\ pc' = [pc EXCEPT ![self] = "f_ldb"]
                                                 /\ gret' = gret
                                            ELSE /\ IF op[self].op = "del"
                                                       THEN /\ pc' = [pc EXCEPT ![self] = "d_ldsz"]
                                                            /\ gret' = gret
                                                       ELSE /\ IF op[self].op = "repl"
                                                                  THEN /\ pc' = [pc EXCEPT ![self] = "r_chk"]
                                                                       /\ gret' = gret
                                                                  ELSE /\ IF op[self].op = "reclaim"
                                                                             THEN /\ gret' = [gret EXCEPT ![self] = "reclaim"]
                                                                                  /\ pc' = [pc EXCEPT ![self] = "g_mb"]
                                                                             ELSE /\ IF op[self].op = "resize"
                                                                                        THEN /\ pc' = [pc EXCEPT ![self] = "z_tgt"]
                                                                                        ELSE /\ IF op[self].op = "wait"
                                                                                                   THEN /\ pc' = [pc EXCEPT ![self] = "w_join"]
                                                                                                   ELSE /\ pc' = [pc EXCEPT ![self] = "x_destroy"]
                                                                                  /\ gret' = gret
                /\ UNCHANGED << mem, sb, lock, acc, pend, cfgs, incs, gpw, 
                                inTab, owners, alive, balive, htalive, uaf, 
                                flt, resident, cand, kres, fin, i, op, res, 
                                tmp, tmp2, sz, bkt, prev, itw, nxw, node, 
                                bflag, uniq, aret, dn, dnx, drh, dkey, dret, 
                                gcb, gcrh, gcret, oldn, oldnx, itn, itx, seen, 
                                owned, zi, zj, zlim, zfree >>

a_ldsz(self) == /\ pc[self] = "a_ldsz"
                /\ sz' = [sz EXCEPT ![self] = SzVal[Rd(self, SizeLoc)]]
                /\ acc' = Ev(self, "ld", SizeLoc, "-", "-", Rd(self, SizeLoc))
                /\ uaf' = (uaf \/ ~htalive)
                /\ node' = [node EXCEPT ![self] = op[self].n]
                /\ bflag' = [bflag EXCEPT ![self] = FALSE]
                /\ uniq' = [uniq EXCEPT ![self] = (op[self].op # "add")]
                /\ aret' = [aret EXCEPT ![self] = "api"]
                /\ bkt' = [bkt EXCEPT ![self] = B(NodeHash[op[self].n] % sz'[self])]
                /\ pc' = [pc EXCEPT ![self] = "a_ldb"]
                /\ UNCHANGED << mem, sb, lock, pend, cfgs, incs, gpw, inTab, 
                                owners, alive, balive, htalive, flt, resident, 
                                cand, kres, fin, i, op, res, tmp, tmp2, prev, 
                                itw, nxw, dn, dnx, drh, dkey, dret, gcb, gcrh, 
                                gcret, gret, oldn, oldnx, itn, itx, seen, 
                                owned, zi, zj, zlim, zfree >>

a_ldb(self) == /\ pc[self] = "a_ldb"
               /\ prev' = [prev EXCEPT ![self] = bkt[self]]
               /\ itw' = [itw EXCEPT ![self] = Rd(self, (NextOf(bkt[self])))]
               /\ acc' = Ev(self, "ld", (NextOf(bkt[self])), "-", "-", Rd(self, (NextOf(bkt[self]))))
               /\ uaf' = (uaf \/ Dead(bkt[self]))
               /\ pc' = [pc EXCEPT ![self] = "a_loop"]
               /\ UNCHANGED << mem, sb, lock, pend, cfgs, incs, gpw, inTab, 
                               owners, alive, balive, htalive, flt, resident, 
                               cand, kres, fin, i, op, res, tmp, tmp2, sz, bkt, 
                               nxw, node, bflag, uniq, aret, dn, dnx, drh, 
                               dkey, dret, gcb, gcrh, gcret, gret, oldn, oldnx, 
                               itn, itx, seen, owned, zi, zj, zlim, zfree >>

a_loop(self) == /\ pc[self] = "a_loop"
                /\ IF P(itw[self]) = NULL
                      THEN /\ pc' = [pc EXCEPT ![self] = "a_ins"]
                           /\ UNCHANGED << acc, uaf, prev, itw, nxw, dn, drh, 
                                           dkey, dret >>
                      ELSE /\ IF RH[P(itw[self])] > RH[node[self]]
                                 THEN /\ uaf' = (uaf \/ Dead(P(itw[self])))
                                      /\ pc' = [pc EXCEPT ![self] = "a_ins"]
                                      /\ UNCHANGED << acc, prev, itw, nxw, dn, 
                                                      drh, dkey, dret >>
                                 ELSE /\ IF bflag[self] /\ RH[P(itw[self])] = RH[node[self]]
                                            THEN /\ uaf' = (uaf \/ Dead(P(itw[self])))
                                                 /\ pc' = [pc EXCEPT ![self] = "a_ins"]
                                                 /\ UNCHANGED << acc, prev, 
                                                                 itw, nxw, dn, 
                                                                 drh, dkey, 
                                                                 dret >>
                                            ELSE /\ nxw' = [nxw EXCEPT ![self] = Rd(self, (NextOf(P(itw[self]))))]
                                                 /\ acc' = Ev(self, "ld", (NextOf(P(itw[self]))), "-", "-", Rd(self, (NextOf(P(itw[self])))))
                                                 /\ uaf' = (uaf \/ Dead(P(itw[self])))
                                                 /\ IF IsRem(nxw'[self])
                                                       THEN /\ pc' = [pc EXCEPT ![self] = "a_gc"]
                                                            /\ UNCHANGED << prev, 
                                                                            itw, 
                                                                            dn, 
                                                                            drh, 
                                                                            dkey, 
                                                                            dret >>
                                                       ELSE /\ IF uniq[self] /\ ~IsBkt(nxw'[self]) /\ RH[P(itw[self])] = RH[node[self]]
                                                                  THEN /\ dn' = [dn EXCEPT ![self] = P(itw[self])]
                                                                       /\ drh' = [drh EXCEPT ![self] = RH[node[self]]]
                                                                       /\ dkey' = [dkey EXCEPT ![self] = NodeKey[node[self]]]
                                                                       /\ dret' = [dret EXCEPT ![self] = "add"]
                                                                       /\ pc' = [pc EXCEPT ![self] = "n_loop"]
                                                                       /\ UNCHANGED << prev, 
                                                                                       itw >>
                                                                  ELSE /\ prev' = [prev EXCEPT ![self] = P(itw[self])]
                                                                       /\ itw' = [itw EXCEPT ![self] = nxw'[self]]
                                                                       /\ pc' = [pc EXCEPT ![self] = "a_loop"]
                                                                       /\ UNCHANGED << dn, 
                                                                                       drh, 
                                                                                       dkey, 
                                                                                       dret >>
                /\ UNCHANGED << mem, sb, lock, pend, cfgs, incs, gpw, inTab, 
                                owners, alive, balive, htalive, flt, resident, 
                                cand, kres, fin, i, op, res, tmp, tmp2, sz, 
                                bkt, node, bflag, uniq, aret, dnx, gcb, gcrh, 
                                gcret, gret, oldn, oldnx, itn, itx, seen, 
                                owned, zi, zj, zlim, zfree >>

a_ins(self) == /\ pc[self] = "a_ins"
               /\ Drained(self)
               /\ tmp' = [tmp EXCEPT ![self] = mem[(NextOf(prev[self]))]]
               /\ IF mem[(NextOf(prev[self]))] = itw[self]
                     THEN /\ mem' = [mem EXCEPT ![(NextOf(prev[self]))] = W(node[self], BF(itw[self])),
                                                ![(NextOf(node[self]))] = W(P(itw[self]), IF bflag[self] THEN 2 ELSE 0)]
                     ELSE /\ TRUE
                          /\ mem' = mem
               /\ acc' = Ev(self, "cas", (NextOf(prev[self])), itw[self], (W(node[self], BF(itw[self]))), tmp'[self])
               /\ uaf' = (uaf \/ Dead(prev[self]))
               /\ IF tmp'[self] = itw[self]
                     THEN /\ IF ~bflag[self]
                                THEN /\ inTab' = (inTab \cup {node[self]})
                                     /\ cand' = CandAfterInsert(node[self])
                                ELSE /\ TRUE
                                     /\ UNCHANGED << inTab, cand >>
                          /\ pc' = [pc EXCEPT ![self] = "a_ok"]
                     ELSE /\ pc' = [pc EXCEPT ![self] = "a_ldb"]
                          /\ UNCHANGED << inTab, cand >>
               /\ UNCHANGED << sb, lock, pend, cfgs, incs, gpw, owners, alive, 
                               balive, htalive, flt, resident, kres, fin, i, 
                               op, res, tmp2, sz, bkt, prev, itw, nxw, node, 
                               bflag, uniq, aret, dn, dnx, drh, dkey, dret, 
                               gcb, gcrh, gcret, gret, oldn, oldnx, itn, itx, 
                               seen, owned, zi, zj, zlim, zfree >>

a_gc(self) == /\ pc[self] = "a_gc"
              /\ Drained(self)
              /\ tmp' = [tmp EXCEPT ![self] = mem[(NextOf(prev[self]))]]
              /\ IF mem[(NextOf(prev[self]))] = itw[self]
                    THEN /\ mem' = [mem EXCEPT ![(NextOf(prev[self]))] = W(P(nxw[self]), BF(itw[self]))]
                    ELSE /\ TRUE
                         /\ mem' = mem
              /\ acc' = Ev(self, "cas", (NextOf(prev[self])), itw[self], (W(P(nxw[self]), BF(itw[self]))), tmp'[self])
              /\ uaf' = (uaf \/ Dead(prev[self]))
              /\ pc' = [pc EXCEPT ![self] = "a_ldb"]
              /\ UNCHANGED << sb, lock, pend, cfgs, incs, gpw, inTab, owners, 
                              alive, balive, htalive, flt, resident, cand, 
                              kres, fin, i, op, res, tmp2, sz, bkt, prev, itw, 
                              nxw, node, bflag, uniq, aret, dn, dnx, drh, dkey, 
                              dret, gcb, gcrh, gcret, gret, oldn, oldnx, itn, 
                              itx, seen, owned, zi, zj, zlim, zfree >>

a_ok(self) == /\ pc[self] = "a_ok"
              /\ IF aret[self] = "pop"
                    THEN /\ pc' = [pc EXCEPT ![self] = "zp_next"]
                         /\ res' = res
                    ELSE /\ res' = [res EXCEPT ![self] = IF op[self].op = "add" THEN "ok" ELSE IF op[self].op = "addu" THEN node[self] ELSE NULL]
                         /\ pc' = [pc EXCEPT ![self] = "t_ret"]
              /\ UNCHANGED << mem, sb, lock, acc, pend, cfgs, incs, gpw, inTab, 
                              owners, alive, balive, htalive, uaf, flt, 
                              resident, cand, kres, fin, i, op, tmp, tmp2, sz, 
                              bkt, prev, itw, nxw, node, bflag, uniq, aret, dn, 
                              dnx, drh, dkey, dret, gcb, gcrh, gcret, gret, 
                              oldn, oldnx, itn, itx, seen, owned, zi, zj, zlim, 
                              zfree >>

a_dup(self) == /\ pc[self] = "a_dup"
               /\ IF op[self].op = "addu"
                     THEN /\ res' = [res EXCEPT ![self] = dn[self]]
                          /\ pc' = [pc EXCEPT ![self] = "t_ret"]
                          /\ UNCHANGED << oldn, oldnx >>
                     ELSE /\ oldn' = [oldn EXCEPT ![self] = dn[self]]
                          /\ oldnx' = [oldnx EXCEPT ![self] = dnx[self]]
                          /\ pc' = [pc EXCEPT ![self] = "r_loop"]
                          /\ res' = res
               /\ UNCHANGED << mem, sb, lock, acc, pend, cfgs, incs, gpw, 
                               inTab, owners, alive, balive, htalive, uaf, flt, 
                               resident, cand, kres, fin, i, op, tmp, tmp2, sz, 
                               bkt, prev, itw, nxw, node, bflag, uniq, aret, 
                               dn, dnx, drh, dkey, dret, gcb, gcrh, gcret, 
                               gret, itn, itx, seen, owned, zi, zj, zlim, 
                               zfree >>

r_chk(self) == /\ pc[self] = "r_chk"
               /\ node' = [node EXCEPT ![self] = op[self].n]
               /\ oldn' = [oldn EXCEPT ![self] = itn[self]]
               /\ oldnx' = [oldnx EXCEPT ![self] = itx[self]]
               /\ IF itn[self] = NULL
                     THEN /\ res' = [res EXCEPT ![self] = "-ENOENT"]
                          /\ pc' = [pc EXCEPT ![self] = "t_ret"]
                          /\ uaf' = uaf
                     ELSE /\ uaf' = (uaf \/ Dead(itn[self]))
                          /\ IF RH[itn[self]] # RH[op[self].n] \/ NodeKey[itn[self]] # NodeKey[op[self].n]
                                THEN /\ res' = [res EXCEPT ![self] = "-EINVAL"]
                                     /\ pc' = [pc EXCEPT ![self] = "t_ret"]
                                ELSE /\ pc' = [pc EXCEPT ![self] = "r_ldsz"]
                                     /\ res' = res
               /\ UNCHANGED << mem, sb, lock, acc, pend, cfgs, incs, gpw, 
                               inTab, owners, alive, balive, htalive, flt, 
                               resident, cand, kres, fin, i, op, tmp, tmp2, sz, 
                               bkt, prev, itw, nxw, bflag, uniq, aret, dn, dnx, 
                               drh, dkey, dret, gcb, gcrh, gcret, gret, itn, 
                               itx, seen, owned, zi, zj, zlim, zfree >>

r_ldsz(self) == /\ pc[self] = "r_ldsz"
                /\ sz' = [sz EXCEPT ![self] = SzVal[Rd(self, SizeLoc)]]
                /\ acc' = Ev(self, "ld", SizeLoc, "-", "-", Rd(self, SizeLoc))
                /\ uaf' = (uaf \/ ~htalive)
                /\ pc' = [pc EXCEPT ![self] = "r_loop"]
                /\ UNCHANGED << mem, sb, lock, pend, cfgs, incs, gpw, inTab, 
                                owners, alive, balive, htalive, flt, resident, 
                                cand, kres, fin, i, op, res, tmp, tmp2, bkt, 
                                prev, itw, nxw, node, bflag, uniq, aret, dn, 
                                dnx, drh, dkey, dret, gcb, gcrh, gcret, gret, 
                                oldn, oldnx, itn, itx, seen, owned, zi, zj, 
                                zlim, zfree >>

r_loop(self) == /\ pc[self] = "r_loop"
                /\ IF IsRem(oldnx[self])
                      THEN /\ IF op[self].op = "addr"
                                 THEN /\ pc' = [pc EXCEPT ![self] = "a_ldb"]
                                      /\ res' = res
                                 ELSE /\ res' = [res EXCEPT ![self] = "-ENOENT"]
                                      /\ pc' = [pc EXCEPT ![self] = "t_ret"]
                           /\ UNCHANGED << mem, acc, inTab, owners, uaf, 
                                           resident, cand, tmp, oldnx, owned >>
                      ELSE /\ Drained(self)
                           /\ tmp' = [tmp EXCEPT ![self] = mem[(NextOf(oldn[self]))]]
                           /\ IF mem[(NextOf(oldn[self]))] = oldnx[self]
                                 THEN /\ mem' = [mem EXCEPT ![(NextOf(oldn[self]))] = W(node[self], 5),
                                                            ![(NextOf(node[self]))] = oldnx[self]]
                                 ELSE /\ TRUE
                                      /\ mem' = mem
                           /\ acc' = Ev(self, "cas", (NextOf(oldn[self])), oldnx[self], (W(node[self], 5)), tmp'[self])
                           /\ uaf' = (uaf \/ Dead(oldn[self]))
                           /\ IF tmp'[self] = oldnx[self]
                                 THEN /\ inTab' = ((inTab \ {oldn[self]}) \cup {node[self]})
                                      /\ owners' = [owners EXCEPT ![oldn[self]] = owners[oldn[self]] \cup {self}]
                                      /\ owned' = [owned EXCEPT ![self] = Append(owned[self], oldn[self])]
                                      /\ resident' = ResAfterRemove({oldn[self]})
                                      /\ cand' = CandAfterInsert(node[self])
                                      /\ pc' = [pc EXCEPT ![self] = "r_gc"]
                                      /\ oldnx' = oldnx
                                 ELSE /\ oldnx' = [oldnx EXCEPT ![self] = tmp'[self]]
                                      /\ pc' = [pc EXCEPT ![self] = "r_loop"]
                                      /\ UNCHANGED << inTab, owners, resident, 
                                                      cand, owned >>
                           /\ res' = res
                /\ UNCHANGED << sb, lock, pend, cfgs, incs, gpw, alive, balive, 
                                htalive, flt, kres, fin, i, op, tmp2, sz, bkt, 
                                prev, itw, nxw, node, bflag, uniq, aret, dn, 
                                dnx, drh, dkey, dret, gcb, gcrh, gcret, gret, 
                                oldn, itn, itx, seen, zi, zj, zlim, zfree >>

r_gc(self) == /\ pc[self] = "r_gc"
              /\ gcb' = [gcb EXCEPT ![self] = B(NodeHash[oldn[self]] % sz[self])]
              /\ gcrh' = [gcrh EXCEPT ![self] = RH[node[self]]]
              /\ gcret' = [gcret EXCEPT ![self] = "repl"]
              /\ pc' = [pc EXCEPT ![self] = "c_ldb"]
              /\ UNCHANGED << mem, sb, lock, acc, pend, cfgs, incs, gpw, inTab, 
                              owners, alive, balive, htalive, uaf, flt, 
                              resident, cand, kres, fin, i, op, res, tmp, tmp2, 
                              sz, bkt, prev, itw, nxw, node, bflag, uniq, aret, 
                              dn, dnx, drh, dkey, dret, gret, oldn, oldnx, itn, 
                              itx, seen, owned, zi, zj, zlim, zfree >>

r_asrt(self) == /\ pc[self] = "r_asrt"
                /\ tmp' = [tmp EXCEPT ![self] = Rd(self, (NextOf(oldn[self])))]
                /\ acc' = Ev(self, "ld", (NextOf(oldn[self])), "-", "-", Rd(self, (NextOf(oldn[self]))))
                /\ uaf' = (uaf \/ Dead(oldn[self]))
                /\ Assert(IsRem(tmp'[self]), 
                          "Failure of assertion at line 329, column 11.")
                /\ res' = [res EXCEPT ![self] = IF op[self].op = "addr" THEN oldn[self] ELSE "0"]
                /\ pc' = [pc EXCEPT ![self] = "t_ret"]
                /\ UNCHANGED << mem, sb, lock, pend, cfgs, incs, gpw, inTab, 
                                owners, alive, balive, htalive, flt, resident, 
                                cand, kres, fin, i, op, tmp2, sz, bkt, prev, 
                                itw, nxw, node, bflag, uniq, aret, dn, dnx, 
                                drh, dkey, dret, gcb, gcrh, gcret, gret, oldn, 
                                oldnx, itn, itx, seen, owned, zi, zj, zlim, 
                                zfree >>

c_ldb(self) == /\ pc[self] = "c_ldb"
               /\ prev' = [prev EXCEPT ![self] = gcb[self]]
               /\ itw' = [itw EXCEPT ![self] = Rd(self, (NextOf(gcb[self])))]
               /\ acc' = Ev(self, "ld", (NextOf(gcb[self])), "-", "-", Rd(self, (NextOf(gcb[self]))))
               /\ uaf' = (uaf \/ Dead(gcb[self]))
               /\ pc' = [pc EXCEPT ![self] = "c_loop"]
               /\ UNCHANGED << mem, sb, lock, pend, cfgs, incs, gpw, inTab, 
                               owners, alive, balive, htalive, flt, resident, 
                               cand, kres, fin, i, op, res, tmp, tmp2, sz, bkt, 
                               nxw, node, bflag, uniq, aret, dn, dnx, drh, 
                               dkey, dret, gcb, gcrh, gcret, gret, oldn, oldnx, 
                               itn, itx, seen, owned, zi, zj, zlim, zfree >>

c_loop(self) == /\ pc[self] = "c_loop"
                /\ IF P(itw[self]) = NULL
                      THEN /\ pc' = [pc EXCEPT ![self] = "c_ret"]
                           /\ UNCHANGED << acc, uaf, prev, itw, nxw >>
                      ELSE /\ IF RH[P(itw[self])] > gcrh[self]
                                 THEN /\ uaf' = (uaf \/ Dead(P(itw[self])))
                                      /\ pc' = [pc EXCEPT ![self] = "c_ret"]
                                      /\ UNCHANGED << acc, prev, itw, nxw >>
                                 ELSE /\ nxw' = [nxw EXCEPT ![self] = Rd(self, (NextOf(P(itw[self]))))]
                                      /\ acc' = Ev(self, "ld", (NextOf(P(itw[self]))), "-", "-", Rd(self, (NextOf(P(itw[self])))))
                                      /\ uaf' = (uaf \/ Dead(P(itw[self])))
                                      /\ IF IsRem(nxw'[self])
                                            THEN /\ pc' = [pc EXCEPT ![self] = "c_cas"]
                                                 /\ UNCHANGED << prev, itw >>
                                            ELSE /\ prev' = [prev EXCEPT ![self] = P(itw[self])]
                                                 /\ itw' = [itw EXCEPT ![self] = nxw'[self]]
                                                 /\ pc' = [pc EXCEPT ![self] = "c_loop"]
                /\ UNCHANGED << mem, sb, lock, pend, cfgs, incs, gpw, inTab, 
                                owners, alive, balive, htalive, flt, resident, 
                                cand, kres, fin, i, op, res, tmp, tmp2, sz, 
                                bkt, node, bflag, uniq, aret, dn, dnx, drh, 
                                dkey, dret, gcb, gcrh, gcret, gret, oldn, 
                                oldnx, itn, itx, seen, owned, zi, zj, zlim, 
                                zfree >>

c_cas(self) == /\ pc[self] = "c_cas"
               /\ Drained(self)
               /\ tmp' = [tmp EXCEPT ![self] = mem[(NextOf(prev[self]))]]
               /\ IF mem[(NextOf(prev[self]))] = itw[self]
                     THEN /\ mem' = [mem EXCEPT ![(NextOf(prev[self]))] = W(P(nxw[self]), BF(itw[self]))]
                     ELSE /\ TRUE
                          /\ mem' = mem
               /\ acc' = Ev(self, "cas", (NextOf(prev[self])), itw[self], (W(P(nxw[self]), BF(itw[self]))), tmp'[self])
               /\ uaf' = (uaf \/ Dead(prev[self]))
               /\ IF "gc_norestart" \in Mut
                     THEN /\ itw' = [itw EXCEPT ![self] = W(P(nxw[self]), BF(itw[self]))]
                          /\ pc' = [pc EXCEPT ![self] = "c_loop"]
                     ELSE /\ pc' = [pc EXCEPT ![self] = "c_ldb"]
                          /\ itw' = itw
               /\ UNCHANGED << sb, lock, pend, cfgs, incs, gpw, inTab, owners, 
                               alive, balive, htalive, flt, resident, cand, 
                               kres, fin, i, op, res, tmp2, sz, bkt, prev, nxw, 
                               node, bflag, uniq, aret, dn, dnx, drh, dkey, 
                               dret, gcb, gcrh, gcret, gret, oldn, oldnx, itn, 
                               itx, seen, owned, zi, zj, zlim, zfree >>

c_ret(self) == /\ pc[self] = "c_ret"
               /\ IF gcret[self] = "del"
                     THEN /\ pc' = [pc EXCEPT ![self] = "d_asrt"]
                     ELSE /\ IF gcret[self] = "repl"
                                THEN /\ pc' = [pc EXCEPT ![self] = "r_asrt"]
                                ELSE /\ pc' = [pc EXCEPT ![self] = "zr_next"]
               /\ UNCHANGED << mem, sb, lock, acc, pend, cfgs, incs, gpw, 
                               inTab, owners, alive, balive, htalive, uaf, flt, 
                               resident, cand, kres, fin, i, op, res, tmp, 
                               tmp2, sz, bkt, prev, itw, nxw, node, bflag, 
                               uniq, aret, dn, dnx, drh, dkey, dret, gcb, gcrh, 
                               gcret, gret, oldn, oldnx, itn, itx, seen, owned, 
                               zi, zj, zlim, zfree >>

d_ldsz(self) == /\ pc[self] = "d_ldsz"
                /\ sz' = [sz EXCEPT ![self] = SzVal[Rd(self, SizeLoc)]]
                /\ acc' = Ev(self, "ld", SizeLoc, "-", "-", Rd(self, SizeLoc))
                /\ uaf' = (uaf \/ ~htalive)
                /\ node' = [node EXCEPT ![self] = pend[self].n]
                /\ IF pend[self].n = NULL
                      THEN /\ res' = [res EXCEPT ![self] = "-ENOENT"]
                           /\ pc' = [pc EXCEPT ![self] = "t_ret"]
                      ELSE /\ pc' = [pc EXCEPT ![self] = "d_ld1"]
                           /\ res' = res
                /\ UNCHANGED << mem, sb, lock, pend, cfgs, incs, gpw, inTab, 
                                owners, alive, balive, htalive, flt, resident, 
                                cand, kres, fin, i, op, tmp, tmp2, bkt, prev, 
                                itw, nxw, bflag, uniq, aret, dn, dnx, drh, 
                                dkey, dret, gcb, gcrh, gcret, gret, oldn, 
                                oldnx, itn, itx, seen, owned, zi, zj, zlim, 
                                zfree >>

d_ld1(self) == /\ pc[self] = "d_ld1"
               /\ tmp' = [tmp EXCEPT ![self] = Rd(self, (NextOf(node[self])))]
               /\ acc' = Ev(self, "ld", (NextOf(node[self])), "-", "-", Rd(self, (NextOf(node[self]))))
               /\ uaf' = (uaf \/ Dead(node[self]))
               /\ IF IsRem(tmp'[self])
                     THEN /\ res' = [res EXCEPT ![self] = "-ENOENT"]
                          /\ pc' = [pc EXCEPT ![self] = "t_ret"]
                     ELSE /\ pc' = [pc EXCEPT ![self] = "d_or"]
                          /\ res' = res
               /\ UNCHANGED << mem, sb, lock, pend, cfgs, incs, gpw, inTab, 
                               owners, alive, balive, htalive, flt, resident, 
                               cand, kres, fin, i, op, tmp2, sz, bkt, prev, 
                               itw, nxw, node, bflag, uniq, aret, dn, dnx, drh, 
                               dkey, dret, gcb, gcrh, gcret, gret, oldn, oldnx, 
                               itn, itx, seen, owned, zi, zj, zlim, zfree >>

d_or(self) == /\ pc[self] = "d_or"
              /\ Drained(self)
              /\ tmp' = [tmp EXCEPT ![self] = mem[(NextOf(node[self]))]]
              /\ mem' = [mem EXCEPT ![(NextOf(node[self]))] = WOr(mem[(NextOf(node[self]))], 1)]
              /\ acc' = Ev(self, "or", (NextOf(node[self])), ToString(1), "-", WOr(tmp'[self], 1))
              /\ uaf' = (uaf \/ Dead(node[self]))
              /\ IF ~IsRem(tmp'[self])
                    THEN /\ inTab' = inTab \ {node[self]}
                         /\ resident' = ResAfterRemove({node[self]})
                         /\ kres' = KresAfter(inTab' \ {node[self]})
                    ELSE /\ TRUE
                         /\ UNCHANGED << inTab, resident, kres >>
              /\ gcb' = [gcb EXCEPT ![self] = B(NodeHash[node[self]] % sz[self])]
              /\ gcrh' = [gcrh EXCEPT ![self] = RH[node[self]]]
              /\ gcret' = [gcret EXCEPT ![self] = "del"]
              /\ pc' = [pc EXCEPT ![self] = "c_ldb"]
              /\ UNCHANGED << sb, lock, pend, cfgs, incs, gpw, owners, alive, 
                              balive, htalive, flt, cand, fin, i, op, res, 
                              tmp2, sz, bkt, prev, itw, nxw, node, bflag, uniq, 
                              aret, dn, dnx, drh, dkey, dret, gret, oldn, 
                              oldnx, itn, itx, seen, owned, zi, zj, zlim, 
                              zfree >>

d_asrt(self) == /\ pc[self] = "d_asrt"
                /\ tmp' = [tmp EXCEPT ![self] = Rd(self, (NextOf(node[self])))]
                /\ acc' = Ev(self, "ld", (NextOf(node[self])), "-", "-", Rd(self, (NextOf(node[self]))))
                /\ uaf' = (uaf \/ Dead(node[self]))
                /\ Assert(IsRem(tmp'[self]), 
                          "Failure of assertion at line 367, column 11.")
                /\ pc' = [pc EXCEPT ![self] = "d_ld2"]
                /\ UNCHANGED << mem, sb, lock, pend, cfgs, incs, gpw, inTab, 
                                owners, alive, balive, htalive, flt, resident, 
                                cand, kres, fin, i, op, res, tmp2, sz, bkt, 
                                prev, itw, nxw, node, bflag, uniq, aret, dn, 
                                dnx, drh, dkey, dret, gcb, gcrh, gcret, gret, 
                                oldn, oldnx, itn, itx, seen, owned, zi, zj, 
                                zlim, zfree >>

d_ld2(self) == /\ pc[self] = "d_ld2"
               /\ tmp' = [tmp EXCEPT ![self] = Rd(self, (NextOf(node[self])))]
               /\ acc' = Ev(self, "ld", (NextOf(node[self])), "-", "-", Rd(self, (NextOf(node[self]))))
               /\ uaf' = (uaf \/ Dead(node[self]))
               /\ pc' = [pc EXCEPT ![self] = "d_xchg"]
               /\ UNCHANGED << mem, sb, lock, pend, cfgs, incs, gpw, inTab, 
                               owners, alive, balive, htalive, flt, resident, 
                               cand, kres, fin, i, op, res, tmp2, sz, bkt, 
                               prev, itw, nxw, node, bflag, uniq, aret, dn, 
                               dnx, drh, dkey, dret, gcb, gcrh, gcret, gret, 
                               oldn, oldnx, itn, itx, seen, owned, zi, zj, 
                               zlim, zfree >>

d_xchg(self) == /\ pc[self] = "d_xchg"
                /\ IF "owner_or" \in Mut
                      THEN /\ Drained(self)
                           /\ tmp2' = [tmp2 EXCEPT ![self] = mem[(NextOf(node[self]))]]
                           /\ mem' = [mem EXCEPT ![(NextOf(node[self]))] = WOr(mem[(NextOf(node[self]))], 4)]
                           /\ acc' = Ev(self, "or", (NextOf(node[self])), ToString(4), "-", WOr(tmp2'[self], 4))
                      ELSE /\ Drained(self)
                           /\ tmp2' = [tmp2 EXCEPT ![self] = mem[(NextOf(node[self]))]]
                           /\ mem' = [mem EXCEPT ![(NextOf(node[self]))] = WOr(tmp[self], 4)]
                           /\ acc' = Ev(self, "xchg", (NextOf(node[self])), (WOr(tmp[self], 4)), "-", tmp2'[self])
                /\ uaf' = (uaf \/ Dead(node[self]))
                /\ IF "owner_or" \in Mut \/ ~IsOwn(tmp2'[self])
                      THEN /\ owners' = [owners EXCEPT ![node[self]] = owners[node[self]] \cup {self}]
                           /\ owned' = [owned EXCEPT ![self] = Append(owned[self], node[self])]
                           /\ res' = [res EXCEPT ![self] = "0"]
                      ELSE /\ res' = [res EXCEPT ![self] = "-ENOENT"]
                           /\ UNCHANGED << owners, owned >>
                /\ pc' = [pc EXCEPT ![self] = "t_ret"]
                /\ UNCHANGED << sb, lock, pend, cfgs, incs, gpw, inTab, alive, 
                                balive, htalive, flt, resident, cand, kres, 
                                fin, i, op, tmp, sz, bkt, prev, itw, nxw, node, 
                                bflag, uniq, aret, dn, dnx, drh, dkey, dret, 
                                gcb, gcrh, gcret, gret, oldn, oldnx, itn, itx, 
                                seen, zi, zj, zlim, zfree >>

l_ldsz(self) == /\ pc[self] = "l_ldsz"
                /\ sz' = [sz EXCEPT ![self] = SzVal[Rd(self, SizeLoc)]]
                /\ acc' = Ev(self, "ld", SizeLoc, "-", "-", Rd(self, SizeLoc))
                /\ uaf' = (uaf \/ ~htalive)
                /\ bkt' = [bkt EXCEPT ![self] = B(op[self].h % sz'[self])]
                /\ drh' = [drh EXCEPT ![self] = Rev[op[self].h]]
                /\ dkey' = [dkey EXCEPT ![self] = op[self].k]
                /\ dret' = [dret EXCEPT ![self] = op[self].op]
                /\ pc' = [pc EXCEPT ![self] = "l_ldb"]
                /\ UNCHANGED << mem, sb, lock, pend, cfgs, incs, gpw, inTab, 
                                owners, alive, balive, htalive, flt, resident, 
                                cand, kres, fin, i, op, res, tmp, tmp2, prev, 
                                itw, nxw, node, bflag, uniq, aret, dn, dnx, 
                                gcb, gcrh, gcret, gret, oldn, oldnx, itn, itx, 
                                seen, owned, zi, zj, zlim, zfree >>

l_ldb(self) == /\ pc[self] = "l_ldb"
               /\ tmp' = [tmp EXCEPT ![self] = Rd(self, (NextOf(bkt[self])))]
               /\ acc' = Ev(self, "ld", (NextOf(bkt[self])), "-", "-", Rd(self, (NextOf(bkt[self]))))
               /\ uaf' = (uaf \/ Dead(bkt[self]))
               /\ dn' = [dn EXCEPT ![self] = P(tmp'[self])]
               /\ pc' = [pc EXCEPT ![self] = "l_loop"]
               /\ UNCHANGED << mem, sb, lock, pend, cfgs, incs, gpw, inTab, 
                               owners, alive, balive, htalive, flt, resident, 
                               cand, kres, fin, i, op, res, tmp2, sz, bkt, 
                               prev, itw, nxw, node, bflag, uniq, aret, dnx, 
                               drh, dkey, dret, gcb, gcrh, gcret, gret, oldn, 
                               oldnx, itn, itx, seen, owned, zi, zj, zlim, 
                               zfree >>

l_loop(self) == /\ pc[self] = "l_loop"
                /\ IF dn[self] = NULL
                      THEN /\ pc' = [pc EXCEPT ![self] = "q_none"]
                           /\ UNCHANGED << acc, uaf, dn, dnx >>
                      ELSE /\ IF RH[dn[self]] > drh[self]
                                 THEN /\ uaf' = (uaf \/ Dead(dn[self]))
                                      /\ pc' = [pc EXCEPT ![self] = "q_none"]
                                      /\ UNCHANGED << acc, dn, dnx >>
                                 ELSE /\ dnx' = [dnx EXCEPT ![self] = Rd(self, (NextOf(dn[self])))]
                                      /\ acc' = Ev(self, "ld", (NextOf(dn[self])), "-", "-", Rd(self, (NextOf(dn[self]))))
                                      /\ uaf' = (uaf \/ Dead(dn[self]))
                                      /\ IF ("lookup_keeps_removed" \in Mut \/ ~IsRem(dnx'[self])) /\ ~IsBkt(dnx'[self]) /\ RH[dn[self]] = drh[self] /\ NodeKey[dn[self]] = dkey[self]
                                            THEN /\ pc' = [pc EXCEPT ![self] = "l_asrt"]
                                                 /\ dn' = dn
                                            ELSE /\ dn' = [dn EXCEPT ![self] = P(dnx'[self])]
                                                 /\ pc' = [pc EXCEPT ![self] = "l_loop"]
                /\ UNCHANGED << mem, sb, lock, pend, cfgs, incs, gpw, inTab, 
                                owners, alive, balive, htalive, flt, resident, 
                                cand, kres, fin, i, op, res, tmp, tmp2, sz, 
                                bkt, prev, itw, nxw, node, bflag, uniq, aret, 
                                drh, dkey, dret, gcb, gcrh, gcret, gret, oldn, 
                                oldnx, itn, itx, seen, owned, zi, zj, zlim, 
                                zfree >>

l_asrt(self) == /\ pc[self] = "l_asrt"
                /\ tmp' = [tmp EXCEPT ![self] = Rd(self, (NextOf(dn[self])))]
                /\ acc' = Ev(self, "ld", (NextOf(dn[self])), "-", "-", Rd(self, (NextOf(dn[self]))))
                /\ uaf' = (uaf \/ Dead(dn[self]))
                /\ itn' = [itn EXCEPT ![self] = dn[self]]
                /\ itx' = [itx EXCEPT ![self] = dnx[self]]
                /\ IF op[self].op = "lookup"
                      THEN /\ res' = [res EXCEPT ![self] = dn[self]]
                           /\ pc' = [pc EXCEPT ![self] = "t_ret"]
                           /\ UNCHANGED << dn, seen >>
                      ELSE /\ seen' = [seen EXCEPT ![self] = Append(seen[self], dn[self])]
                           /\ dn' = [dn EXCEPT ![self] = P(dnx[self])]
                           /\ pc' = [pc EXCEPT ![self] = "n_loop"]
                           /\ res' = res
                /\ UNCHANGED << mem, sb, lock, pend, cfgs, incs, gpw, inTab, 
                                owners, alive, balive, htalive, flt, resident, 
                                cand, kres, fin, i, op, tmp2, sz, bkt, prev, 
                                itw, nxw, node, bflag, uniq, aret, dnx, drh, 
                                dkey, dret, gcb, gcrh, gcret, gret, oldn, 
                                oldnx, owned, zi, zj, zlim, zfree >>

n_loop(self) == /\ pc[self] = "n_loop"
                /\ IF dn[self] = NULL
                      THEN /\ pc' = [pc EXCEPT ![self] = "q_none"]
                           /\ UNCHANGED << acc, uaf, dn, dnx >>
                      ELSE /\ IF RH[dn[self]] > drh[self]
                                 THEN /\ uaf' = (uaf \/ Dead(dn[self]))
                                      /\ pc' = [pc EXCEPT ![self] = "q_none"]
                                      /\ UNCHANGED << acc, dn, dnx >>
                                 ELSE /\ dnx' = [dnx EXCEPT ![self] = Rd(self, (NextOf(dn[self])))]
                                      /\ acc' = Ev(self, "ld", (NextOf(dn[self])), "-", "-", Rd(self, (NextOf(dn[self]))))
                                      /\ uaf' = (uaf \/ Dead(dn[self]))
                                      /\ IF ~IsRem(dnx'[self]) /\ ~IsBkt(dnx'[self]) /\ NodeKey[dn[self]] = dkey[self]
                                            THEN /\ pc' = [pc EXCEPT ![self] = "n_asrt"]
                                                 /\ dn' = dn
                                            ELSE /\ dn' = [dn EXCEPT ![self] = P(dnx'[self])]
                                                 /\ pc' = [pc EXCEPT ![self] = "n_loop"]
                /\ UNCHANGED << mem, sb, lock, pend, cfgs, incs, gpw, inTab, 
                                owners, alive, balive, htalive, flt, resident, 
                                cand, kres, fin, i, op, res, tmp, tmp2, sz, 
                                bkt, prev, itw, nxw, node, bflag, uniq, aret, 
                                drh, dkey, dret, gcb, gcrh, gcret, gret, oldn, 
                                oldnx, itn, itx, seen, owned, zi, zj, zlim, 
                                zfree >>

n_asrt(self) == /\ pc[self] = "n_asrt"
                /\ tmp' = [tmp EXCEPT ![self] = Rd(self, (NextOf(dn[self])))]
                /\ acc' = Ev(self, "ld", (NextOf(dn[self])), "-", "-", Rd(self, (NextOf(dn[self]))))
                /\ uaf' = (uaf \/ Dead(dn[self]))
                /\ IF dret[self] = "add"
                      THEN /\ pc' = [pc EXCEPT ![self] = "a_dup"]
                           /\ UNCHANGED << dn, itn, itx, seen >>
                      ELSE /\ itn' = [itn EXCEPT ![self] = dn[self]]
                           /\ itx' = [itx EXCEPT ![self] = dnx[self]]
                           /\ seen' = [seen EXCEPT ![self] = Append(seen[self], dn[self])]
                           /\ dn' = [dn EXCEPT ![self] = P(dnx[self])]
                           /\ pc' = [pc EXCEPT ![self] = "n_loop"]
                /\ UNCHANGED << mem, sb, lock, pend, cfgs, incs, gpw, inTab, 
                                owners, alive, balive, htalive, flt, resident, 
                                cand, kres, fin, i, op, res, tmp2, sz, bkt, 
                                prev, itw, nxw, node, bflag, uniq, aret, dnx, 
                                drh, dkey, dret, gcb, gcrh, gcret, gret, oldn, 
                                oldnx, owned, zi, zj, zlim, zfree >>

q_none(self) == /\ pc[self] = "q_none"
                /\ IF dret[self] = "add"
                      THEN /\ IF "uniq_tail" \in Mut
                                 THEN /\ prev' = [prev EXCEPT ![self] = P(itw[self])]
                                      /\ itw' = [itw EXCEPT ![self] = nxw[self]]
                                      /\ pc' = [pc EXCEPT ![self] = "a_loop"]
                                 ELSE /\ pc' = [pc EXCEPT ![self] = "a_ins"]
                                      /\ UNCHANGED << prev, itw >>
                           /\ UNCHANGED << res, itn, itx >>
                      ELSE /\ itn' = [itn EXCEPT ![self] = NULL]
                           /\ itx' = [itx EXCEPT ![self] = NULLW]
                           /\ res' = [res EXCEPT ![self] = IF op[self].op = "lookup" THEN NULL ELSE Join(seen[self])]
                           /\ pc' = [pc EXCEPT ![self] = "t_ret"]
                           /\ UNCHANGED << prev, itw >>
                /\ UNCHANGED << mem, sb, lock, acc, pend, cfgs, incs, gpw, 
                                inTab, owners, alive, balive, htalive, uaf, 
                                flt, resident, cand, kres, fin, i, op, tmp, 
                                tmp2, sz, bkt, nxw, node, bflag, uniq, aret, 
                                dn, dnx, drh, dkey, dret, gcb, gcrh, gcret, 
                                gret, oldn, oldnx, seen, owned, zi, zj, zlim, 
                                zfree >>

f_ldb(self) == /\ pc[self] = "f_ldb"
               /\ itx' = [itx EXCEPT ![self] = Rd(self, (NextOf(B(0))))]
               /\ acc' = Ev(self, "ld", (NextOf(B(0))), "-", "-", Rd(self, (NextOf(B(0)))))
               /\ uaf' = (uaf \/ Dead(B(0)) \/ ~htalive)
               /\ dn' = [dn EXCEPT ![self] = P(itx'[self])]
               /\ pc' = [pc EXCEPT ![self] = "v_loop"]
               /\ UNCHANGED << mem, sb, lock, pend, cfgs, incs, gpw, inTab, 
                               owners, alive, balive, htalive, flt, resident, 
                               cand, kres, fin, i, op, res, tmp, tmp2, sz, bkt, 
                               prev, itw, nxw, node, bflag, uniq, aret, dnx, 
                               drh, dkey, dret, gcb, gcrh, gcret, gret, oldn, 
                               oldnx, itn, seen, owned, zi, zj, zlim, zfree >>

v_loop(self) == /\ pc[self] = "v_loop"
                /\ IF dn[self] = NULL
                      THEN /\ itn' = [itn EXCEPT ![self] = NULL]
                           /\ itx' = [itx EXCEPT ![self] = NULLW]
                           /\ res' = [res EXCEPT ![self] = Join(seen[self])]
                           /\ pc' = [pc EXCEPT ![self] = "t_ret"]
                           /\ UNCHANGED << acc, uaf, dn, dnx >>
                      ELSE /\ dnx' = [dnx EXCEPT ![self] = Rd(self, (NextOf(dn[self])))]
                           /\ acc' = Ev(self, "ld", (NextOf(dn[self])), "-", "-", Rd(self, (NextOf(dn[self]))))
                           /\ uaf' = (uaf \/ Dead(dn[self]))
                           /\ IF ~IsRem(dnx'[self]) /\ ~IsBkt(dnx'[self])
                                 THEN /\ pc' = [pc EXCEPT ![self] = "v_asrt"]
                                      /\ dn' = dn
                                 ELSE /\ dn' = [dn EXCEPT ![self] = P(dnx'[self])]
                                      /\ pc' = [pc EXCEPT ![self] = "v_loop"]
                           /\ UNCHANGED << res, itn, itx >>
                /\ UNCHANGED << mem, sb, lock, pend, cfgs, incs, gpw, inTab, 
                                owners, alive, balive, htalive, flt, resident, 
                                cand, kres, fin, i, op, tmp, tmp2, sz, bkt, 
                                prev, itw, nxw, node, bflag, uniq, aret, drh, 
                                dkey, dret, gcb, gcrh, gcret, gret, oldn, 
                                oldnx, seen, owned, zi, zj, zlim, zfree >>

v_asrt(self) == /\ pc[self] = "v_asrt"
                /\ tmp' = [tmp EXCEPT ![self] = Rd(self, (NextOf(dn[self])))]
                /\ acc' = Ev(self, "ld", (NextOf(dn[self])), "-", "-", Rd(self, (NextOf(dn[self]))))
                /\ uaf' = (uaf \/ Dead(dn[self]))
                /\ itn' = [itn EXCEPT ![self] = dn[self]]
                /\ itx' = [itx EXCEPT ![self] = dnx[self]]
                /\ seen' = [seen EXCEPT ![self] = Append(seen[self], dn[self])]
                /\ dn' = [dn EXCEPT ![self] = P(dnx[self])]
                /\ pc' = [pc EXCEPT ![self] = "v_loop"]
                /\ UNCHANGED << mem, sb, lock, pend, cfgs, incs, gpw, inTab, 
                                owners, alive, balive, htalive, flt, resident, 
                                cand, kres, fin, i, op, res, tmp2, sz, bkt, 
                                prev, itw, nxw, node, bflag, uniq, aret, dnx, 
                                drh, dkey, dret, gcb, gcrh, gcret, gret, oldn, 
                                oldnx, owned, zi, zj, zlim, zfree >>

g_mb(self) == /\ pc[self] = "g_mb"
              /\ Drained(self)
              /\ acc' = Ev(self, "mb", "-", "-", "-", "-")
              /\ gpw' = [gpw EXCEPT ![self] = InCs \ {self}]
              /\ pc' = [pc EXCEPT ![self] = "g_end"]
              /\ UNCHANGED << mem, sb, lock, pend, cfgs, incs, inTab, owners, 
                              alive, balive, htalive, uaf, flt, resident, cand, 
                              kres, fin, i, op, res, tmp, tmp2, sz, bkt, prev, 
                              itw, nxw, node, bflag, uniq, aret, dn, dnx, drh, 
                              dkey, dret, gcb, gcrh, gcret, gret, oldn, oldnx, 
                              itn, itx, seen, owned, zi, zj, zlim, zfree >>

g_end(self) == /\ pc[self] = "g_end"
               /\ Drained(self) /\ gpw[self] = {}
               /\ acc' = Ev(self, "gp_end", "-", "-", "-", "-")
               /\ IF gret[self] = "reclaim"
                     THEN /\ IF owned[self] = <<>>
                                THEN /\ res' = [res EXCEPT ![self] = "ok"]
                                     /\ pc' = [pc EXCEPT ![self] = "t_ret"]
                                ELSE /\ pc' = [pc EXCEPT ![self] = "g_free"]
                                     /\ res' = res
                     ELSE /\ IF gret[self] = "fini1"
                                THEN /\ pc' = [pc EXCEPT ![self] = "zf_free1"]
                                ELSE /\ pc' = [pc EXCEPT ![self] = "zf_free2"]
                          /\ res' = res
               /\ UNCHANGED << mem, sb, lock, pend, cfgs, incs, gpw, inTab, 
                               owners, alive, balive, htalive, uaf, flt, 
                               resident, cand, kres, fin, i, op, tmp, tmp2, sz, 
                               bkt, prev, itw, nxw, node, bflag, uniq, aret, 
                               dn, dnx, drh, dkey, dret, gcb, gcrh, gcret, 
                               gret, oldn, oldnx, itn, itx, seen, owned, zi, 
                               zj, zlim, zfree >>

g_free(self) == /\ pc[self] = "g_free"
                /\ alive' = [alive EXCEPT ![Head(owned[self])] = FALSE]
                /\ owned' = [owned EXCEPT ![self] = Tail(owned[self])]
                /\ IF owned'[self] # <<>>
                      THEN /\ pc' = [pc EXCEPT ![self] = "g_free"]
                           /\ res' = res
                      ELSE /\ res' = [res EXCEPT ![self] = "ok"]
                           /\ pc' = [pc EXCEPT ![self] = "t_ret"]
                /\ UNCHANGED << mem, sb, lock, acc, pend, cfgs, incs, gpw, 
                                inTab, owners, balive, htalive, uaf, flt, 
                                resident, cand, kres, fin, i, op, tmp, tmp2, 
                                sz, bkt, prev, itw, nxw, node, bflag, uniq, 
                                aret, dn, dnx, drh, dkey, dret, gcb, gcrh, 
                                gcret, gret, oldn, oldnx, itn, itx, seen, zi, 
                                zj, zlim, zfree >>

z_tgt(self) == /\ pc[self] = "z_tgt"
               /\ IF TSO
                     THEN /\ sb' = [sb EXCEPT ![self] = Append(sb[self], <<TargetLoc, (SzStr[ClampSize(op[self].size)])>>)]
                          /\ mem' = mem
                     ELSE /\ mem' = [mem EXCEPT ![TargetLoc] = SzStr[ClampSize(op[self].size)]]
                          /\ sb' = sb
               /\ acc' = Ev(self, "st", TargetLoc, (SzStr[ClampSize(op[self].size)]), "-", "-")
               /\ pc' = [pc EXCEPT ![self] = "z_ini"]
               /\ UNCHANGED << lock, pend, cfgs, incs, gpw, inTab, owners, 
                               alive, balive, htalive, uaf, flt, resident, 
                               cand, kres, fin, i, op, res, tmp, tmp2, sz, bkt, 
                               prev, itw, nxw, node, bflag, uniq, aret, dn, 
                               dnx, drh, dkey, dret, gcb, gcrh, gcret, gret, 
                               oldn, oldnx, itn, itx, seen, owned, zi, zj, 
                               zlim, zfree >>

z_ini(self) == /\ pc[self] = "z_ini"
               /\ IF TSO
                     THEN /\ sb' = [sb EXCEPT ![self] = Append(sb[self], <<InitdLoc, "1">>)]
                          /\ mem' = mem
                     ELSE /\ mem' = [mem EXCEPT ![InitdLoc] = "1"]
                          /\ sb' = sb
               /\ acc' = Ev(self, "st", InitdLoc, "1", "-", "-")
               /\ pc' = [pc EXCEPT ![self] = "z_lock"]
               /\ UNCHANGED << lock, pend, cfgs, incs, gpw, inTab, owners, 
                               alive, balive, htalive, uaf, flt, resident, 
                               cand, kres, fin, i, op, res, tmp, tmp2, sz, bkt, 
                               prev, itw, nxw, node, bflag, uniq, aret, dn, 
                               dnx, drh, dkey, dret, gcb, gcrh, gcret, gret, 
                               oldn, oldnx, itn, itx, seen, owned, zi, zj, 
                               zlim, zfree >>

z_lock(self) == /\ pc[self] = "z_lock"
                /\ Drained(self) /\ lock = "free"
                /\ lock' = self
                /\ acc' = Ev(self, "lock", MutexName, "-", "-", "-")
                /\ pc' = [pc EXCEPT ![self] = "z_ipd"]
                /\ UNCHANGED << mem, sb, pend, cfgs, incs, gpw, inTab, owners, 
                                alive, balive, htalive, uaf, flt, resident, 
                                cand, kres, fin, i, op, res, tmp, tmp2, sz, 
                                bkt, prev, itw, nxw, node, bflag, uniq, aret, 
                                dn, dnx, drh, dkey, dret, gcb, gcrh, gcret, 
                                gret, oldn, oldnx, itn, itx, seen, owned, zi, 
                                zj, zlim, zfree >>

z_ipd(self) == /\ pc[self] = "z_ipd"
               /\ tmp' = [tmp EXCEPT ![self] = Rd(self, IpdLoc)]
               /\ acc' = Ev(self, "ld", IpdLoc, "-", "-", Rd(self, IpdLoc))
               /\ uaf' = (uaf \/ ~htalive)
               /\ IF tmp'[self] # "0"
                     THEN /\ pc' = [pc EXCEPT ![self] = "z_unlock"]
                     ELSE /\ pc' = [pc EXCEPT ![self] = "z_ini2"]
               /\ UNCHANGED << mem, sb, lock, pend, cfgs, incs, gpw, inTab, 
                               owners, alive, balive, htalive, flt, resident, 
                               cand, kres, fin, i, op, res, tmp2, sz, bkt, 
                               prev, itw, nxw, node, bflag, uniq, aret, dn, 
                               dnx, drh, dkey, dret, gcb, gcrh, gcret, gret, 
                               oldn, oldnx, itn, itx, seen, owned, zi, zj, 
                               zlim, zfree >>

z_ini2(self) == /\ pc[self] = "z_ini2"
                /\ IF TSO
                      THEN /\ sb' = [sb EXCEPT ![self] = Append(sb[self], <<InitdLoc, "1">>)]
                           /\ mem' = mem
                      ELSE /\ mem' = [mem EXCEPT ![InitdLoc] = "1"]
                           /\ sb' = sb
                /\ acc' = Ev(self, "st", InitdLoc, "1", "-", "-")
                /\ pc' = [pc EXCEPT ![self] = "z_ldt"]
                /\ UNCHANGED << lock, pend, cfgs, incs, gpw, inTab, owners, 
                                alive, balive, htalive, uaf, flt, resident, 
                                cand, kres, fin, i, op, res, tmp, tmp2, sz, 
                                bkt, prev, itw, nxw, node, bflag, uniq, aret, 
                                dn, dnx, drh, dkey, dret, gcb, gcrh, gcret, 
                                gret, oldn, oldnx, itn, itx, seen, owned, zi, 
                                zj, zlim, zfree >>

z_ldt(self) == /\ pc[self] = "z_ldt"
               /\ tmp' = [tmp EXCEPT ![self] = Rd(self, TargetLoc)]
               /\ acc' = Ev(self, "ld", TargetLoc, "-", "-", Rd(self, TargetLoc))
               /\ IF SzVal[Rd(self, SizeLoc)] < SzVal[tmp'[self]]
                     THEN /\ zi' = [zi EXCEPT ![self] = Log2(SzVal[Rd(self, SizeLoc)]) + 1]
                          /\ zlim' = [zlim EXCEPT ![self] = Log2(SzVal[tmp'[self]])]
                          /\ pc' = [pc EXCEPT ![self] = "zi_ldt"]
                          /\ zfree' = zfree
                     ELSE /\ IF SzVal[Rd(self, SizeLoc)] > SzVal[tmp'[self]]
                                THEN /\ zi' = [zi EXCEPT ![self] = Log2(SzVal[Rd(self, SizeLoc)])]
                                     /\ zlim' = [zlim EXCEPT ![self] = Log2(SzVal[tmp'[self]]) + 1]
                                     /\ zfree' = [zfree EXCEPT ![self] = 0]
                                     /\ pc' = [pc EXCEPT ![self] = "zf_ldt"]
                                ELSE /\ pc' = [pc EXCEPT ![self] = "z_ini0"]
                                     /\ UNCHANGED << zi, zlim, zfree >>
               /\ UNCHANGED << mem, sb, lock, pend, cfgs, incs, gpw, inTab, 
                               owners, alive, balive, htalive, uaf, flt, 
                               resident, cand, kres, fin, i, op, res, tmp2, sz, 
                               bkt, prev, itw, nxw, node, bflag, uniq, aret, 
                               dn, dnx, drh, dkey, dret, gcb, gcrh, gcret, 
                               gret, oldn, oldnx, itn, itx, seen, owned, zj >>

zi_ldt(self) == /\ pc[self] = "zi_ldt"
                /\ IF zi[self] > zlim[self]
                      THEN /\ pc' = [pc EXCEPT ![self] = "z_ini0"]
                           /\ UNCHANGED << acc, tmp >>
                      ELSE /\ tmp' = [tmp EXCEPT ![self] = Rd(self, TargetLoc)]
                           /\ acc' = Ev(self, "ld", TargetLoc, "-", "-", Rd(self, TargetLoc))
                           /\ IF SzVal[tmp'[self]] < 2^zi[self]
                                 THEN /\ pc' = [pc EXCEPT ![self] = "z_ini0"]
                                 ELSE /\ pc' = [pc EXCEPT ![self] = "zi_alloc"]
                /\ UNCHANGED << mem, sb, lock, pend, cfgs, incs, gpw, inTab, 
                                owners, alive, balive, htalive, uaf, flt, 
                                resident, cand, kres, fin, i, op, res, tmp2, 
                                sz, bkt, prev, itw, nxw, node, bflag, uniq, 
                                aret, dn, dnx, drh, dkey, dret, gcb, gcrh, 
                                gcret, gret, oldn, oldnx, itn, itx, seen, 
                                owned, zi, zj, zlim, zfree >>

zi_alloc(self) == /\ pc[self] = "zi_alloc"
                  /\ balive' = [balive EXCEPT ![zi[self]] = TRUE]
                  /\ mem' = [l \in Locs |-> IF l \in {NextOf(b) : b \in BucketsOfOrder(zi[self])} THEN NULLW ELSE mem[l]]
                  /\ IF "size_early" \in Mut
                        THEN /\ pc' = [pc EXCEPT ![self] = "zi_size"]
                        ELSE /\ pc' = [pc EXCEPT ![self] = "zi_pop"]
                  /\ UNCHANGED << sb, lock, acc, pend, cfgs, incs, gpw, inTab, 
                                  owners, alive, htalive, uaf, flt, resident, 
                                  cand, kres, fin, i, op, res, tmp, tmp2, sz, 
                                  bkt, prev, itw, nxw, node, bflag, uniq, aret, 
                                  dn, dnx, drh, dkey, dret, gcb, gcrh, gcret, 
                                  gret, oldn, oldnx, itn, itx, seen, owned, zi, 
                                  zj, zlim, zfree >>

zi_pop(self) == /\ pc[self] = "zi_pop"
                /\ incs' = [incs EXCEPT ![self] = TRUE]
                /\ zj' = [zj EXCEPT ![self] = 2^(zi[self] - 1)]
                /\ node' = [node EXCEPT ![self] = B(2^(zi[self] - 1))]
                /\ bflag' = [bflag EXCEPT ![self] = TRUE]
                /\ uniq' = [uniq EXCEPT ![self] = FALSE]
                /\ aret' = [aret EXCEPT ![self] = "pop"]
                /\ bkt' = [bkt EXCEPT ![self] = B(0)]
                /\ pc' = [pc EXCEPT ![self] = "a_ldb"]
                /\ UNCHANGED << mem, sb, lock, acc, pend, cfgs, gpw, inTab, 
                                owners, alive, balive, htalive, uaf, flt, 
                                resident, cand, kres, fin, i, op, res, tmp, 
                                tmp2, sz, prev, itw, nxw, dn, dnx, drh, dkey, 
                                dret, gcb, gcrh, gcret, gret, oldn, oldnx, itn, 
                                itx, seen, owned, zi, zlim, zfree >>

zp_next(self) == /\ pc[self] = "zp_next"
                 /\ IF zj[self] + 1 < 2^zi[self]
                       THEN /\ zj' = [zj EXCEPT ![self] = zj[self] + 1]
                            /\ node' = [node EXCEPT ![self] = B(zj'[self])]
                            /\ bkt' = [bkt EXCEPT ![self] = B(zj'[self] % 2^(zi[self] - 1))]
                            /\ pc' = [pc EXCEPT ![self] = "a_ldb"]
                            /\ UNCHANGED << incs, gpw >>
                       ELSE /\ incs' = [incs EXCEPT ![self] = FALSE]
                            /\ gpw' = [w \in Threads |-> gpw[w] \ {self}]
                            /\ IF "size_early" \in Mut
                                  THEN /\ pc' = [pc EXCEPT ![self] = "zi_ipd"]
                                  ELSE /\ pc' = [pc EXCEPT ![self] = "zi_size"]
                            /\ UNCHANGED << bkt, node, zj >>
                 /\ UNCHANGED << mem, sb, lock, acc, pend, cfgs, inTab, owners, 
                                 alive, balive, htalive, uaf, flt, resident, 
                                 cand, kres, fin, i, op, res, tmp, tmp2, sz, 
                                 prev, itw, nxw, bflag, uniq, aret, dn, dnx, 
                                 drh, dkey, dret, gcb, gcrh, gcret, gret, oldn, 
                                 oldnx, itn, itx, seen, owned, zi, zlim, zfree >>

zi_size(self) == /\ pc[self] = "zi_size"
                 /\ IF TSO
                       THEN /\ sb' = [sb EXCEPT ![self] = Append(sb[self], <<SizeLoc, (SzStr[2^zi[self]])>>)]
                            /\ mem' = mem
                       ELSE /\ mem' = [mem EXCEPT ![SizeLoc] = SzStr[2^zi[self]]]
                            /\ sb' = sb
                 /\ acc' = Ev(self, "st", SizeLoc, (SzStr[2^zi[self]]), "-", "-")
                 /\ IF "size_early" \in Mut
                       THEN /\ pc' = [pc EXCEPT ![self] = "zi_pop"]
                       ELSE /\ pc' = [pc EXCEPT ![self] = "zi_ipd"]
                 /\ UNCHANGED << lock, pend, cfgs, incs, gpw, inTab, owners, 
                                 alive, balive, htalive, uaf, flt, resident, 
                                 cand, kres, fin, i, op, res, tmp, tmp2, sz, 
                                 bkt, prev, itw, nxw, node, bflag, uniq, aret, 
                                 dn, dnx, drh, dkey, dret, gcb, gcrh, gcret, 
                                 gret, oldn, oldnx, itn, itx, seen, owned, zi, 
                                 zj, zlim, zfree >>

zi_ipd(self) == /\ pc[self] = "zi_ipd"
                /\ tmp' = [tmp EXCEPT ![self] = Rd(self, IpdLoc)]
                /\ acc' = Ev(self, "ld", IpdLoc, "-", "-", Rd(self, IpdLoc))
                /\ IF tmp'[self] # "0"
                      THEN /\ pc' = [pc EXCEPT ![self] = "z_ini0"]
                           /\ zi' = zi
                      ELSE /\ zi' = [zi EXCEPT ![self] = zi[self] + 1]
                           /\ pc' = [pc EXCEPT ![self] = "zi_ldt"]
                /\ UNCHANGED << mem, sb, lock, pend, cfgs, incs, gpw, inTab, 
                                owners, alive, balive, htalive, uaf, flt, 
                                resident, cand, kres, fin, i, op, res, tmp2, 
                                sz, bkt, prev, itw, nxw, node, bflag, uniq, 
                                aret, dn, dnx, drh, dkey, dret, gcb, gcrh, 
                                gcret, gret, oldn, oldnx, itn, itx, seen, 
                                owned, zj, zlim, zfree >>

zf_ldt(self) == /\ pc[self] = "zf_ldt"
                /\ IF zi[self] < zlim[self]
                      THEN /\ pc' = [pc EXCEPT ![self] = "zf_end"]
                           /\ UNCHANGED << acc, tmp >>
                      ELSE /\ tmp' = [tmp EXCEPT ![self] = Rd(self, TargetLoc)]
                           /\ acc' = Ev(self, "ld", TargetLoc, "-", "-", Rd(self, TargetLoc))
                           /\ IF SzVal[tmp'[self]] > 2^(zi[self] - 1)
                                 THEN /\ pc' = [pc EXCEPT ![self] = "zf_end"]
                                 ELSE /\ pc' = [pc EXCEPT ![self] = "zf_size"]
                /\ UNCHANGED << mem, sb, lock, pend, cfgs, incs, gpw, inTab, 
                                owners, alive, balive, htalive, uaf, flt, 
                                resident, cand, kres, fin, i, op, res, tmp2, 
                                sz, bkt, prev, itw, nxw, node, bflag, uniq, 
                                aret, dn, dnx, drh, dkey, dret, gcb, gcrh, 
                                gcret, gret, oldn, oldnx, itn, itx, seen, 
                                owned, zi, zj, zlim, zfree >>

zf_size(self) == /\ pc[self] = "zf_size"
                 /\ IF TSO
                       THEN /\ sb' = [sb EXCEPT ![self] = Append(sb[self], <<SizeLoc, (SzStr[2^(zi[self] - 1)])>>)]
                            /\ mem' = mem
                       ELSE /\ mem' = [mem EXCEPT ![SizeLoc] = SzStr[2^(zi[self] - 1)]]
                            /\ sb' = sb
                 /\ acc' = Ev(self, "st", SizeLoc, (SzStr[2^(zi[self] - 1)]), "-", "-")
                 /\ gret' = [gret EXCEPT ![self] = "fini1"]
                 /\ pc' = [pc EXCEPT ![self] = "g_mb"]
                 /\ UNCHANGED << lock, pend, cfgs, incs, gpw, inTab, owners, 
                                 alive, balive, htalive, uaf, flt, resident, 
                                 cand, kres, fin, i, op, res, tmp, tmp2, sz, 
                                 bkt, prev, itw, nxw, node, bflag, uniq, aret, 
                                 dn, dnx, drh, dkey, dret, gcb, gcrh, gcret, 
                                 oldn, oldnx, itn, itx, seen, owned, zi, zj, 
                                 zlim, zfree >>

zf_free1(self) == /\ pc[self] = "zf_free1"
                  /\ IF zfree[self] # 0
                        THEN /\ balive' = [balive EXCEPT ![zfree[self]] = FALSE]
                        ELSE /\ TRUE
                             /\ UNCHANGED balive
                  /\ incs' = [incs EXCEPT ![self] = TRUE]
                  /\ zj' = [zj EXCEPT ![self] = 2^(zi[self] - 1)]
                  /\ pc' = [pc EXCEPT ![self] = "zr_or"]
                  /\ UNCHANGED << mem, sb, lock, acc, pend, cfgs, gpw, inTab, 
                                  owners, alive, htalive, uaf, flt, resident, 
                                  cand, kres, fin, i, op, res, tmp, tmp2, sz, 
                                  bkt, prev, itw, nxw, node, bflag, uniq, aret, 
                                  dn, dnx, drh, dkey, dret, gcb, gcrh, gcret, 
                                  gret, oldn, oldnx, itn, itx, seen, owned, zi, 
                                  zlim, zfree >>

zr_or(self) == /\ pc[self] = "zr_or"
               /\ Drained(self)
               /\ tmp' = [tmp EXCEPT ![self] = mem[(NextOf(B(zj[self])))]]
               /\ mem' = [mem EXCEPT ![(NextOf(B(zj[self])))] = WOr(mem[(NextOf(B(zj[self])))], 1)]
               /\ acc' = Ev(self, "or", (NextOf(B(zj[self]))), ToString(1), "-", WOr(tmp'[self], 1))
               /\ uaf' = (uaf \/ Dead(B(zj[self])))
               /\ gcb' = [gcb EXCEPT ![self] = B(zj[self] - 2^(zi[self] - 1))]
               /\ gcrh' = [gcrh EXCEPT ![self] = RH[B(zj[self])]]
               /\ gcret' = [gcret EXCEPT ![self] = "rm"]
               /\ pc' = [pc EXCEPT ![self] = "c_ldb"]
               /\ UNCHANGED << sb, lock, pend, cfgs, incs, gpw, inTab, owners, 
                               alive, balive, htalive, flt, resident, cand, 
                               kres, fin, i, op, res, tmp2, sz, bkt, prev, itw, 
                               nxw, node, bflag, uniq, aret, dn, dnx, drh, 
                               dkey, dret, gret, oldn, oldnx, itn, itx, seen, 
                               owned, zi, zj, zlim, zfree >>

zr_next(self) == /\ pc[self] = "zr_next"
                 /\ IF zj[self] + 1 < 2^zi[self]
                       THEN /\ zj' = [zj EXCEPT ![self] = zj[self] + 1]
                            /\ pc' = [pc EXCEPT ![self] = "zr_or"]
                            /\ UNCHANGED << incs, gpw, zfree >>
                       ELSE /\ incs' = [incs EXCEPT ![self] = FALSE]
                            /\ gpw' = [w \in Threads |-> gpw[w] \ {self}]
                            /\ zfree' = [zfree EXCEPT ![self] = zi[self]]
                            /\ pc' = [pc EXCEPT ![self] = "zf_ipd"]
                            /\ zj' = zj
                 /\ UNCHANGED << mem, sb, lock, acc, pend, cfgs, inTab, owners, 
                                 alive, balive, htalive, uaf, flt, resident, 
                                 cand, kres, fin, i, op, res, tmp, tmp2, sz, 
                                 bkt, prev, itw, nxw, node, bflag, uniq, aret, 
                                 dn, dnx, drh, dkey, dret, gcb, gcrh, gcret, 
                                 gret, oldn, oldnx, itn, itx, seen, owned, zi, 
                                 zlim >>

zf_ipd(self) == /\ pc[self] = "zf_ipd"
                /\ tmp' = [tmp EXCEPT ![self] = Rd(self, IpdLoc)]
                /\ acc' = Ev(self, "ld", IpdLoc, "-", "-", Rd(self, IpdLoc))
                /\ IF tmp'[self] # "0"
                      THEN /\ pc' = [pc EXCEPT ![self] = "zf_end"]
                           /\ zi' = zi
                      ELSE /\ zi' = [zi EXCEPT ![self] = zi[self] - 1]
                           /\ pc' = [pc EXCEPT ![self] = "zf_ldt"]
                /\ UNCHANGED << mem, sb, lock, pend, cfgs, incs, gpw, inTab, 
                                owners, alive, balive, htalive, uaf, flt, 
                                resident, cand, kres, fin, i, op, res, tmp2, 
                                sz, bkt, prev, itw, nxw, node, bflag, uniq, 
                                aret, dn, dnx, drh, dkey, dret, gcb, gcrh, 
                                gcret, gret, oldn, oldnx, itn, itx, seen, 
                                owned, zj, zlim, zfree >>

zf_end(self) == /\ pc[self] = "zf_end"
                /\ IF zfree[self] # 0
                      THEN /\ IF "free_early" \in Mut
                                 THEN /\ pc' = [pc EXCEPT ![self] = "zf_free2"]
                                      /\ gret' = gret
                                 ELSE /\ gret' = [gret EXCEPT ![self] = "fini2"]
                                      /\ pc' = [pc EXCEPT ![self] = "g_mb"]
                      ELSE /\ pc' = [pc EXCEPT ![self] = "z_ini0"]
                           /\ gret' = gret
                /\ UNCHANGED << mem, sb, lock, acc, pend, cfgs, incs, gpw, 
                                inTab, owners, alive, balive, htalive, uaf, 
                                flt, resident, cand, kres, fin, i, op, res, 
                                tmp, tmp2, sz, bkt, prev, itw, nxw, node, 
                                bflag, uniq, aret, dn, dnx, drh, dkey, dret, 
                                gcb, gcrh, gcret, oldn, oldnx, itn, itx, seen, 
                                owned, zi, zj, zlim, zfree >>

zf_free2(self) == /\ pc[self] = "zf_free2"
                  /\ balive' = [balive EXCEPT ![zfree[self]] = FALSE]
                  /\ zfree' = [zfree EXCEPT ![self] = 0]
                  /\ pc' = [pc EXCEPT ![self] = "z_ini0"]
                  /\ UNCHANGED << mem, sb, lock, acc, pend, cfgs, incs, gpw, 
                                  inTab, owners, alive, htalive, uaf, flt, 
                                  resident, cand, kres, fin, i, op, res, tmp, 
                                  tmp2, sz, bkt, prev, itw, nxw, node, bflag, 
                                  uniq, aret, dn, dnx, drh, dkey, dret, gcb, 
                                  gcrh, gcret, gret, oldn, oldnx, itn, itx, 
                                  seen, owned, zi, zj, zlim >>

z_ini0(self) == /\ pc[self] = "z_ini0"
                /\ IF TSO
                      THEN /\ sb' = [sb EXCEPT ![self] = Append(sb[self], <<InitdLoc, "0">>)]
                           /\ mem' = mem
                      ELSE /\ mem' = [mem EXCEPT ![InitdLoc] = "0"]
                           /\ sb' = sb
                /\ acc' = Ev(self, "st", InitdLoc, "0", "-", "-")
                /\ pc' = [pc EXCEPT ![self] = "z_mb"]
                /\ UNCHANGED << lock, pend, cfgs, incs, gpw, inTab, owners, 
                                alive, balive, htalive, uaf, flt, resident, 
                                cand, kres, fin, i, op, res, tmp, tmp2, sz, 
                                bkt, prev, itw, nxw, node, bflag, uniq, aret, 
                                dn, dnx, drh, dkey, dret, gcb, gcrh, gcret, 
                                gret, oldn, oldnx, itn, itx, seen, owned, zi, 
                                zj, zlim, zfree >>

z_mb(self) == /\ pc[self] = "z_mb"
              /\ Drained(self)
              /\ acc' = Ev(self, "mb", "-", "-", "-", "-")
              /\ pc' = [pc EXCEPT ![self] = "z_chk"]
              /\ UNCHANGED << mem, sb, lock, pend, cfgs, incs, gpw, inTab, 
                              owners, alive, balive, htalive, uaf, flt, 
                              resident, cand, kres, fin, i, op, res, tmp, tmp2, 
                              sz, bkt, prev, itw, nxw, node, bflag, uniq, aret, 
                              dn, dnx, drh, dkey, dret, gcb, gcrh, gcret, gret, 
                              oldn, oldnx, itn, itx, seen, owned, zi, zj, zlim, 
                              zfree >>

z_chk(self) == /\ pc[self] = "z_chk"
               /\ tmp' = [tmp EXCEPT ![self] = Rd(self, TargetLoc)]
               /\ acc' = Ev(self, "ld", TargetLoc, "-", "-", Rd(self, TargetLoc))
               /\ IF SzVal[Rd(self, SizeLoc)] # SzVal[tmp'[self]]
                     THEN /\ pc' = [pc EXCEPT ![self] = "z_ipd"]
                     ELSE /\ pc' = [pc EXCEPT ![self] = "z_unlock"]
               /\ UNCHANGED << mem, sb, lock, pend, cfgs, incs, gpw, inTab, 
                               owners, alive, balive, htalive, uaf, flt, 
                               resident, cand, kres, fin, i, op, res, tmp2, sz, 
                               bkt, prev, itw, nxw, node, bflag, uniq, aret, 
                               dn, dnx, drh, dkey, dret, gcb, gcrh, gcret, 
                               gret, oldn, oldnx, itn, itx, seen, owned, zi, 
                               zj, zlim, zfree >>

z_unlock(self) == /\ pc[self] = "z_unlock"
                  /\ Drained(self)
                  /\ lock' = "free"
                  /\ acc' = Ev(self, "unlock", MutexName, "-", "-", "-")
                  /\ res' = [res EXCEPT ![self] = "ok"]
                  /\ pc' = [pc EXCEPT ![self] = "t_ret"]
                  /\ UNCHANGED << mem, sb, pend, cfgs, incs, gpw, inTab, 
                                  owners, alive, balive, htalive, uaf, flt, 
                                  resident, cand, kres, fin, i, op, tmp, tmp2, 
                                  sz, bkt, prev, itw, nxw, node, bflag, uniq, 
                                  aret, dn, dnx, drh, dkey, dret, gcb, gcrh, 
                                  gcret, gret, oldn, oldnx, itn, itx, seen, 
                                  owned, zi, zj, zlim, zfree >>

w_join(self) == /\ pc[self] = "w_join"
                /\ \A k \in DOMAIN op[self].ts : fin[op[self].ts[k]]
                /\ acc' = Ev(self, "joined", "-", "-", "-", "-")
                /\ res' = [res EXCEPT ![self] = "ok"]
                /\ pc' = [pc EXCEPT ![self] = "t_ret"]
                /\ UNCHANGED << mem, sb, lock, pend, cfgs, incs, gpw, inTab, 
                                owners, alive, balive, htalive, uaf, flt, 
                                resident, cand, kres, fin, i, op, tmp, tmp2, 
                                sz, bkt, prev, itw, nxw, node, bflag, uniq, 
                                aret, dn, dnx, drh, dkey, dret, gcb, gcrh, 
                                gcret, gret, oldn, oldnx, itn, itx, seen, 
                                owned, zi, zj, zlim, zfree >>

x_destroy(self) == /\ pc[self] = "x_destroy"
                   /\ Assert(\A t \in Threads \ {self} : pc[t] \in {"t_top", "t_disp", "w_join", "Done"}, 
                             "Failure of assertion at line 525, column 12.")
                   /\ IF \E x \in Reach : x \in UserNodes
                         THEN /\ res' = [res EXCEPT ![self] = "-EPERM"]
                              /\ UNCHANGED << balive, htalive, uaf >>
                         ELSE /\ uaf' = (uaf \/ ~htalive \/ \E x \in Reach : Dead(x))
                              /\ balive' = [o \in Orders |-> FALSE]
                              /\ htalive' = FALSE
                              /\ res' = [res EXCEPT ![self] = "0"]
                   /\ pc' = [pc EXCEPT ![self] = "t_ret"]
                   /\ UNCHANGED << mem, sb, lock, acc, pend, cfgs, incs, gpw, 
                                   inTab, owners, alive, flt, resident, cand, 
                                   kres, fin, i, op, tmp, tmp2, sz, bkt, prev, 
                                   itw, nxw, node, bflag, uniq, aret, dn, dnx, 
                                   drh, dkey, dret, gcb, gcrh, gcret, gret, 
                                   oldn, oldnx, itn, itx, seen, owned, zi, zj, 
                                   zlim, zfree >>

t_ret(self) == /\ pc[self] = "t_ret"
               /\ /\ cfgs' = (IF pend[self].op = "none" THEN cfgs ELSE HReturn(cfgs, pend, self, res[self]))
                  /\ pend' = [pend EXCEPT ![self] = LM!NoOp]
               /\ IF op[self].ru
                     THEN /\ incs' = [incs EXCEPT ![self] = FALSE]
                          /\ gpw' = [w \in Threads |-> gpw[w] \ {self}]
                     ELSE /\ TRUE
                          /\ UNCHANGED << incs, gpw >>
               /\ flt' = [flt EXCEPT ![self] = NoFlt]
               /\ resident' = [resident EXCEPT ![self] = {}]
               /\ cand' = [cand EXCEPT ![self] = {}]
               /\ kres' = [kres EXCEPT ![self] = FALSE]
               /\ IF i[self] = Len(Prog[self])
                     THEN /\ fin' = [fin EXCEPT ![self] = TRUE]
                     ELSE /\ TRUE
                          /\ fin' = fin
               /\ tmp' = [tmp EXCEPT ![self] = NULLW]
               /\ tmp2' = [tmp2 EXCEPT ![self] = NULLW]
               /\ bkt' = [bkt EXCEPT ![self] = NULL]
               /\ prev' = [prev EXCEPT ![self] = NULL]
               /\ itw' = [itw EXCEPT ![self] = NULLW]
               /\ nxw' = [nxw EXCEPT ![self] = NULLW]
               /\ node' = [node EXCEPT ![self] = NULL]
               /\ dn' = [dn EXCEPT ![self] = NULL]
               /\ dnx' = [dnx EXCEPT ![self] = NULLW]
               /\ oldn' = [oldn EXCEPT ![self] = NULL]
               /\ oldnx' = [oldnx EXCEPT ![self] = NULLW]
               /\ gcb' = [gcb EXCEPT ![self] = NULL]
               /\ seen' = [seen EXCEPT ![self] = <<>>]
               /\ sz' = [sz EXCEPT ![self] = 1]
               /\ bflag' = [bflag EXCEPT ![self] = FALSE]
               /\ uniq' = [uniq EXCEPT ![self] = FALSE]
               /\ aret' = [aret EXCEPT ![self] = "-"]
               /\ drh' = [drh EXCEPT ![self] = 0]
               /\ dkey' = [dkey EXCEPT ![self] = "-"]
               /\ dret' = [dret EXCEPT ![self] = "-"]
               /\ gcrh' = [gcrh EXCEPT ![self] = 0]
               /\ gcret' = [gcret EXCEPT ![self] = "-"]
               /\ gret' = [gret EXCEPT ![self] = "-"]
               /\ zi' = [zi EXCEPT ![self] = 0]
               /\ zj' = [zj EXCEPT ![self] = 0]
               /\ zlim' = [zlim EXCEPT ![self] = 0]
               /\ zfree' = [zfree EXCEPT ![self] = 0]
               /\ i' = [i EXCEPT ![self] = i[self] + 1]
               /\ pc' = [pc EXCEPT ![self] = "t_top"]
               /\ UNCHANGED << mem, sb, lock, acc, inTab, owners, alive, 
                               balive, htalive, uaf, op, res, itn, itx, owned >>

thr(self) == t_top(self) \/ t_disp(self) \/ a_ldsz(self) \/ a_ldb(self)
                \/ a_loop(self) \/ a_ins(self) \/ a_gc(self) \/ a_ok(self)
                \/ a_dup(self) \/ r_chk(self) \/ r_ldsz(self)
                \/ r_loop(self) \/ r_gc(self) \/ r_asrt(self)
                \/ c_ldb(self) \/ c_loop(self) \/ c_cas(self)
                \/ c_ret(self) \/ d_ldsz(self) \/ d_ld1(self) \/ d_or(self)
                \/ d_asrt(self) \/ d_ld2(self) \/ d_xchg(self)
                \/ l_ldsz(self) \/ l_ldb(self) \/ l_loop(self)
                \/ l_asrt(self) \/ n_loop(self) \/ n_asrt(self)
                \/ q_none(self) \/ f_ldb(self) \/ v_loop(self)
                \/ v_asrt(self) \/ g_mb(self) \/ g_end(self)
                \/ g_free(self) \/ z_tgt(self) \/ z_ini(self)
                \/ z_lock(self) \/ z_ipd(self) \/ z_ini2(self)
                \/ z_ldt(self) \/ zi_ldt(self) \/ zi_alloc(self)
                \/ zi_pop(self) \/ zp_next(self) \/ zi_size(self)
                \/ zi_ipd(self) \/ zf_ldt(self) \/ zf_size(self)
                \/ zf_free1(self) \/ zr_or(self) \/ zr_next(self)
                \/ zf_ipd(self) \/ zf_end(self) \/ zf_free2(self)
                \/ z_ini0(self) \/ z_mb(self) \/ z_chk(self)
                \/ z_unlock(self) \/ w_join(self) \/ x_destroy(self)
                \/ t_ret(self)

Next == (\E self \in Flushers: flusher(self))
           \/ (\E self \in Threads: thr(self))

Spec == /\ Init /\ [][Next]_vars
        /\ \A self \in Flushers : WF_vars(flusher(self))
        /\ \A self \in Threads : WF_vars(thr(self))

\* END TRANSLATION

AllDone == \A t \in Threads : pc[t] = "Done"
\* ---------------------------------------------------------------- C05
Linearizable == cfgs # {}
NoRepeat(s) == \A a, b \in DOMAIN s : a # b => s[a] # s[b]
\* evaluated in the state in which the operation returns (pc = t_ret, res and seen final, ghosts not yet reset)
ResidentFound == \A t \in Threads : pc[t] = "t_ret" =>
   /\ (op[t].op = "lookup" /\ res[t] = NULL) => (resident[t] = {} /\ ~kres[t])
   /\ (op[t].op = "lookup" /\ res[t] # NULL) => res[t] \in cand[t]
   /\ (op[t].op = "addu" /\ res[t] # op[t].n) => res[t] \in cand[t]
   /\ (op[t].op = "addr" /\ res[t] # NULL) => res[t] \in cand[t]
   /\ (op[t].op \in {"dups", "iter"}) => (resident[t] \subseteq Elems(seen[t]) /\ Elems(seen[t]) \subseteq cand[t])
Sorted == \A x \in Reach : P(mem[NextOf(x)]) = NULL \/ RH[x] <= RH[P(mem[NextOf(x)])]
CurSize == SzVal[mem[SizeLoc]]
\* every bucket of the published size is linked and not being removed (the new size is published after the new buckets are linked,
\* a smaller size is published -- and a grace period waited for -- before the dropped buckets are marked)
BucketsLinked == htalive => \A j \in BIdxs : j < CurSize => (B(j) \in Reach /\ ~IsRem(mem[NextOf(B(j))]) /\ balive[OrdOfIdx(j)])
\* BUCKET flags describe the node holding the word; REMOVAL_OWNER is never set without REMOVED
FlagsOk == \A x \in Reach : /\ IsBkt(mem[NextOf(x)]) <=> x \in Buckets
                            /\ IsOwn(mem[NextOf(x)]) => IsRem(mem[NextOf(x)])
PhysPresent == {n \in UserNodes : n \in Reach /\ ~IsRem(mem[NextOf(n)])}
InTabIsPhysical == htalive => inTab = PhysPresent
\* at quiescence the table holds exactly the content of a surviving linearisation and no logically removed node is linked
Conservation == AllDone => /\ \E c \in cfgs : c.abs = inTab
                           /\ htalive => \A x \in Reach : ~IsRem(mem[NextOf(x)])
                           /\ \A t \in Threads : sb[t] = <<>>
\* a word with REMOVED set is frozen (pointer and REMOVED never change again) while its node's memory is allocated
FrozenAfterRemoved == [][\A x \in ListNodes : (Alive(x) /\ IsRem(mem[NextOf(x)])) =>
                            (IsRem(mem'[NextOf(x)]) /\ P(mem'[NextOf(x)]) = P(mem[NextOf(x)]))]_mem
\* ---------------------------------------------------------------- C06
GuaranteeF == \A k \in UniqueKeys : Cardinality({n \in inTab : NodeKey[n] = k}) <= 1
NoDupExposed == \A t \in Threads : (pc[t] = "t_ret" /\ op[t].op \in {"dups", "iter"}) =>
   /\ NoRepeat(seen[t])
   /\ \A k \in UniqueKeys : Cardinality({n \in Elems(seen[t]) : NodeKey[n] = k}) <= 1
\* ---------------------------------------------------------------- C07
SingleOwner == \A n \in UserNodes : Cardinality(owners[n]) <= 1
OwnedRemoved == \A n \in UserNodes : owners[n] # {} => (n \notin inTab /\ IsRem(mem[NextOf(n)]))
NoUAF == ~uaf
\* a node is reclaimed only by its owner and only when unreachable
ReclaimedUnreachable == htalive => \A n \in UserNodes : ~alive[n] => (n \notin Reach /\ owners[n] # {})
\* ---------------------------------------------------------------- machinery
\* deadlock freedom with an explicit notion of termination (flushers never terminate).  The blocking steps of the algorithm are spelled
\* out (equivalent to AllDone \/ ENABLED Next, which costs a second evaluation of the next-state relation in every state): a thread
\* with buffered stores can always be flushed; otherwise only the grace-period wait, the mutex and the barrier can block.
CanStep(t) == CASE pc[t] = "Done"   -> FALSE
                [] pc[t] = "g_end"  -> gpw[t] = {}
                [] pc[t] = "z_lock" -> lock = "free"
                [] pc[t] = "w_join" -> \A k \in DOMAIN op[t].ts : fin[op[t].ts[k]]
                [] OTHER            -> TRUE
DeadlockFree == AllDone \/ \E t \in Threads : sb[t] # <<>> \/ CanStep(t)
SBBound == \A t \in Threads : Len(sb[t]) <= SBMax
=============================================================================
