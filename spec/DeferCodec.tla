----------------------------- MODULE DeferCodec -----------------------------
(***************************************************************************)
(* C13, part (a): the per-thread defer queue of src/urcu-defer-impl.h as a *)
(* sequential object -- ring `q[Q]`, `head`, `tail`, `last_fct_in`,        *)
(* `last_fct_out`, the three-way encoder of _defer_rcu() and the decoder   *)
(* of rcu_defer_barrier_queue() -- over a value alphabet of pointer        *)
(* classes:                                                                *)
(*   functions  fA, fB (aligned), gO (low bit set), MARK (= DQ_FCT_MARK),  *)
(*              NULL                                                       *)
(*   arguments  a1.. (aligned), o1.. (low bit set), MARK, NULL             *)
(* The value operators (IsBit, SetBit, ClearBit, Enc) are shared with the  *)
(* concurrent protocol specification (module Defer).                       *)
(*                                                                         *)
(* Behaviours: any sequence of at most MaxLen calls defer_rcu(f, p) with   *)
(* (f, p) drawn from FAlpha \X PAlpha, interleaved with arbitrary drains   *)
(* (rcu_defer_barrier_thread / the reclaimer), starting at any ring offset *)
(* in H0; a full queue (head - tail >= Q - 2) is flushed synchronously by  *)
(* the caller.  head and tail are unsigned counters: arithmetic modulo     *)
(* Wrap (a multiple of Q, > 2Q) stands for arithmetic modulo 2^64.         *)
(*                                                                         *)
(* Invariant CodecOK: every drain invokes exactly the calls queued since   *)
(* the previous drain -- same function, same argument, same order, once    *)
(* each -- and stops exactly at head; the code's assertions hold.          *)
(***************************************************************************)
EXTENDS Naturals, Sequences, FiniteSets, TLC

CONSTANTS Q,          \* DEFER_QUEUE_SIZE (power of two)
          MaxLen,     \* bound on the number of defer_rcu calls in a behaviour (2Q+2)
          Wrap,       \* modulus of the head/tail counters
          H0,         \* set of initial values of head = tail
          FAlpha,     \* function representatives explored
          PAlpha      \* argument representatives explored

MARK == "MARK"
NULL == "NULL"
AlignedF == {"fA", "fB"}
OddF == {"gO"}
AlignedP == {"a1", "a2", "a3", "a4", "a5", "a6", "a7", "a8", "a9"}
OddP == {"o1", "o2", "o3", "o4", "o5", "o6", "o7", "o8", "o9"}

\* DQ_SET_FCT_BIT on an aligned, non-marker function pointer (the only case in which the encoder uses it)
SetBit(f) == f \o "|1"
Tagged == {SetBit(f) : f \in AlignedF \cup {NULL}}
\* DQ_IS_FCT_BIT(x)
IsBit(x) == x \in OddF \cup OddP \cup Tagged
\* DQ_CLEAR_FCT_BIT(x)
ClearBit(x) == IF x \in Tagged THEN CHOOSE f \in AlignedF \cup {NULL} : SetBit(f) = x ELSE x \o "&~1"

\* Slots written by _defer_rcu(f, p) when the last encoded function is lfi (l.347-362); last_fct_in becomes f
Enc(lfi, f, p) ==
  IF lfi # f \/ IsBit(p) \/ p = MARK
  THEN IF IsBit(f) \/ f = MARK THEN <<MARK, f, p>> ELSE <<SetBit(f), p>>
  ELSE <<p>>

\* ------------------------------------------------------------------------
VARIABLES ring, head, tail, lfi, lfo,
          pend,      \* ghost: calls queued and not yet invoked, in order
          n,         \* ghost: number of defer_rcu calls so far
          ok,        \* ghost: FALSE once a drain misbehaved or an assertion of the code failed
          last       \* ghost: what the last step did (read by DeferCodecGen / the conformance check)
cvars == <<ring, head, tail, lfi, lfo, pend, n, ok, last>>

Sub(a, b) == (a + Wrap - b) % Wrap          \* a - b on unsigned counters
Inc(a, k) == (a + k) % Wrap

\* rcu_defer_barrier_queue(queue, hd): state after decoding from index i with last_fct_out lo; fuel bounds a
\* decoder that runs past hd (for (i = tail; i != head;))
RECURSIVE Dec(_, _, _, _, _, _)
Dec(r, i, hd, lo, calls, fuel) ==
  IF i = hd \/ fuel = 0 THEN [i |-> i, lfo |-> lo, calls |-> calls]
  ELSE LET p1 == r[i % Q] IN
       IF IsBit(p1) THEN Dec(r, Inc(i, 2), hd, ClearBit(p1), Append(calls, <<ClearBit(p1), r[Inc(i, 1) % Q]>>), fuel - 1)
       ELSE IF p1 = MARK THEN Dec(r, Inc(i, 3), hd, r[Inc(i, 1) % Q], Append(calls, <<r[Inc(i, 1) % Q], r[Inc(i, 2) % Q]>>), fuel - 1)
       ELSE Dec(r, Inc(i, 1), hd, lo, Append(calls, <<lo, p1>>), fuel - 1)

Drain == Dec(ring, tail, head, lfo, <<>>, Q + 1)
DrainOK(d) == d.i = head /\ d.calls = pend

Image(r, h, t, li, lo) == [hm |-> h % Q, n |-> Sub(h, t), lfi |-> li, lfo |-> lo,
                           live |-> [j \in 1..Sub(h, t) |-> r[Inc(t, j - 1) % Q]]]

Init == /\ ring = [k \in 0..(Q - 1) |-> "JUNK"]
        /\ head \in H0 /\ tail = head
        /\ lfi = NULL /\ lfo = NULL          \* zero-initialised TLS
        /\ pend = <<>> /\ n = 0 /\ ok = TRUE
        /\ last = [op |-> "case", cb |-> <<>>, img |-> Image(ring, head, head, NULL, NULL)]

\* _defer_rcu(f, p)
Defer(f, p) ==
  /\ n < MaxLen
  /\ LET full == Sub(head, tail) >= Q - 2
         d    == Drain
         t1   == IF full THEN d.i ELSE tail
         lo1  == IF full THEN d.lfo ELSE lfo
         pd1  == IF full THEN <<>> ELSE pend
         e    == Enc(lfi, f, p)
         r1   == [k \in 0..(Q - 1) |-> IF \E j \in 1..Len(e) : Inc(head, j - 1) % Q = k
                                         THEN e[CHOOSE j \in 1..Len(e) : Inc(head, j - 1) % Q = k] ELSE ring[k]]
         h1   == Inc(head, Len(e))
     IN /\ ring' = r1 /\ head' = h1 /\ tail' = t1 /\ lfi' = f /\ lfo' = lo1
        /\ pend' = Append(pd1, <<f, p>>)
        /\ n' = n + 1
        /\ ok' = (ok /\ Sub(head, tail) <= Q                         \* urcu_posix_assert(head - tail <= DEFER_QUEUE_SIZE)
                     /\ (full => (DrainOK(d) /\ Sub(head, t1) = 0))  \* urcu_posix_assert(head - tail == 0) after the flush
                     /\ Sub(h1, t1) <= Q)
        /\ last' = [op |-> "d", f |-> f, p |-> p, cb |-> IF full THEN d.calls ELSE <<>>, img |-> Image(r1, h1, t1, f, lo1)]

\* rcu_defer_barrier_thread() / the reclaimer draining this queue up to the current head
Barrier ==
  /\ head # tail
  /\ LET d == Drain IN
     /\ tail' = d.i /\ lfo' = d.lfo /\ pend' = <<>>
     /\ ok' = (ok /\ DrainOK(d))
     /\ last' = [op |-> "b", cb |-> d.calls, img |-> Image(ring, head, d.i, lfi, d.lfo)]
  /\ UNCHANGED <<ring, head, lfi, n>>

Next == (\E f \in FAlpha, p \in PAlpha : Defer(f, p)) \/ Barrier
CSpec == Init /\ [][Next]_cvars

CodecOK == ok
RingBound == Sub(head, tail) <= Q
\* the run-length state is consistent whenever the queue is empty
EmptyConsistent == (head = tail) => (lfi = lfo /\ pend = <<>>)
=============================================================================
