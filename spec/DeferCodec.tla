----------------------------- MODULE DeferCodec -----------------------------
(***************************************************************************)
(* C13, part (a): the per-thread defer queue of src/urcu-defer-impl.h as a *)
(* sequential object -- ring `q[Q]`, `head`, `tail`, `last_fct_in`,        *)
(* `last_fct_out`, the three-way encoder of _defer_rcu() and the decoder   *)
(* of rcu_defer_barrier_queue() -- over a value alphabet of pointer        *)
(* classes:                                                                *)
(*   functions  fA, fB (aligned), gO (low bit set), MARK (= DQ_FCT_MARK),  *)
(*              NULL                                                       *)
(*   arguments  a1.. (aligned), o1.. (low bit set), MARK, NULL             *)
(* The value operators (IsBit, SetBit, ClearBit, Enc: module DeferVal) are *)
(* shared with the concurrent protocol specification (module Defer).       *)
(*                                                                         *)
(* Behaviours: any sequence of at most MaxLen calls defer_rcu(f, p) with   *)
(* (f, p) drawn from FAlpha \X PAlpha, interleaved with arbitrary drains   *)
(* (rcu_defer_barrier_thread / the reclaimer), starting at any ring offset *)
(* in H0; a full queue (head - tail >= Q - 2) is flushed synchronously by  *)
(* the caller.  head and tail are unsigned counters: arithmetic modulo     *)
(* Wrap (a multiple of Q, > 2Q) stands for arithmetic modulo 2^64.         *)
(*                                                                         *)
(* Invariant CodecOK: every drain invokes exactly the calls queued since   *)
(* the previous drain -- same function, same argument, same order, once    *)
(* each -- and stops exactly at head; the code's assertions hold.          *)
(***************************************************************************)
EXTENDS DeferVal, Naturals, FiniteSets, TLC

CONSTANTS Q,          \* DEFER_QUEUE_SIZE (power of two)
          MaxLen,     \* bound on the number of defer_rcu calls in a behaviour (2Q+2 asked for by the design);
                      \* 0 = no bound: the state space is finite anyway, so ALL call sequences of ANY length are covered
          Wrap,       \* modulus of the head/tail counters
          H0,         \* set of initial values of head = tail
          FAlpha,     \* function representatives explored
          PAlpha,     \* argument representatives explored
          Junk        \* TRUE: slots behind tail are forgotten ("JUNK") when tail advances -- dead memory that a
                      \* correct decoder never reads (reading it would break CodecOK all the same); keeps Q = 8 finite
                      \* enough.  FALSE: stale slot contents are kept, exactly as in the real ring.

\* ------------------------------------------------------------------------
VARIABLES ring, head, tail, lfi, lfo,
          pend,      \* ghost: calls queued and not yet invoked, in order
          n,         \* ghost: number of defer_rcu calls so far (stays 0 when MaxLen = 0: unbounded)
          ok         \* ghost: FALSE once a drain misbehaved or an assertion of the code failed
cvars == <<ring, head, tail, lfi, lfo, pend, n, ok>>

Sub(a, b) == (a + Wrap - b) % Wrap          \* a - b on unsigned counters
Inc(a, k) == (a + k) % Wrap

\* rcu_defer_barrier_queue(queue, hd): state after decoding from index i with last_fct_out lo; fuel bounds a
\* decoder that runs past hd (for (i = tail; i != head;))
RECURSIVE Dec(_, _, _, _, _, _)
Dec(r, i, hd, lo, calls, fuel) ==
  IF i = hd \/ fuel = 0 THEN [i |-> i, lfo |-> lo, calls |-> calls]
  ELSE LET p1 == r[i % Q] IN
       IF IsBit(p1) THEN Dec(r, Inc(i, 2), hd, ClearBit(p1), Append(calls, <<ClearBit(p1), r[Inc(i, 1) % Q]>>), fuel - 1)
       ELSE IF p1 = MARK THEN Dec(r, Inc(i, 3), hd, r[Inc(i, 1) % Q], Append(calls, <<r[Inc(i, 1) % Q], r[Inc(i, 2) % Q]>>), fuel - 1)
       ELSE Dec(r, Inc(i, 1), hd, lo, Append(calls, <<lo, p1>>), fuel - 1)

Drain == Dec(ring, tail, head, lfo, <<>>, Q + 1)
\* slots [from, to) are dead once tail has moved to `to`
Forget(r, from, to) == IF ~Junk \/ Sub(to, from) > Q THEN r
                       ELSE [k \in 0..(Q - 1) |-> IF \E j \in 0..(Sub(to, from) - 1) : Inc(from, j) % Q = k THEN "JUNK" ELSE r[k]]
DrainOK(d) == d.i = head /\ d.calls = pend

\* what the conformance check compares with the real ring after every call (see DeferCodecGen)
Image(r, h, t, li, lo) == [hm |-> h % Q, n |-> Sub(h, t), lfi |-> li, lfo |-> lo,
                           live |-> [j \in 1..Sub(h, t) |-> r[Inc(t, j - 1) % Q]]]

Init == /\ ring = [k \in 0..(Q - 1) |-> "JUNK"]
        /\ head \in H0 /\ tail = head
        /\ lfi = NULL /\ lfo = NULL          \* zero-initialised TLS
        /\ pend = <<>> /\ n = 0 /\ ok = TRUE

\* _defer_rcu(f, p)
Defer(f, p) ==
  /\ (MaxLen = 0 \/ n < MaxLen)
  /\ LET full == Sub(head, tail) >= Q - 2
         d    == Drain
         t1   == IF full THEN d.i ELSE tail
         lo1  == IF full THEN d.lfo ELSE lfo
         pd1  == IF full THEN <<>> ELSE pend
         e    == Enc(lfi, f, p)
         r0   == IF full THEN Forget(ring, tail, d.i) ELSE ring
         r1   == [k \in 0..(Q - 1) |-> IF \E j \in 1..Len(e) : Inc(head, j - 1) % Q = k
                                         THEN e[CHOOSE j \in 1..Len(e) : Inc(head, j - 1) % Q = k] ELSE r0[k]]
         h1   == Inc(head, Len(e))
     IN /\ ring' = r1 /\ head' = h1 /\ tail' = t1 /\ lfi' = f /\ lfo' = lo1
        /\ pend' = Append(pd1, <<f, p>>)
        /\ n' = IF MaxLen = 0 THEN 0 ELSE n + 1
        /\ ok' = (ok /\ Sub(head, tail) <= Q                         \* urcu_posix_assert(head - tail <= DEFER_QUEUE_SIZE)
                     /\ (full => (DrainOK(d) /\ Sub(head, t1) = 0))  \* urcu_posix_assert(head - tail == 0) after the flush
                     /\ Sub(h1, t1) <= Q)

\* rcu_defer_barrier_thread() / the reclaimer draining this queue up to the current head
Barrier ==
  /\ head # tail
  /\ LET d == Drain IN
     /\ tail' = d.i /\ lfo' = d.lfo /\ pend' = <<>>
     /\ ok' = (ok /\ DrainOK(d))
     /\ ring' = Forget(ring, tail, d.i)
  /\ UNCHANGED <<head, lfi, n>>

Next == (\E f \in FAlpha, p \in PAlpha : Defer(f, p)) \/ Barrier
CSpec == Init /\ [][Next]_cvars

CodecOK == ok
RingBound == Sub(head, tail) <= Q
\* the run-length state is consistent whenever the queue is empty
EmptyConsistent == (head = tail) => (lfi = lfo /\ pend = <<>>)
=============================================================================
