-------------------------------- MODULE Fork --------------------------------
(***************************************************************************)
(* C16: fork() bracketed by the documented handlers.                       *)
(*                                                                         *)
(*   call_rcu_before_fork / after_fork_parent / after_fork_child           *)
(*       (src/urcu-call-rcu-impl.h:944-1037, 762-800)                      *)
(*   cds_lfht_before_fork / after_fork_parent / after_fork_child and       *)
(*   urcu_workqueue_pause_worker / resume_worker / create_worker           *)
(*       (src/rculfhash.c:2297-2327, src/workqueue.c:160-259, 443-483)     *)
(*   urcu_bp_before_fork / after_fork_parent / after_fork_child            *)
(*       (src/urcu-bp.c:687-748)                                           *)
(* one action per shared-memory access or blocking call of the code, under *)
(* SC or x86-TSO store buffers, together with what they protect: call_rcu  *)
(* helper threads (flags, futex, qlen, wfcqueue at the granularity of its  *)
(* xchg / link store / splice), call_rcu(), rcu_barrier(), the hash-table  *)
(* work-queue worker and lazy grow, reader registration and sections.      *)
(*                                                                         *)
(* ONE WORLD, TWO CONFIGURATIONS.  After fork() parent and child share     *)
(* nothing, so they are explored separately: Follow = "P" continues with   *)
(* the parent (fork is a no-op on the state), Follow = "C" turns the state *)
(* into the child's: every thread except the caller is `gone` (it never    *)
(* takes another step, its store buffer is lost), mutexes owned by gone    *)
(* threads stay owned, memory is copied as it is.  Per-process properties  *)
(* (callback counters, termination) are exactly the properties of the two  *)
(* worlds; a recorded child execution is the parent's trace up to the fork *)
(* event followed by the child's own trace.                                *)
(*                                                                         *)
(* Objects: call_rcu_data c1, c2, .. in allocation order (never reused),   *)
(* helper / worker threads h1, h2, .. in creation order (hobj[h] is the    *)
(* object a thread serves: a cK or "wq", the rculfhash work queue);        *)
(* rcu_heads n<i>; rcu_barrier completions k<B> (k.count) with work items  *)
(* w<J>; resize work items rw<J>.  Queue object q: q.tail, Hq.next,        *)
(* q.flags, q.futex, q.qlen.  futex values below -2 are identified with -2 *)
(* (the code only compares with -1 and stores 0): the worker re-created in *)
(* the child starts from the inherited -1 and never sleeps again.          *)
(*                                                                         *)
(* Grace period: abstract (DESIGN: AbstractRcu) over the explicit registry *)
(* (reg) and the readers' counter words rctr.<t> (0, or the number of the  *)
(* open outermost section): gp_b takes the snapshot of the registered      *)
(* readers' open sections, gp_e is enabled when they have ended.  For bp   *)
(* the locks and the signal mask of urcu_bp_synchronize_rcu are explicit.  *)
(* gp.lock / gp_waiters of the other flavors are represented by ingp /     *)
(* gpstuck: a child forked while another thread is inside synchronize_rcu  *)
(* can never complete a grace period.                                      *)
(*                                                                         *)
(* Programs (Prog[t], records [op, n, x, w]); w = "b" | "p" | "c" restricts*)
(* an operation to both / the parent / the child:                          *)
(*   call n, sync, barrier, rl, ru, reg, unreg, create x, setthr x,        *)
(*   setcpu n x, cpu n, before, fork, after, bpbefore, bpafter, waitf,     *)
(*   waitb (harness: wait until call_rcu_before_fork has returned),        *)
(*   post n / wait n (harness: set flag n / wait until it is set),         *)
(*   add n (cds_lfht_add walking a chain of n nodes: check_resize for each *)
(*   chain length 3..n launches a lazy grow), htwait (harness: work queue  *)
(*   drained), resize n (cds_lfht_resize(ht, n), n a power of two >= size) *)
(*                                                                         *)
(* acc is the last-event ghost (trace validation); Mut are model-level     *)
(* mutants (negative controls), {} for every claim.                        *)
(***************************************************************************)
EXTENDS Integers, Sequences, FiniteSets, TLC

CONSTANTS Threads,    \* scenario thread ids (strings)
          Prog,       \* [Threads -> Seq(op record)]
          TSO,        \* TRUE: x86-TSO store buffers
          Tracing,    \* TRUE: maintain acc
          SBMax,      \* store-buffer capacity
          Flavor,     \* "mb" | "bp"
          RFence,     \* TRUE: readers fence after publishing their counter (mb; bp/memb without sys_membarrier)
          NCrd,       \* call_rcu_data structures that can be allocated
          NHelp,      \* helper / worker threads that can be created
          NCpu,       \* possible CPUs
          Ht,         \* TRUE: a resizable hash table (and its work queue, worker h1) exists before the run
          HtMax,      \* max_nr_buckets of the table
          Follow,     \* "P" | "C"
          Mut         \* subset of {"nosplice","joinold","nopausedwait","noprune","nestpost","keepold","noinitlock"}

NULL == "NULL"
RT == 1  STOP == 4  STOPPED == 8  PAUSE == 16  PAUSED == 32     \* urcu/call-rcu.h
WSTOP == 2  WPAUSE == 4  WPAUSED == 8                            \* src/workqueue.h
Has(v, b) == (v \div b) % 2 = 1
SetB(v, b) == IF Has(v, b) THEN v ELSE v + b
ClrB(v, b) == IF Has(v, b) THEN v - b ELSE v
Dec(v) == IF v <= -2 THEN -2 ELSE v - 1

CName(k) == "c" \o ToString(k)
HName(k) == "h" \o ToString(k)
Crdps == {CName(k) : k \in 1..NCrd}
WQ == "wq"
Qs == Crdps \cup {WQ}
Helpers == {HName(k) : k \in 1..NHelp}
Procs == Threads \cup Helpers
CM == "call_rcu.mutex"  GL == "gp.lock"  RL == "registry.lock"  FM == "lfht.fork_mutex"  RM == "resize_mutex"  IL == "bp.init_lock"
Mutexes == {CM, GL, RL, FM, RM, IL}

OpsOf(t) == {Prog[t][j] : j \in DOMAIN Prog[t]}
AllOps == UNION {OpsOf(t) : t \in Threads}
NName(i) == "n" \o ToString(i)
Nodes == {NName(o.n) : o \in {x \in AllOps : x.op = "call"}}
NBar == Cardinality({<<t, j>> \in Threads \X (1..20) : j \in DOMAIN Prog[t] /\ Prog[t][j].op = "barrier"})
NAdd == Cardinality({<<t, j>> \in Threads \X (1..20) : j \in DOMAIN Prog[t] /\ Prog[t][j].op = "add" /\ Prog[t][j].n >= 3})
KName(b) == "k" \o ToString(b)
WName(j) == "w" \o ToString(j)
RWName(j) == "rw" \o ToString(j)
Comps == {KName(b) : b \in 1..NBar}
Works == {WName(j) : j \in 1..(NBar * NCrd)}
RWorks == {RWName(j) : j \in 1..NAdd}
QNodes == Nodes \cup Works \cup RWorks

Hd(q) == "H" \o q
NextOf(n) == n \o ".next"
TailOf(q) == q \o ".tail"
FlagsOf(q) == q \o ".flags"
FutexOf(q) == q \o ".futex"
QlenOf(q) == q \o ".qlen"
CountOf(k) == k \o ".count"
RctrOf(t) == "rctr." \o t
QLocs(q) == {NextOf(Hd(q)), TailOf(q), FlagsOf(q), FutexOf(q), QlenOf(q)}
PtrLocs == {TailOf(q) : q \in Qs} \cup {NextOf(Hd(q)) : q \in Qs} \cup {NextOf(n) : n \in QNodes} \cup {"dflt"}
RLocs == {RctrOf(t) : t \in Procs}
IntLocs == UNION {{FlagsOf(q), FutexOf(q), QlenOf(q)} : q \in Qs} \cup {CountOf(k) : k \in Comps}
           \cup {"ht.size", "ht.target", "ht.init"} \cup RLocs
Locs == PtrLocs \cup IntLocs
ObjOf(l) == IF \E c \in Crdps : l \in QLocs(c) THEN CHOOSE c \in Crdps : l \in QLocs(c) ELSE "static"
LocObj == [l \in Locs |-> ObjOf(l)]
SV(l, v) == IF l \in IntLocs THEN ToString(v) ELSE v          \* event fields are strings

FlId(t) == "F:" \o t
Flushers == {FlId(t) : t \in Procs}
FlOf == [f \in Flushers |-> CHOOSE t \in Procs : FlId(t) = f]
NoOp == [op |-> "none", n |-> 0, x |-> 0, w |-> "b"]
Without(s, x) == SelectSeq(s, LAMBDA y : y # x)
NoSnap == [p \in Procs |-> 0]
Pow2(i) == IF i = 0 THEN 1 ELSE IF i = 1 THEN 2 ELSE IF i = 2 THEN 4 ELSE IF i = 3 THEN 8 ELSE 16

(* --algorithm fork {
variables
  mem = [l \in Locs |-> IF l \in IntLocs THEN (IF l \in {"ht.size", "ht.target"} THEN 1 ELSE 0)
                        ELSE IF \E q \in Qs : l = TailOf(q) THEN Hd(CHOOSE q \in Qs : l = TailOf(q))
                        ELSE NULL],
  sb = [t \in Procs |-> <<>>],
  mx = [m \in Mutexes |-> "free"],
  acc = [k |-> 0],
  fsleep = {},                              \* threads blocked in FUTEX_WAIT
  wloc = [t \in Procs |-> "-"],             \* ... and the futex word each sleeps on
  \* plain data (under a mutex, thread-private, or environment)
  crlist = <<>>,                            \* call_rcu_data_list, newest first
  ncrd = 0,                                 \* call_rcu_data allocated so far
  nh = IF Ht THEN 1 ELSE 0,                 \* helper / worker threads created so far
  started = [h \in Helpers |-> Ht /\ h = "h1"],
  hobj = [h \in Helpers |-> IF Ht /\ h = "h1" THEN WQ ELSE NULL],
  cpulen = 0,                               \* cpus_array_len
  pcpu = [c \in 0..(NCpu - 1) |-> NULL],    \* per_cpu_call_rcu_data[]
  tcrd = [t \in Procs |-> NULL],            \* URCU_TLS(thread_call_rcu_data)
  mycpu = [t \in Procs |-> 0],
  slot = [s \in 0..3 |-> NULL],             \* the scenario's call_rcu_data pointers
  smask = [t \in Procs |-> FALSE],          \* signals blocked
  bpsaved = FALSE,                          \* saved_fork_signal_mask
  nest = 0,                                 \* cds_lfht_workqueue_atfork_nesting
  hsize = 1,                                \* ht->size as known to the resizer (plain, under resize_mutex)
  nw = 0, nk = 0, nrw = 0,                  \* work items / completions / resize works allocated
  wk = [w \in Works |-> NULL],              \* work->completion
  \* readers and the abstract grace period
  reg = {},                                 \* registry
  rnest = [t \in Procs |-> 0],
  ncs = [t \in Procs |-> 0],
  ingp = {},                                \* threads inside synchronize_rcu (non-bp flavors)
  gpstuck = FALSE,                          \* child forked while another thread was inside synchronize_rcu
  \* the fork
  forked = FALSE, inchild = FALSE, gone = {}, forker = NULL, bdone = FALSE, flags = {},
  \* ghosts of the properties
  cnt = [n \in Nodes |-> 0],                \* invocations of n's callback in this process history
  called = {},                              \* nodes passed to call_rcu
  queued = {},                              \* ... whose call_rcu has returned
  bsnap = [t \in Threads |-> {}],
  alive = [c \in Crdps |-> "no"],
  uaf = FALSE,
  errs = {},
  \* per-thread temporaries (procedures have no locals)
  pci = [t \in Threads |-> 1],
  opx = [t \in Threads |-> NoOp],
  iv = [t \in Procs |-> 0],
  pa = [t \in Procs |-> NULL],
  hd = [t \in Procs |-> NULL],
  tl = [t \in Procs |-> NULL],
  old = [t \in Procs |-> NULL],
  cur = [t \in Procs |-> NULL],
  nx = [t \in Procs |-> NULL],
  cbc = [t \in Procs |-> 0],
  en = [t \in Procs |-> NULL],
  ec = [t \in Procs |-> NULL],
  wc = [t \in Procs |-> NULL],
  gd = [t \in Procs |-> NULL],
  fc = [t \in Procs |-> NULL],
  dc = [t \in Procs |-> NULL],
  newc = [t \in Procs |-> NULL],
  cidef = [t \in Procs |-> FALSE],
  cn = [t \in Procs |-> NULL],
  bk = [t \in Procs |-> NULL],
  regs = [t \in Procs |-> <<>>],
  kk = [t \in Procs |-> 1],
  om = [t \in Procs |-> FALSE],             \* saved signal mask (local oldmask)
  tgt = [t \in Procs |-> 1],                \* resize: new_size / target
  asz = [t \in Procs |-> 1],                \* cds_lfht_add: size = rcu_dereference(ht->size)
  cl = [t \in Procs |-> 0],                 \* cds_lfht_add: chain_len
  ord = [t \in Procs |-> 0],                \* resize: order being initialised
  gps = [t \in Procs |-> NoSnap];

define {
  LastIdx(t, loc) == LET S == {i \in DOMAIN sb[t] : sb[t][i][1] = loc} IN
                     IF S = {} THEN 0 ELSE CHOOSE i \in S : \A j \in S : j <= i
  Rd(t, loc) == IF LastIdx(t, loc) = 0 THEN mem[loc] ELSE sb[t][LastIdx(t, loc)][2]
  Drained(t) == sb[t] = <<>>
  Ev(t, op, var, a, b, r) == IF Tracing THEN [k |-> acc.k + 1, t |-> t, op |-> op, var |-> var, a |-> a, b |-> b, r |-> r] ELSE acc
  Dead(loc) == LocObj[loc] # "static" /\ alive[LocObj[loc]] = "freed"
  Sleepers(loc) == {p \in fsleep : wloc[p] = loc}
  GpEnded(s) == \A p \in Procs : s[p] = 0 \/ mem[RctrOf(p)] # s[p]
  Snap(t) == [p \in Procs |-> IF p \in reg /\ p # t THEN mem[RctrOf(p)] ELSE 0]
  Order(n) == IF n <= 1 THEN 0 ELSE IF n = 2 THEN 1 ELSE IF n <= 4 THEN 2 ELSE IF n <= 8 THEN 3 ELSE 4
  Applies(o) == o.w = "b" \/ (o.w = "p" /\ ~inchild) \/ (o.w = "c" /\ inchild)
}

macro Ld(dst, loc)    { dst := Rd(self, loc); uaf := uaf \/ Dead(loc); acc := Ev(self, "ld", loc, "-", "-", SV(loc, Rd(self, loc))); }
macro St(loc, v)      { if (TSO) { await Len(sb[self]) < SBMax; sb[self] := Append(sb[self], <<loc, v>>) } else { mem[loc] := v };
                        uaf := uaf \/ Dead(loc); acc := Ev(self, "st", loc, SV(loc, v), "-", "-"); }
\* plain store (no event): the executed runtime commits it at once, after draining the thread's buffer
macro PlainSt(loc, v) { await Drained(self); mem[loc] := v; }
macro Xchg(dst, loc, v) { await Drained(self); dst := mem[loc]; mem[loc] := v; uaf := uaf \/ Dead(loc); acc := Ev(self, "xchg", loc, v, "-", dst); }
\* locked read-modify-write; `new` is evaluated in the state before the step (acc is assigned first)
macro Rmw(opn, loc, a, new) { await Drained(self); acc := Ev(self, opn, loc, a, "-", ToString(new)); uaf := uaf \/ Dead(loc); mem[loc] := new; }
macro Mb()            { await Drained(self); }                  \* fences are not attributed to a location in the trace: silent
macro Lock(m)         { await Drained(self) /\ mx[m] = "free"; mx[m] := self; acc := Ev(self, "lock", m, "-", "-", "-"); }
macro Unlock(m)       { await Drained(self); mx[m] := "free"; acc := Ev(self, "unlock", m, "-", "-", "-"); }
macro FWake(loc)      { await Drained(self); uaf := uaf \/ Dead(loc); acc := Ev(self, "fwake", loc, "-", "-", ToString(Cardinality(Sleepers(loc))));
                        fsleep := fsleep \ Sleepers(loc); }
macro Mask(v)         { smask[self] := v; acc := Ev(self, "sigmask", "-", "-", "-", IF v THEN "1" ELSE "0"); }
macro Fail(what)      { errs := errs \cup {what} }

\* ------------------------------------------------------------------ rcu_read_lock / rcu_read_unlock (counter word rctr.<self>)
procedure rlock() {
rl_st:  if (rnest[self] = 0) { ncs[self] := ncs[self] + 1 };        \* URCU_TLS(rcu_reader).ctr = gp.ctr (outermost) / ctr + 1   (relaxed store)
        rnest[self] := rnest[self] + 1;
        if (TSO) { await Len(sb[self]) < SBMax; sb[self] := Append(sb[self], <<RctrOf(self), ncs[self]>>) } else { mem[RctrOf(self)] := ncs[self] };
        acc := Ev(self, "st", RctrOf(self), ToString(rnest[self]), "-", "-");
rl_mb:  if (rnest[self] = 1 /\ (Flavor = "mb" \/ RFence)) { Mb() };   \* outermost: cmm_smp_mb() (mb) / urcu_bp_smp_mb_slave() (bp: a fence only without sys_membarrier)
        return;
}
procedure runlock() {
ru_mb:  if (Flavor = "bp" /\ RFence) { Mb() };                    \* urcu_bp_smp_mb_slave()
ru_st:  rnest[self] := rnest[self] - 1;                           \* ctr - 1: mb outermost: uatomic_store(.., CMM_SEQ_CST); otherwise relaxed
        if (TSO /\ ~(Flavor = "mb" /\ rnest[self] = 0)) {
          await Len(sb[self]) < SBMax; sb[self] := Append(sb[self], <<RctrOf(self), IF rnest[self] = 0 THEN 0 ELSE ncs[self]>>) }
        else { await Drained(self); mem[RctrOf(self)] := IF rnest[self] = 0 THEN 0 ELSE ncs[self] };
        acc := Ev(self, "st", RctrOf(self), ToString(rnest[self]), "-", "-");
        return;
}

\* ------------------------------------------------------------------ rcu_register_thread / rcu_unregister_thread (mb, memb)
procedure register() {
rg_lock: Lock(RL);                                                \* mutex_lock(&rcu_registry_lock)
rg_unl: reg := reg \cup {self};                                   \* cds_list_add(&rcu_reader.node, &registry); mutex_unlock
        Unlock(RL);
        return;
}
procedure unregister() {
ug_lock: Lock(RL);
ug_unl: reg := reg \ {self};                                      \* cds_list_del(&rcu_reader.node); mutex_unlock
        Unlock(RL);
        return;
}
\* ------------------------------------------------------------------ urcu_bp_register() (lazy; also rcu_register_thread of bp)
procedure bp_register() {
br_mask: om[self] := smask[self];                                 \* pthread_sigmask(SIG_BLOCK, &newmask, &oldmask)
        Mask(TRUE);
br_il:  Lock(IL);                                                 \* _urcu_bp_init(): mutex_lock(&init_lock)
br_iu:  Unlock(IL);                                               \*                  mutex_unlock(&init_lock)
br_lock: Lock(RL);                                                \* mutex_lock(&rcu_registry_lock)
br_unl: reg := reg \cup {self};                                   \* add_thread(); mutex_unlock(&rcu_registry_lock)
        Unlock(RL);
br_unmask: Mask(om[self]);                                        \* pthread_sigmask(SIG_SETMASK, &oldmask, NULL)
        return;
}

\* ------------------------------------------------------------------ synchronize_rcu()
procedure gp() {
gp_b:   await Drained(self) /\ ~gpstuck;                          \* urcu_wait_add(&gp_waiters, &wait) .. (abstract grace period)
        gps[self] := Snap(self);
        ingp := ingp \cup {self};
        acc := Ev(self, "gp_begin", "-", "-", "-", "-");
gp_e:   await GpEnded(gps[self]);
        ingp := ingp \ {self};
        return;
}
procedure bp_sync() {
bs_mask: om[self] := smask[self];                                 \* pthread_sigmask(SIG_BLOCK, &newmask, &oldmask)
        Mask(TRUE);
bs_gl:  Lock(GL);                                                 \* mutex_lock(&rcu_gp_lock)
bs_rl:  Lock(RL);                                                 \* mutex_lock(&rcu_registry_lock)
        gps[self] := Snap(self);
bs_loop: either { await GpEnded(gps[self]); goto bs_url }         \* wait_for_readers() x 2 (abstract), registry lock released between scans
        or { await Tracing \/ ~GpEnded(gps[self]);
             Unlock(RL);                                          \*   mutex_unlock(&rcu_registry_lock); poll / cpu_relax
bs_rel:      Lock(RL);                                            \*   mutex_lock(&rcu_registry_lock)
             goto bs_loop };
bs_url: Unlock(RL);                                               \* mutex_unlock(&rcu_registry_lock)
bs_ugl: Unlock(GL);                                               \* mutex_unlock(&rcu_gp_lock)
bs_unmask: Mask(om[self]);                                        \* pthread_sigmask(SIG_SETMASK, &oldmask, NULL)
        return;
}

\* ------------------------------------------------------------------ wake_call_rcu_thread(wc) / wake_worker_thread(wc)
procedure wake() {
wk_fl:  Ld(iv[self], FlagsOf(wc[self]));                          \* if (!(uatomic_load(&crdp->flags) & URCU_CALL_RCU_RT))
        if (Has(iv[self], RT)) { return };
wk_mb:  Mb();                                                     \* cmm_smp_mb()
wk_ld:  Ld(iv[self], FutexOf(wc[self]));                          \* if (uatomic_load(&crdp->futex) == -1)
        if (iv[self] # -1) { return };
wk_st:  St(FutexOf(wc[self]), 0);                                 \*   uatomic_store(&crdp->futex, 0)
wk_fw:  FWake(FutexOf(wc[self]));                                 \*   futex_async(&crdp->futex, FUTEX_WAKE, 1, ...)
        return;
}

\* ------------------------------------------------------------------ _call_rcu(en, func, ec) / urcu_workqueue_queue_work(ec, en, func)
procedure enqueue() {
e_mb:   Mb();                                                     \* cds_wfcq_enqueue: cmm_emit_legacy_smp_mb()
e_xchg: Xchg(old[self], TailOf(ec[self]), en[self]);              \* old_tail = uatomic_xchg(&tail->p, new_tail)
e_link: St(NextOf(old[self]), en[self]);                          \* uatomic_store(&old_tail->next, new_head, RELEASE)
e_qlen: Rmw("inc", QlenOf(ec[self]), "-", mem[QlenOf(ec[self])] + 1);   \* uatomic_inc(&crdp->qlen)
        wc[self] := ec[self];
        call wake();
e_ret:  return;
}

\* ------------------------------------------------------------------ call_rcu_data_init(crdpp, 0, -1)  (call_rcu_mutex held)
procedure data_init() {
ci_new: await ncrd < NCrd;                                        \* malloc, memset, cds_wfcq_init, qlen = futex = 0, flags, cds_list_add
        newc[self] := CName(ncrd + 1);
        ncrd := ncrd + 1;
        alive[newc[self]] := "yes";
        crlist := <<newc[self]>> \o crlist;
        acc := Ev(self, "alloc", newc[self], "-", "-", "-");
ci_pub: if (cidef[self]) { St("dflt", newc[self]) };              \* rcu_set_pointer(crdpp, crdp)
ci_mask: om[self] := smask[self];                                 \* pthread_sigmask(SIG_BLOCK, &newmask, &oldmask)
        Mask(TRUE);
ci_spawn: await nh < NHelp;                                       \* pthread_create(&crdp->tid, NULL, call_rcu_thread, crdp)
        started[HName(nh + 1)] := TRUE;
        hobj[HName(nh + 1)] := newc[self];
        nh := nh + 1;
        acc := Ev(self, "spawn", HName(nh), "-", "-", "-");
ci_unmask: Mask(om[self]);                                        \* pthread_sigmask(SIG_SETMASK, &oldmask, NULL)
        return;
}

\* ------------------------------------------------------------------ get_default_call_rcu_data() -> gd
procedure get_default() {
gd_ld:  Ld(gd[self], "dflt");                                     \* crdp = rcu_dereference(default_call_rcu_data)
        if (gd[self] # NULL) { return };
gd_lock: Lock(CM);                                                \* call_rcu_lock(&call_rcu_mutex)
        if (Rd(self, "dflt") = NULL) {                            \* if (default_call_rcu_data == NULL)
          cidef[self] := TRUE;
          call data_init();                                       \*   call_rcu_data_init(&default_call_rcu_data, 0, -1)
        };
gd_unl: gd[self] := Rd(self, "dflt");                             \* crdp = default_call_rcu_data
        Unlock(CM);
        return;
}

\* ------------------------------------------------------------------ call_rcu(cn, cb)
procedure call_rcu() {
cr_rl:  if (Flavor = "bp" /\ self \notin reg) { call bp_register() };   \* _rcu_read_lock(): lazy registration (bp)
cr_rl2: call rlock();
cr_sel: if (tcrd[self] # NULL) { ec[self] := tcrd[self]; goto cr_enq }                \* get_call_rcu_data()
        else if (cpulen > 0 /\ pcpu[mycpu[self]] # NULL) { ec[self] := pcpu[mycpu[self]]; goto cr_enq }
        else { call get_default() };
cr_got: ec[self] := gd[self];
cr_enq: en[self] := cn[self];                                     \* cds_wfcq_node_init(&head->next); head->func = func
        call enqueue();
cr_ru:  call runlock();                                           \* _rcu_read_unlock()
cr_ret: return;
}

\* ------------------------------------------------------------------ rcu_barrier()
procedure barrier() {
b_lock: Lock(CM);                                                 \* call_rcu_lock(&call_rcu_mutex); count the call_rcu_data
        regs[self] := crlist; kk[self] := 1;
        bk[self] := KName(nk + 1); nk := nk + 1;
b_cnt:  PlainSt(CountOf(bk[self]), Len(regs[self]));              \* urcu_ref_set(&completion->ref, count + 1); completion->barrier_count = count
b_loop: while (kk[self] <= Len(regs[self])) {                     \* cds_list_for_each_entry(crdp, &call_rcu_data_list, list)
          en[self] := WName(nw + 1);                              \*   work = calloc(); work->completion = completion
          wk[WName(nw + 1)] := bk[self];
          nw := nw + 1;
          ec[self] := regs[self][kk[self]];
          kk[self] := kk[self] + 1;
          call enqueue();                                         \*   _call_rcu(&work->head, _rcu_barrier_complete, crdp)
        };
b_unl:  Unlock(CM);                                               \* call_rcu_unlock(&call_rcu_mutex)
b_ldc:  Ld(iv[self], CountOf(bk[self]));                          \* for (;;) { uatomic_dec(&completion->futex); mb; if (!uatomic_load(&completion->barrier_count)) break;
        if (iv[self] = 0) { return };
b_wait: await Tracing \/ mem[CountOf(bk[self])] = 0;              \*   call_rcu_completion_wait(completion) }   (futex sleep: abstract)
        goto b_ldc;
}

\* ------------------------------------------------------------------ rculfhash atfork handlers (registered_rculfhash_atfork)
procedure lf_before() {
lb_nest: nest := nest + 1;                                        \* if (cds_lfht_workqueue_atfork_nesting++) return
        if (nest > 1) { return };
lb_lock: Lock(FM);                                                \* mutex_lock(&cds_lfht_fork_mutex)
lb_or:  Rmw("or", FlagsOf(WQ), ToString(WPAUSE), SetB(mem[FlagsOf(WQ)], WPAUSE));   \* urcu_workqueue_pause_worker: uatomic_or(&flags, PAUSE)
        wc[self] := WQ;
        call wake();                                              \*   wake_worker_thread(workqueue)
lb_wait: Ld(iv[self], FlagsOf(WQ));                               \*   while ((uatomic_read(&flags) & PAUSED) == 0) poll(NULL, 0, 1)
        if (~Has(iv[self], WPAUSED)) { goto lb_wait };
lb_ret: return;
}
procedure lf_after_parent() {
lp_nest: nest := nest - 1;                                        \* if (--cds_lfht_workqueue_atfork_nesting) return   (mutant nestpost: nesting-- tested before the decrement)
        if (nest # 0 \/ "nestpost" \in Mut) { return };
lp_and: Rmw("and", FlagsOf(WQ), ToString(-(WPAUSE + 1)), ClrB(mem[FlagsOf(WQ)], WPAUSE));   \* urcu_workqueue_resume_worker: uatomic_and(&flags, ~PAUSE)
lp_wait: Ld(iv[self], FlagsOf(WQ));                               \*   while ((uatomic_read(&flags) & PAUSED) != 0) poll(NULL, 0, 1)
        if (Has(iv[self], WPAUSED)) { goto lp_wait };
lp_unl: Unlock(FM);                                               \* mutex_unlock(&cds_lfht_fork_mutex)
        return;
}
procedure lf_after_child() {
lc_nest: nest := nest - 1;                                        \* if (--cds_lfht_workqueue_atfork_nesting) return
        if (nest # 0) { return };
lc_mask: PlainSt(FlagsOf(WQ), ClrB(ClrB(mem[FlagsOf(WQ)], WPAUSED), WPAUSE));   \* urcu_workqueue_create_worker: flags &= ~PAUSED; flags &= ~PAUSE; tid = 0
        om[self] := smask[self];                                  \*   pthread_sigmask(SIG_BLOCK, &newmask, &oldmask)
        Mask(TRUE);
lc_spawn: await nh < NHelp;                                       \*   pthread_create(&workqueue->tid, NULL, workqueue_thread, workqueue)
        started[HName(nh + 1)] := TRUE;
        hobj[HName(nh + 1)] := WQ;
        nh := nh + 1;
        acc := Ev(self, "spawn", HName(nh), "-", "-", "-");
lc_unmask: Mask(om[self]);                                        \*   pthread_sigmask(SIG_SETMASK, &oldmask, NULL)
lc_unl: Unlock(FM);                                               \* mutex_unlock(&cds_lfht_fork_mutex)
        return;
}

\* ------------------------------------------------------------------ call_rcu_before_fork()
procedure before_fork() {
bf_lock: Lock(CM);                                                \* call_rcu_lock(&call_rcu_mutex)
        regs[self] := crlist; kk[self] := 1;
        if (Ht) { call lf_before() };                             \* atfork->before_fork(atfork->priv)
bf_or:  while (kk[self] <= Len(regs[self])) {                     \* cds_list_for_each_entry: uatomic_or(&crdp->flags, URCU_CALL_RCU_PAUSE)
          Rmw("or", FlagsOf(regs[self][kk[self]]), ToString(PAUSE), SetB(mem[FlagsOf(regs[self][kk[self]])], PAUSE));
          wc[self] := regs[self][kk[self]];
          kk[self] := kk[self] + 1;
          call wake();                                            \*   wake_call_rcu_thread(crdp)
        };
bf_w0:  kk[self] := 1;
        if ("nopausedwait" \in Mut) { return };
bf_wait: while (kk[self] <= Len(regs[self])) {                    \* while ((uatomic_load(&crdp->flags) & URCU_CALL_RCU_PAUSED) == 0) poll(NULL, 0, 1)
          Ld(iv[self], FlagsOf(regs[self][kk[self]]));
          if (Has(iv[self], PAUSED)) { kk[self] := kk[self] + 1 };
        };
        return;
}
\* ------------------------------------------------------------------ call_rcu_after_fork_parent()
procedure after_parent() {
af_0:   regs[self] := crlist; kk[self] := 1;
af_and: while (kk[self] <= Len(regs[self])) {                     \* uatomic_and(&crdp->flags, ~URCU_CALL_RCU_PAUSE)
          Rmw("and", FlagsOf(regs[self][kk[self]]), ToString(-(PAUSE + 1)), ClrB(mem[FlagsOf(regs[self][kk[self]])], PAUSE));
          kk[self] := kk[self] + 1;
        };
af_w0:  kk[self] := 1;
af_wait: while (kk[self] <= Len(regs[self])) {                    \* while ((uatomic_load(&crdp->flags) & URCU_CALL_RCU_PAUSED) != 0) poll(NULL, 0, 1)
          Ld(iv[self], FlagsOf(regs[self][kk[self]]));
          if (~Has(iv[self], PAUSED)) { kk[self] := kk[self] + 1 };
        };
af_lf:  if (Ht) { call lf_after_parent() };                       \* atfork->after_fork_parent(atfork->priv)
af_unl: Unlock(CM);                                               \* call_rcu_unlock(&call_rcu_mutex)
        return;
}

\* ------------------------------------------------------------------ _call_rcu_data_free(fc, 0): no join, the thread does not exist in the child
procedure data_free0() {
f_ld:   Ld(iv[self], FlagsOf(fc[self]));                          \* if ((uatomic_load(&crdp->flags) & URCU_CALL_RCU_STOPPED) == 0) (never: just stored)
f_lock: Lock(CM);                                                 \* call_rcu_lock(&call_rcu_mutex)
        if ("nosplice" \in Mut) { goto f_unl2 };
f_e1:   Ld(pa[self], NextOf(Hd(fc[self])));                       \* if (!cds_wfcq_empty(&crdp->cbs_head, &crdp->cbs_tail))
        if (pa[self] # NULL) { goto f_unl1 };
f_e2:   Ld(pa[self], TailOf(fc[self]));
        if (pa[self] = Hd(fc[self])) { goto f_unl2 };
f_unl1: Unlock(CM);                                               \* call_rcu_unlock(&call_rcu_mutex)
        call get_default();                                       \* (void) get_default_call_rcu_data()
f_lock2: Lock(CM);                                                \* call_rcu_lock(&call_rcu_mutex)
        dc[self] := Rd(self, "dflt");
fs_e1:  Ld(pa[self], NextOf(Hd(fc[self])));                       \* __cds_wfcq_splice_blocking(default, crdp): _cds_wfcq_empty(src)
        if (pa[self] # NULL) { goto fs_xh };
fs_e2:  Ld(pa[self], TailOf(fc[self]));
        if (pa[self] = Hd(fc[self])) { goto f_ldq };
fs_xh:  Xchg(hd[self], NextOf(Hd(fc[self])), NULL);               \* head = uatomic_xchg(&src_q_head->node.next, NULL)
        if (hd[self] # NULL) { goto fs_mb };
fs_lt:  Ld(pa[self], TailOf(fc[self]));                           \* if (uatomic_load(&src_q_tail->p) == &src_q_head->node) return SRC_EMPTY
        if (pa[self] = Hd(fc[self])) { goto f_ldq } else { goto fs_xh };
fs_mb:  Mb();                                                     \* cmm_emit_legacy_smp_mb()
fs_xt:  Xchg(tl[self], TailOf(fc[self]), Hd(fc[self]));           \* tail = uatomic_xchg(&src_q_tail->p, &src_q_head->node)
fs_ax:  Xchg(old[self], TailOf(dc[self]), tl[self]);              \* ___cds_wfcq_append(dest, head, tail): xchg(&dest_tail->p, tail)
fs_al:  St(NextOf(old[self]), hd[self]);                          \*   uatomic_store(&old_tail->next, head, RELEASE)
f_ldq:  Ld(iv[self], QlenOf(fc[self]));                           \* uatomic_add(&default->qlen, uatomic_load(&crdp->qlen))
f_add:  Rmw("add", QlenOf(dc[self]), ToString(iv[self]), mem[QlenOf(dc[self])] + iv[self]);
        wc[self] := dc[self];
        call wake();                                              \* wake_call_rcu_thread(default_call_rcu_data)
f_unl2: if ("keepold" \notin Mut) { crlist := Without(crlist, fc[self]) };   \* cds_list_del(&crdp->list); call_rcu_unlock(&call_rcu_mutex)
        Unlock(CM);
f_join: if ("joinold" \in Mut) {                                  \* (mutant: CRDF_FLAG_JOIN_THREAD) pthread_join(crdp->tid)
          await \E h \in Helpers : hobj[h] = fc[self] /\ pc[h] = "Done" };
f_free: if (alive[fc[self]] # "yes") { Fail("call_rcu_data freed twice") };   \* free(crdp)
        alive[fc[self]] := "freed";
        hd[self] := NULL; tl[self] := NULL;
        acc := Ev(self, "free", fc[self], "-", "-", "-");
        return;
}

\* ------------------------------------------------------------------ call_rcu_after_fork_child()
procedure after_child() {
ac_unl: Unlock(CM);                                               \* call_rcu_unlock(&call_rcu_mutex)
ac_lf:  if (Ht) { call lf_after_child() };                        \* atfork->after_fork_child(atfork->priv)
ac_chk: if (crlist = <<>>) { return };                            \* if (cds_list_empty(&call_rcu_data_list)) return
ac_dflt: PlainSt("dflt", NULL);                                   \* default_call_rcu_data = NULL
        call get_default();                                       \* (void) get_default_call_rcu_data()
ac_reset: cpulen := 0;                                            \* cpus_array_len_reset(); free(per_cpu_call_rcu_data); per_cpu_call_rcu_data = NULL
        pcpu := [c \in 0..(NCpu - 1) |-> NULL];
        tcrd[self] := NULL;                                       \* URCU_TLS(thread_call_rcu_data) = NULL
        regs[self] := crlist; kk[self] := 1;                      \* cds_list_for_each_entry_safe(crdp, next, &call_rcu_data_list, list)
ac_loop: while (kk[self] <= Len(regs[self])) {
          if (regs[self][kk[self]] = Rd(self, "dflt")) { kk[self] := kk[self] + 1 }    \* if (crdp == default_call_rcu_data) continue
          else {
            fc[self] := regs[self][kk[self]];
            kk[self] := kk[self] + 1;
            St(FlagsOf(fc[self]), STOPPED);                       \* uatomic_store(&crdp->flags, URCU_CALL_RCU_STOPPED)
            call data_free0();                                    \* _call_rcu_data_free(crdp, 0)
          }
        };
        return;
}

\* ------------------------------------------------------------------ urcu_bp_before_fork / after_fork_parent / after_fork_child
procedure bp_before() {
bb_mask: om[self] := smask[self];                                 \* pthread_sigmask(SIG_BLOCK, &newmask, &oldmask)
        Mask(TRUE);
bb_il:  if ("noinitlock" \notin Mut) { Lock(IL) };                \* mutex_lock(&init_lock)   (repair 534a091; mutant: the unrepaired handlers)
bb_gl:  Lock(GL);                                                 \* mutex_lock(&rcu_gp_lock)
bb_rl:  Lock(RL);                                                 \* mutex_lock(&rcu_registry_lock)
        bpsaved := om[self];                                      \* saved_fork_signal_mask = oldmask
        return;
}
procedure bp_after_parent() {
ba_url: Unlock(RL);                                               \* mutex_unlock(&rcu_registry_lock)
ba_ugl: Unlock(GL);                                               \* mutex_unlock(&rcu_gp_lock)
ba_uil: if ("noinitlock" \notin Mut) { Unlock(IL) };              \* mutex_unlock(&init_lock)
ba_unmask: Mask(bpsaved);                                         \* pthread_sigmask(SIG_SETMASK, &oldmask, NULL)
        return;
}
procedure bp_after_child() {
bc_url: await Drained(self);                                      \* urcu_bp_prune_registry(): cleanup_thread() of every slot but our own; mutex_unlock(&rcu_registry_lock)
        if ("noprune" \notin Mut) {
          reg := reg \cap {self};
          mem := [l \in Locs |-> IF l \in RLocs /\ l # RctrOf(self) THEN 0 ELSE mem[l]] };
        mx[RL] := "free";
        acc := Ev(self, "unlock", RL, "-", "-", "-");
bc_ugl: Unlock(GL);                                               \* mutex_unlock(&rcu_gp_lock)
bc_uil: if ("noinitlock" \notin Mut) { Unlock(IL) };              \* mutex_unlock(&init_lock)
bc_unmask: Mask(bpsaved);                                         \* pthread_sigmask(SIG_SETMASK, &oldmask, NULL)
        return;
}

\* ------------------------------------------------------------------ cds_lfht_add() that launches a lazy grow: cds_lfht_resize_lazy_grow(ht, size, growth)
procedure lazy_grow() {
lg_ldt: Ld(iv[self], "ht.target");                                \* _uatomic_xchg_monotonic_increase(&ht->resize_target, target): old = uatomic_read
        if (iv[self] >= tgt[self]) { return };                    \*   if (old >= v) return old
lg_cas: await Drained(self);                                      \*   uatomic_cmpxchg(ptr, old, v)
        acc := Ev(self, "cas", "ht.target", ToString(iv[self]), ToString(tgt[self]), ToString(mem["ht.target"]));
        if (mem["ht.target"] = iv[self]) { mem["ht.target"] := tgt[self] } else { iv[self] := mem["ht.target"]; goto lg_chk };
lg_ldi: Ld(iv[self], "ht.init");                                  \* __cds_lfht_resize_lazy_launch: if (!uatomic_load(&ht->resize_initiated))
        if (iv[self] # 0) { return };
lg_alloc: en[self] := RWName(nrw + 1);                            \*   work = ht->alloc->malloc(); work->ht = ht
        nrw := nrw + 1;
        ec[self] := WQ;
        acc := Ev(self, "walloc", RWName(nrw), "-", "-", "-");
        call enqueue();                                           \*   urcu_workqueue_queue_work(cds_lfht_workqueue, &work->work, do_resize_cb)
lg_sti: St("ht.init", 1);                                         \*   uatomic_store(&ht->resize_initiated, 1)
        return;
lg_chk: if (iv[self] >= tgt[self]) { return } else { goto lg_cas };
}

\* ------------------------------------------------------------------ _do_cds_lfht_resize(ht)  (resize_mutex held; growing only)
procedure do_resize() {
rz_st1: St("ht.init", 1);                                         \* do { uatomic_store(&ht->resize_initiated, 1); old_size = ht->size
rz_ldt: Ld(tgt[self], "ht.target");                               \*      new_size = uatomic_load(&ht->resize_target)
        if (hsize >= tgt[self]) { goto rz_st0 }                   \*      (shrinking is not part of the scenarios)
        else { ord[self] := Order(hsize) + 1 };                   \*      _do_cds_lfht_grow -> init_table(ht, old_order + 1, new_order)
rz_chk: Ld(iv[self], "ht.target");                                \*      if (CMM_LOAD_SHARED(ht->resize_target) < (1UL << i)) break
        if (iv[self] < Pow2(ord[self])) { goto rz_st0 };
rz_pop: call rlock();                                             \*      cds_lfht_alloc_bucket_table(); init_table_populate_partition(): ht->flavor->read_lock()
rz_pop2: call runlock();                                          \*        link the bucket nodes of order i; ht->flavor->read_unlock()
rz_size: St("ht.size", Pow2(ord[self]));                          \*      CMM_STORE_SHARED(ht->size, 1UL << i)
        hsize := Pow2(ord[self]);
        if (ord[self] < Order(tgt[self])) { ord[self] := ord[self] + 1; goto rz_chk };
rz_st0: St("ht.init", 0);                                         \*      uatomic_store(&ht->resize_initiated, 0)
rz_mb:  Mb();                                                     \*      cmm_smp_mb()
rz_ldt2: Ld(iv[self], "ht.target");                               \* } while (ht->size != uatomic_load(&ht->resize_target))
        if (hsize # iv[self]) { goto rz_st1 };
rz_ret: return;
}

fair process (flusher \in Flushers) {
fl: while (TRUE) {
      await sb[FlOf[self]] # <<>>;
      mem[Head(sb[FlOf[self]])[1]] := Head(sb[FlOf[self]])[2] || sb[FlOf[self]] := Tail(sb[FlOf[self]])
      || acc := IF Tracing THEN [k |-> acc.k + 1, t |-> FlOf[self], op |-> "flush", var |-> Head(sb[FlOf[self]])[1],
                               a |-> IF Head(sb[FlOf[self]])[1] \in RLocs THEN "-" ELSE SV(Head(sb[FlOf[self]])[1], Head(sb[FlOf[self]])[2]),
                               b |-> "-", r |-> "-"] ELSE acc;
    }
}

\* ------------------------------------------------------------------ call_rcu_thread(crdp) / workqueue_thread(workqueue), object = hobj[self]
fair process (helper \in Helpers) {
h_idle: await started[self];
        if (hobj[self] = WQ) { goto q_flags };
h_flags: Ld(iv[self], FlagsOf(hobj[self]));                       \* rt = !!(uatomic_load(&crdp->flags) & URCU_CALL_RCU_RT)
h_reg:  if (Flavor = "bp") { call bp_register() } else { call register() };   \* rcu_register_thread()
h_dec0: tcrd[self] := hobj[self];                                 \* URCU_TLS(thread_call_rcu_data) = crdp
        Rmw("dec", FutexOf(hobj[self]), "-", Dec(mem[FutexOf(hobj[self])]));   \* uatomic_dec(&crdp->futex)
h_mb0:  Mb();
h_top:  Ld(iv[self], FlagsOf(hobj[self]));                        \* for (;;) { if (uatomic_load(&crdp->flags) & URCU_CALL_RCU_PAUSE)
        if (~Has(iv[self], PAUSE)) { goto s_e1 };
p_unreg: if (Flavor # "bp") { call unregister() };                 \* rcu_unregister_thread()  (bp: empty)
p_or:   Rmw("or", FlagsOf(hobj[self]), ToString(PAUSED), SetB(mem[FlagsOf(hobj[self])], PAUSED));   \* uatomic_or(&crdp->flags, URCU_CALL_RCU_PAUSED)
p_wait: Ld(iv[self], FlagsOf(hobj[self]));                        \* while ((uatomic_load(&crdp->flags) & URCU_CALL_RCU_PAUSE) != 0) poll(NULL, 0, 1)
        if (Has(iv[self], PAUSE)) { goto p_wait };
p_and:  Rmw("and", FlagsOf(hobj[self]), ToString(-(PAUSED + 1)), ClrB(mem[FlagsOf(hobj[self])], PAUSED));   \* uatomic_and(&crdp->flags, ~URCU_CALL_RCU_PAUSED)
p_reg:  if (Flavor # "bp" /\ self \notin reg) { call register() };   \* rcu_register_thread()  (bp: already registered)
s_e1:   Ld(pa[self], NextOf(Hd(hobj[self])));                     \* __cds_wfcq_splice_blocking(&cbs_tmp, &crdp->cbs): _cds_wfcq_empty(src)
        if (pa[self] # NULL) { goto s_xh };
s_e2:   Ld(pa[self], TailOf(hobj[self]));
        if (pa[self] = Hd(hobj[self])) { goto h_stop };
s_xh:   Xchg(hd[self], NextOf(Hd(hobj[self])), NULL);             \* head = uatomic_xchg(&src_q_head->node.next, NULL)
        if (hd[self] # NULL) { goto s_mb };
s_lt:   Ld(pa[self], TailOf(hobj[self]));                         \* if (uatomic_load(&src_q_tail->p) == &src_q_head->node) return SRC_EMPTY
        if (pa[self] = Hd(hobj[self])) { goto h_stop } else { goto s_xh };
s_mb:   Mb();
s_xt:   Xchg(tl[self], TailOf(hobj[self]), Hd(hobj[self]));       \* tail = uatomic_xchg(&src_q_tail->p, &src_q_head->node)
        cur[self] := hd[self]; cbc[self] := 0;
h_gp:   if (Flavor = "bp") { call bp_sync() } else { call gp() }; \* synchronize_rcu()
it_ld:  Ld(nx[self], NextOf(cur[self]));                          \* __cds_wfcq_for_each_blocking_safe: ___cds_wfcq_next: node->next (sync_next unless tail)
        if (nx[self] = NULL /\ cur[self] # tl[self]) { goto it_ld };
it_inv: if (cur[self] \in Works) {                                \* rhp->func(rhp): _rcu_barrier_complete: uatomic_sub_return(&completion->barrier_count, 1)
          Rmw("addret", CountOf(wk[cur[self]]), "-1", mem[CountOf(wk[cur[self]])] - 1)
        } else {                                                  \*                 the scenario's callback
          if (cnt[cur[self]] >= 1) { Fail("AtMostOnce") };
          cnt[cur[self]] := cnt[cur[self]] + 1;
          acc := Ev(self, "cb", cur[self], "-", "-", "-");
        };
        cbc[self] := cbc[self] + 1;
        cur[self] := nx[self];
        if (nx[self] # NULL) { goto it_ld };
h_sub:  Rmw("add", QlenOf(hobj[self]), ToString(-cbc[self]), mem[QlenOf(hobj[self])] - cbc[self]);   \* uatomic_sub(&crdp->qlen, cbcount)
h_stop: Ld(iv[self], FlagsOf(hobj[self]));                        \* if (uatomic_load(&crdp->flags) & URCU_CALL_RCU_STOP) break  (never set here)
        hd[self] := NULL; tl[self] := NULL; cur[self] := NULL; nx[self] := NULL; cbc[self] := 0;
h_e1:   Ld(pa[self], NextOf(Hd(hobj[self])));                     \* rcu_thread_offline(); if (cds_wfcq_empty(&crdp->cbs_head, &crdp->cbs_tail))
        if (pa[self] # NULL) { goto h_top };                      \* else poll(NULL, 0, 10)
h_e2:   Ld(pa[self], TailOf(hobj[self]));
        if (pa[self] # Hd(hobj[self])) { goto h_top };
w_mb:   Mb();                                                     \* call_rcu_wait(crdp): cmm_smp_mb()
w_ld:   Ld(iv[self], FutexOf(hobj[self]));                        \* while (uatomic_load(&crdp->futex) == -1)
        if (iv[self] # -1) { goto w_dec };
w_fwait: await Drained(self);                                     \*   futex_async(&crdp->futex, FUTEX_WAIT, -1, ...)
        if (mem[FutexOf(hobj[self])] = -1) { fsleep := fsleep \cup {self}; wloc[self] := FutexOf(hobj[self]);
                                             acc := Ev(self, "fwait", FutexOf(hobj[self]), "-1", "-", "SLEEP") }
        else { acc := Ev(self, "fwait", FutexOf(hobj[self]), "-1", "-", "EAGAIN"); goto w_dec };
w_fwoke: await self \notin fsleep;
        acc := Ev(self, "fwoke", FutexOf(hobj[self]), "-", "-", "WAKE");
        goto w_ld;
w_dec:  Rmw("dec", FutexOf(hobj[self]), "-", Dec(mem[FutexOf(hobj[self])]));   \* (poll(NULL, 0, 10)) uatomic_dec(&crdp->futex)
w_mb2:  Mb();
        goto h_top;

        \* ---------------- workqueue_thread(cds_lfht_workqueue)
q_flags: Ld(iv[self], FlagsOf(WQ));                               \* rt = !!(uatomic_read(&workqueue->flags) & URCU_WORKQUEUE_RT)
q_dec0: Rmw("dec", FutexOf(WQ), "-", Dec(mem[FutexOf(WQ)]));      \* uatomic_dec(&workqueue->futex)
q_mb0:  Mb();
q_top:  Ld(iv[self], FlagsOf(WQ));                                \* for (;;) { if (uatomic_read(&workqueue->flags) & URCU_WORKQUEUE_PAUSE)
        if (~Has(iv[self], WPAUSE)) { goto qs_e1 };
qp_or:  Rmw("or", FlagsOf(WQ), ToString(WPAUSED), SetB(mem[FlagsOf(WQ)], WPAUSED));   \* uatomic_or(&workqueue->flags, URCU_WORKQUEUE_PAUSED)
qp_wait: Ld(iv[self], FlagsOf(WQ));                               \* while ((uatomic_read(&workqueue->flags) & URCU_WORKQUEUE_PAUSE) != 0) poll(NULL, 0, 1)
        if (Has(iv[self], WPAUSE)) { goto qp_wait };
qp_and: Rmw("and", FlagsOf(WQ), ToString(-(WPAUSED + 1)), ClrB(mem[FlagsOf(WQ)], WPAUSED));   \* uatomic_and(&workqueue->flags, ~URCU_WORKQUEUE_PAUSED)
qs_e1:  Ld(pa[self], NextOf(Hd(WQ)));                             \* __cds_wfcq_splice_blocking(&cbs_tmp, &workqueue->cbs)
        if (pa[self] # NULL) { goto qs_xh };
qs_e2:  Ld(pa[self], TailOf(WQ));
        if (pa[self] = Hd(WQ)) { goto q_stop };
qs_xh:  Xchg(hd[self], NextOf(Hd(WQ)), NULL);
        if (hd[self] # NULL) { goto qs_mb };
qs_lt:  Ld(pa[self], TailOf(WQ));
        if (pa[self] = Hd(WQ)) { goto q_stop } else { goto qs_xh };
qs_mb:  Mb();
qs_xt:  Xchg(tl[self], TailOf(WQ), Hd(WQ));
        cur[self] := hd[self]; cbc[self] := 0;
qi_ld:  Ld(nx[self], NextOf(cur[self]));                          \* __cds_wfcq_for_each_blocking_safe
        if (nx[self] = NULL /\ cur[self] # tl[self]) { goto qi_ld };
        \* uwp->func(uwp) = do_resize_cb, order as repaired for finding F6: the mutex is taken before the thread registers as a reader
rz_lock: Lock(RM);                                                \* mutex_lock(&ht->resize_mutex)
rz_reg: if (Flavor = "bp") { if (self \notin reg) { call bp_register() } }   \* ht->flavor->register_thread()
        else { call register() };
rz_do:  call do_resize();                                         \* _do_cds_lfht_resize(ht)
rz_unreg: if (Flavor # "bp") { call unregister() };               \* ht->flavor->unregister_thread()
rz_unl: Unlock(RM);                                               \* mutex_unlock(&ht->resize_mutex); free(work)
qi_nxt: cbc[self] := cbc[self] + 1;
        cur[self] := nx[self];
        if (nx[self] # NULL) { goto qi_ld };
q_sub:  Rmw("add", QlenOf(WQ), ToString(-cbc[self]), mem[QlenOf(WQ)] - cbc[self]);   \* uatomic_sub(&workqueue->qlen, cbcount)
q_stop: Ld(iv[self], FlagsOf(WQ));                                \* if (uatomic_read(&workqueue->flags) & URCU_WORKQUEUE_STOP) break  (teardown: not modelled)
        hd[self] := NULL; tl[self] := NULL; cur[self] := NULL; nx[self] := NULL; cbc[self] := 0;
q_e1:   Ld(pa[self], NextOf(Hd(WQ)));                             \* if (cds_wfcq_empty(&workqueue->cbs_head, &workqueue->cbs_tail))
        if (pa[self] # NULL) { goto q_top };
q_e2:   Ld(pa[self], TailOf(WQ));
        if (pa[self] # Hd(WQ)) { goto q_top };
qw_mb:  Mb();                                                     \* futex_wait(&workqueue->futex): cmm_smp_mb()
qw_ld:  Ld(iv[self], FutexOf(WQ));                                \* while (uatomic_read(futex) == -1)
        if (iv[self] # -1) { goto qw_dec };
qw_fwait: await Drained(self);                                    \*   futex_async(futex, FUTEX_WAIT, -1, ...)
        if (mem[FutexOf(WQ)] = -1) { fsleep := fsleep \cup {self}; wloc[self] := FutexOf(WQ);
                                     acc := Ev(self, "fwait", FutexOf(WQ), "-1", "-", "SLEEP") }
        else { acc := Ev(self, "fwait", FutexOf(WQ), "-1", "-", "EAGAIN"); goto qw_dec };
qw_fwoke: await self \notin fsleep;
        acc := Ev(self, "fwoke", FutexOf(WQ), "-", "-", "WAKE");
        goto qw_ld;
qw_dec: Rmw("dec", FutexOf(WQ), "-", Dec(mem[FutexOf(WQ)]));      \* uatomic_dec(&workqueue->futex)
qw_mb2: Mb();
        goto q_top;
}

\* ------------------------------------------------------------------ scenario threads
fair process (thr \in Threads) {
t_top:  while (pci[self] <= Len(Prog[self])) {
          opx[self] := Prog[self][pci[self]];
          if (~Applies(Prog[self][pci[self]])) { pci[self] := pci[self] + 1; goto t_top }
          else if (Prog[self][pci[self]].op = "cpu") { mycpu[self] := Prog[self][pci[self]].n; pci[self] := pci[self] + 1; goto t_top }
          else if (Prog[self][pci[self]].op \in {"waitf", "waitb", "wait", "post"}) { goto t_waitf }
          else {
            acc := Ev(self, "call", Prog[self][pci[self]].op, IF Prog[self][pci[self]].op = "call" THEN ToString(Prog[self][pci[self]].n) ELSE "-", "-", "-");
            if (Prog[self][pci[self]].op = "call") {
              cn[self] := NName(Prog[self][pci[self]].n); called := called \cup {NName(Prog[self][pci[self]].n)} }
            else if (Prog[self][pci[self]].op = "barrier") { bsnap[self] := queued };
          };
t_disp:   if (opx[self].op = "call") { call call_rcu() }
          else if (opx[self].op = "sync") { if (Flavor = "bp") { call bp_sync() } else { call gp() } }
          else if (opx[self].op = "barrier") { call barrier() }
          else if (opx[self].op = "rl") { goto t_rl }
          else if (opx[self].op = "ru") { call runlock() }
          else if (opx[self].op = "reg") { if (Flavor = "bp") { if (self \notin reg) { call bp_register() } } else { call register() } }
          else if (opx[self].op = "unreg") { call unregister() }
          else if (opx[self].op = "create") { goto t_crl }
          else if (opx[self].op = "setthr") { tcrd[self] := IF opx[self].x < 0 THEN NULL ELSE slot[opx[self].x] }
          else if (opx[self].op = "setcpu") { goto t_scl }
          else if (opx[self].op = "before") { call before_fork() }
          else if (opx[self].op = "after") { if (inchild) { call after_child() } else { call after_parent() } }
          \* a second RCU flavor with a hash table of its own: its call_rcu_before_fork / after_fork_* reach the SAME rculfhash atfork handlers
          \* (registered with every flavor that has a table; cds_lfht_workqueue_atfork_nesting makes only the outermost pair act)
          else if (opx[self].op = "before2") { call lf_before() }
          else if (opx[self].op = "after2") { if (inchild) { call lf_after_child() } else { call lf_after_parent() } }
          else if (opx[self].op = "bpbefore") { call bp_before() }
          else if (opx[self].op = "bpafter") { if (inchild) { call bp_after_child() } else { call bp_after_parent() } }
          else if (opx[self].op = "fork") { goto t_fork }
          else if (opx[self].op = "add") { goto t_add }
          else if (opx[self].op = "resize") { goto t_rs1 }
          else { goto t_htw };
t_ret:    if (opx[self].op = "call") { queued := queued \cup {cn[self]} }
          else if (opx[self].op = "barrier") { if (\E n \in bsnap[self] : cnt[n] # 1) { Fail("BarrierComplete") } }
          else if (opx[self].op = "before") { bdone := TRUE }
          else if (opx[self].op = "after") {
            errs := errs \cup (IF Ht /\ nest # 0 THEN {"NestBalanced"} ELSE {}) \cup (IF inchild /\ tcrd[self] # NULL THEN {"ChildThreadCrd"} ELSE {})
                    \cup (IF Ht /\ (mx[FM] # "free" \/ Has(mem[FlagsOf(WQ)], WPAUSE)) THEN {"WorkerResumed"} ELSE {}) }
          else if (opx[self].op = "bpafter" /\ inchild) { if (reg \ {self} # {}) { Fail("ChildRegistry") } };
          acc := Ev(self, "ret", opx[self].op, "-", "-", "-");
          pci[self] := pci[self] + 1;
          goto t_top;
t_rl:     if (Flavor = "bp" /\ self \notin reg) { call bp_register() };      \* _urcu_bp_read_lock(): urcu_bp_register() on first use
t_rl2:    call rlock();
t_rl3:    goto t_ret;
t_crl:    Lock(CM);                                               \* create_call_rcu_data(): call_rcu_lock(&call_rcu_mutex)
          cidef[self] := FALSE;
          call data_init();
t_cru:    slot[opx[self].x] := newc[self];
          Unlock(CM);
          goto t_ret;
t_scl:    Lock(CM);                                               \* set_cpu_call_rcu_data(cpu, crdp): alloc_cpu_call_rcu_data()
t_scu:    cpulen := NCpu;
          pcpu[opx[self].n] := IF opx[self].x < 0 THEN NULL ELSE slot[opx[self].x];
          Unlock(CM);
          goto t_ret;
t_fork:   await Drained(self);                                    \* fork()
          forked := TRUE; forker := self;
          if (Follow = "C") {
            inchild := TRUE;
            gone := (Threads \ {self}) \cup {h \in Helpers : started[h]};   \* threads that exist at the fork and are not the caller
            sb := [p \in Procs |-> IF p = self THEN sb[p] ELSE <<>>];
            fsleep := {};
            gpstuck := (ingp \ {self}) # {};
          };
          acc := Ev(self, "fork", "-", "-", "-", "-");
          goto t_ret;
t_add:    call rlock();                                           \* (harness) flavor->read_lock(); cds_lfht_add(ht, hash, node)
t_add1:   Ld(asz[self], "ht.size");                               \* size = rcu_dereference(ht->size); walk the chain of bucket 0
          cl[self] := 3;
t_add2:   while (cl[self] <= opx[self].n) {                       \* check_resize(ht, size, ++chain_len): chain_len >= CHAIN_LEN_RESIZE_THRESHOLD
            tgt[self] := IF asz[self] * Pow2(Order(cl[self])) > HtMax THEN HtMax ELSE asz[self] * Pow2(Order(cl[self]));
            cl[self] := cl[self] + 1;
            call lazy_grow();                                     \*   cds_lfht_resize_lazy_grow(ht, size, order(chain_len))
          };
t_add3:   call runlock();                                         \* flavor->read_unlock()
t_add4:   goto t_ret;
t_htw:    await mem[TailOf(WQ)] = Hd(WQ) /\ mem[QlenOf(WQ)] = 0;  \* (harness) wait until the work queue is drained and its batch accounted for
          goto t_ret;
t_rs1:    St("ht.target", opx[self].n);                           \* cds_lfht_resize(ht, n): resize_target_update_count(): uatomic_store(&ht->resize_target, count)
t_rs2:    St("ht.init", 1);                                       \*   uatomic_store(&ht->resize_initiated, 1)
t_rs3:    Lock(RM);                                               \*   mutex_lock(&ht->resize_mutex)
          call do_resize();                                       \*   _do_cds_lfht_resize(ht)
t_rs4:    Unlock(RM);                                             \*   mutex_unlock(&ht->resize_mutex)
          if (hsize < opx[self].n) { Fail("ExplicitResize") };     \* (a concurrent lazy grow may have raised the target further)
          goto t_ret;
t_waitf:  await CASE opx[self].op = "waitf" -> forked              \* (harness) wait until the process has forked / the helpers are paused /
                    [] opx[self].op = "waitb" -> bdone               \*           a flag is set; set a flag
                    [] opx[self].op = "wait" -> opx[self].n \in flags
                    [] OTHER -> TRUE;
          if (opx[self].op = "post") { flags := flags \cup {opx[self].n} };
          acc := Ev(self, opx[self].op, "-", IF opx[self].op \in {"post", "wait"} THEN ToString(opx[self].n) ELSE "-", "-", "-");
          pci[self] := pci[self] + 1;
          goto t_top;
        };
t_fin:  if (forker = self) {                                      \* (harness) the forking thread waits for every callback whose call_rcu() returned in this process history
          await \A n \in queued : cnt[n] >= 1;
          acc := Ev(self, "allcb", "-", "-", "-", "-") };
t_exit: await Drained(self);
        acc := Ev(self, "exit", "-", "-", "-", "-");
}
} *)
\* BEGIN TRANSLATION
VARIABLES pc, mem, sb, mx, acc, fsleep, wloc, crlist, ncrd, nh, started, hobj, 
          cpulen, pcpu, tcrd, mycpu, slot, smask, bpsaved, nest, hsize, nw, 
          nk, nrw, wk, reg, rnest, ncs, ingp, gpstuck, forked, inchild, gone, 
          forker, bdone, flags, cnt, called, queued, bsnap, alive, uaf, errs, 
          pci, opx, iv, pa, hd, tl, old, cur, nx, cbc, en, ec, wc, gd, fc, dc, 
          newc, cidef, cn, bk, regs, kk, om, tgt, asz, cl, ord, gps, stack

(* define statement *)
LastIdx(t, loc) == LET S == {i \in DOMAIN sb[t] : sb[t][i][1] = loc} IN
                   IF S = {} THEN 0 ELSE CHOOSE i \in S : \A j \in S : j <= i
Rd(t, loc) == IF LastIdx(t, loc) = 0 THEN mem[loc] ELSE sb[t][LastIdx(t, loc)][2]
Drained(t) == sb[t] = <<>>
Ev(t, op, var, a, b, r) == IF Tracing THEN [k |-> acc.k + 1, t |-> t, op |-> op, var |-> var, a |-> a, b |-> b, r |-> r] ELSE acc
Dead(loc) == LocObj[loc] # "static" /\ alive[LocObj[loc]] = "freed"
Sleepers(loc) == {p \in fsleep : wloc[p] = loc}
GpEnded(s) == \A p \in Procs : s[p] = 0 \/ mem[RctrOf(p)] # s[p]
Snap(t) == [p \in Procs |-> IF p \in reg /\ p # t THEN mem[RctrOf(p)] ELSE 0]
Order(n) == IF n <= 1 THEN 0 ELSE IF n = 2 THEN 1 ELSE IF n <= 4 THEN 2 ELSE IF n <= 8 THEN 3 ELSE 4
Applies(o) == o.w = "b" \/ (o.w = "p" /\ ~inchild) \/ (o.w = "c" /\ inchild)


vars == << pc, mem, sb, mx, acc, fsleep, wloc, crlist, ncrd, nh, started, 
           hobj, cpulen, pcpu, tcrd, mycpu, slot, smask, bpsaved, nest, hsize, 
           nw, nk, nrw, wk, reg, rnest, ncs, ingp, gpstuck, forked, inchild, 
           gone, forker, bdone, flags, cnt, called, queued, bsnap, alive, uaf, 
           errs, pci, opx, iv, pa, hd, tl, old, cur, nx, cbc, en, ec, wc, gd, 
           fc, dc, newc, cidef, cn, bk, regs, kk, om, tgt, asz, cl, ord, gps, 
           stack >>

ProcSet == (Flushers) \cup (Helpers) \cup (Threads)

Init == (* Global variables *)
        /\ mem = [l \in Locs |-> IF l \in IntLocs THEN (IF l \in {"ht.size", "ht.target"} THEN 1 ELSE 0)
                                 ELSE IF \E q \in Qs : l = TailOf(q) THEN Hd(CHOOSE q \in Qs : l = TailOf(q))
                                 ELSE NULL]
        /\ sb = [t \in Procs |-> <<>>]
        /\ mx = [m \in Mutexes |-> "free"]
        /\ acc = [k |-> 0]
        /\ fsleep = {}
        /\ wloc = [t \in Procs |-> "-"]
        /\ crlist = <<>>
        /\ ncrd = 0
        /\ nh = IF Ht THEN 1 ELSE 0
        /\ started = [h \in Helpers |-> Ht /\ h = "h1"]
        /\ hobj = [h \in Helpers |-> IF Ht /\ h = "h1" THEN WQ ELSE NULL]
        /\ cpulen = 0
        /\ pcpu = [c \in 0..(NCpu - 1) |-> NULL]
        /\ tcrd = [t \in Procs |-> NULL]
        /\ mycpu = [t \in Procs |-> 0]
        /\ slot = [s \in 0..3 |-> NULL]
        /\ smask = [t \in Procs |-> FALSE]
        /\ bpsaved = FALSE
        /\ nest = 0
        /\ hsize = 1
        /\ nw = 0
        /\ nk = 0
        /\ nrw = 0
        /\ wk = [w \in Works |-> NULL]
        /\ reg = {}
        /\ rnest = [t \in Procs |-> 0]
        /\ ncs = [t \in Procs |-> 0]
        /\ ingp = {}
        /\ gpstuck = FALSE
        /\ forked = FALSE
        /\ inchild = FALSE
        /\ gone = {}
        /\ forker = NULL
        /\ bdone = FALSE
        /\ flags = {}
        /\ cnt = [n \in Nodes |-> 0]
        /\ called = {}
        /\ queued = {}
        /\ bsnap = [t \in Threads |-> {}]
        /\ alive = [c \in Crdps |-> "no"]
        /\ uaf = FALSE
        /\ errs = {}
        /\ pci = [t \in Threads |-> 1]
        /\ opx = [t \in Threads |-> NoOp]
        /\ iv = [t \in Procs |-> 0]
        /\ pa = [t \in Procs |-> NULL]
        /\ hd = [t \in Procs |-> NULL]
        /\ tl = [t \in Procs |-> NULL]
        /\ old = [t \in Procs |-> NULL]
        /\ cur = [t \in Procs |-> NULL]
        /\ nx = [t \in Procs |-> NULL]
        /\ cbc = [t \in Procs |-> 0]
        /\ en = [t \in Procs |-> NULL]
        /\ ec = [t \in Procs |-> NULL]
        /\ wc = [t \in Procs |-> NULL]
        /\ gd = [t \in Procs |-> NULL]
        /\ fc = [t \in Procs |-> NULL]
        /\ dc = [t \in Procs |-> NULL]
        /\ newc = [t \in Procs |-> NULL]
        /\ cidef = [t \in Procs |-> FALSE]
        /\ cn = [t \in Procs |-> NULL]
        /\ bk = [t \in Procs |-> NULL]
        /\ regs = [t \in Procs |-> <<>>]
        /\ kk = [t \in Procs |-> 1]
        /\ om = [t \in Procs |-> FALSE]
        /\ tgt = [t \in Procs |-> 1]
        /\ asz = [t \in Procs |-> 1]
        /\ cl = [t \in Procs |-> 0]
        /\ ord = [t \in Procs |-> 0]
        /\ gps = [t \in Procs |-> NoSnap]
        /\ stack = [self \in ProcSet |-> << >>]
        /\ pc = [self \in ProcSet |-> CASE self \in Flushers -> "fl"
                                        [] self \in Helpers -> "h_idle"
                                        [] self \in Threads -> "t_top"]

rl_st(self) == /\ pc[self] = "rl_st"
               /\ IF rnest[self] = 0
                     THEN /\ ncs' = [ncs EXCEPT ![self] = ncs[self] + 1]
                     ELSE /\ TRUE
                          /\ ncs' = ncs
               /\ rnest' = [rnest EXCEPT ![self] = rnest[self] + 1]
               /\ IF TSO
                     THEN /\ Len(sb[self]) < SBMax
                          /\ sb' = [sb EXCEPT ![self] = Append(sb[self], <<RctrOf(self), ncs'[self]>>)]
                          /\ mem' = mem
                     ELSE /\ mem' = [mem EXCEPT ![RctrOf(self)] = ncs'[self]]
                          /\ sb' = sb
               /\ acc' = Ev(self, "st", RctrOf(self), ToString(rnest'[self]), "-", "-")
               /\ pc' = [pc EXCEPT ![self] = "rl_mb"]
               /\ UNCHANGED << mx, fsleep, wloc, crlist, ncrd, nh, started, 
                               hobj, cpulen, pcpu, tcrd, mycpu, slot, smask, 
                               bpsaved, nest, hsize, nw, nk, nrw, wk, reg, 
                               ingp, gpstuck, forked, inchild, gone, forker, 
                               bdone, flags, cnt, called, queued, bsnap, alive, 
                               uaf, errs, pci, opx, iv, pa, hd, tl, old, cur, 
                               nx, cbc, en, ec, wc, gd, fc, dc, newc, cidef, 
                               cn, bk, regs, kk, om, tgt, asz, cl, ord, gps, 
                               stack >>

rl_mb(self) == /\ pc[self] = "rl_mb"
               /\ IF rnest[self] = 1 /\ (Flavor = "mb" \/ RFence)
                     THEN /\ Drained(self)
                     ELSE /\ TRUE
               /\ pc' = [pc EXCEPT ![self] = Head(stack[self]).pc]
               /\ stack' = [stack EXCEPT ![self] = Tail(stack[self])]
               /\ UNCHANGED << mem, sb, mx, acc, fsleep, wloc, crlist, ncrd, 
                               nh, started, hobj, cpulen, pcpu, tcrd, mycpu, 
                               slot, smask, bpsaved, nest, hsize, nw, nk, nrw, 
                               wk, reg, rnest, ncs, ingp, gpstuck, forked, 
                               inchild, gone, forker, bdone, flags, cnt, 
                               called, queued, bsnap, alive, uaf, errs, pci, 
                               opx, iv, pa, hd, tl, old, cur, nx, cbc, en, ec, 
                               wc, gd, fc, dc, newc, cidef, cn, bk, regs, kk, 
                               om, tgt, asz, cl, ord, gps >>

rlock(self) == rl_st(self) \/ rl_mb(self)

ru_mb(self) == /\ pc[self] = "ru_mb"
               /\ IF Flavor = "bp" /\ RFence
                     THEN /\ Drained(self)
                     ELSE /\ TRUE
               /\ pc' = [pc EXCEPT ![self] = "ru_st"]
               /\ UNCHANGED << mem, sb, mx, acc, fsleep, wloc, crlist, ncrd, 
                               nh, started, hobj, cpulen, pcpu, tcrd, mycpu, 
                               slot, smask, bpsaved, nest, hsize, nw, nk, nrw, 
                               wk, reg, rnest, ncs, ingp, gpstuck, forked, 
                               inchild, gone, forker, bdone, flags, cnt, 
                               called, queued, bsnap, alive, uaf, errs, pci, 
                               opx, iv, pa, hd, tl, old, cur, nx, cbc, en, ec, 
                               wc, gd, fc, dc, newc, cidef, cn, bk, regs, kk, 
                               om, tgt, asz, cl, ord, gps, stack >>

ru_st(self) == /\ pc[self] = "ru_st"
               /\ rnest' = [rnest EXCEPT ![self] = rnest[self] - 1]
               /\ IF TSO /\ ~(Flavor = "mb" /\ rnest'[self] = 0)
                     THEN /\ Len(sb[self]) < SBMax
                          /\ sb' = [sb EXCEPT ![self] = Append(sb[self], <<RctrOf(self), IF rnest'[self] = 0 THEN 0 ELSE ncs[self]>>)]
                          /\ mem' = mem
                     ELSE /\ Drained(self)
                          /\ mem' = [mem EXCEPT ![RctrOf(self)] = IF rnest'[self] = 0 THEN 0 ELSE ncs[self]]
                          /\ sb' = sb
               /\ acc' = Ev(self, "st", RctrOf(self), ToString(rnest'[self]), "-", "-")
               /\ pc' = [pc EXCEPT ![self] = Head(stack[self]).pc]
               /\ stack' = [stack EXCEPT ![self] = Tail(stack[self])]
               /\ UNCHANGED << mx, fsleep, wloc, crlist, ncrd, nh, started, 
                               hobj, cpulen, pcpu, tcrd, mycpu, slot, smask, 
                               bpsaved, nest, hsize, nw, nk, nrw, wk, reg, ncs, 
                               ingp, gpstuck, forked, inchild, gone, forker, 
                               bdone, flags, cnt, called, queued, bsnap, alive, 
                               uaf, errs, pci, opx, iv, pa, hd, tl, old, cur, 
                               nx, cbc, en, ec, wc, gd, fc, dc, newc, cidef, 
                               cn, bk, regs, kk, om, tgt, asz, cl, ord, gps >>

runlock(self) == ru_mb(self) \/ ru_st(self)

rg_lock(self) == /\ pc[self] = "rg_lock"
                 /\ Drained(self) /\ mx[RL] = "free"
                 /\ mx' = [mx EXCEPT ![RL] = self]
                 /\ acc' = Ev(self, "lock", RL, "-", "-", "-")
                 /\ pc' = [pc EXCEPT ![self] = "rg_unl"]
                 /\ UNCHANGED << mem, sb, fsleep, wloc, crlist, ncrd, nh, 
                                 started, hobj, cpulen, pcpu, tcrd, mycpu, 
                                 slot, smask, bpsaved, nest, hsize, nw, nk, 
                                 nrw, wk, reg, rnest, ncs, ingp, gpstuck, 
                                 forked, inchild, gone, forker, bdone, flags, 
                                 cnt, called, queued, bsnap, alive, uaf, errs, 
                                 pci, opx, iv, pa, hd, tl, old, cur, nx, cbc, 
                                 en, ec, wc, gd, fc, dc, newc, cidef, cn, bk, 
                                 regs, kk, om, tgt, asz, cl, ord, gps, stack >>

rg_unl(self) == /\ pc[self] = "rg_unl"
                /\ reg' = (reg \cup {self})
                /\ Drained(self)
                /\ mx' = [mx EXCEPT ![RL] = "free"]
                /\ acc' = Ev(self, "unlock", RL, "-", "-", "-")
                /\ pc' = [pc EXCEPT ![self] = Head(stack[self]).pc]
                /\ stack' = [stack EXCEPT ![self] = Tail(stack[self])]
                /\ UNCHANGED << mem, sb, fsleep, wloc, crlist, ncrd, nh, 
                                started, hobj, cpulen, pcpu, tcrd, mycpu, slot, 
                                smask, bpsaved, nest, hsize, nw, nk, nrw, wk, 
                                rnest, ncs, ingp, gpstuck, forked, inchild, 
                                gone, forker, bdone, flags, cnt, called, 
                                queued, bsnap, alive, uaf, errs, pci, opx, iv, 
                                pa, hd, tl, old, cur, nx, cbc, en, ec, wc, gd, 
                                fc, dc, newc, cidef, cn, bk, regs, kk, om, tgt, 
                                asz, cl, ord, gps >>

register(self) == rg_lock(self) \/ rg_unl(self)

ug_lock(self) == /\ pc[self] = "ug_lock"
                 /\ Drained(self) /\ mx[RL] = "free"
                 /\ mx' = [mx EXCEPT ![RL] = self]
                 /\ acc' = Ev(self, "lock", RL, "-", "-", "-")
                 /\ pc' = [pc EXCEPT ![self] = "ug_unl"]
                 /\ UNCHANGED << mem, sb, fsleep, wloc, crlist, ncrd, nh, 
                                 started, hobj, cpulen, pcpu, tcrd, mycpu, 
                                 slot, smask, bpsaved, nest, hsize, nw, nk, 
                                 nrw, wk, reg, rnest, ncs, ingp, gpstuck, 
                                 forked, inchild, gone, forker, bdone, flags, 
                                 cnt, called, queued, bsnap, alive, uaf, errs, 
                                 pci, opx, iv, pa, hd, tl, old, cur, nx, cbc, 
                                 en, ec, wc, gd, fc, dc, newc, cidef, cn, bk, 
                                 regs, kk, om, tgt, asz, cl, ord, gps, stack >>

ug_unl(self) == /\ pc[self] = "ug_unl"
                /\ reg' = reg \ {self}
                /\ Drained(self)
                /\ mx' = [mx EXCEPT ![RL] = "free"]
                /\ acc' = Ev(self, "unlock", RL, "-", "-", "-")
                /\ pc' = [pc EXCEPT ![self] = Head(stack[self]).pc]
                /\ stack' = [stack EXCEPT ![self] = Tail(stack[self])]
                /\ UNCHANGED << mem, sb, fsleep, wloc, crlist, ncrd, nh, 
                                started, hobj, cpulen, pcpu, tcrd, mycpu, slot, 
                                smask, bpsaved, nest, hsize, nw, nk, nrw, wk, 
                                rnest, ncs, ingp, gpstuck, forked, inchild, 
                                gone, forker, bdone, flags, cnt, called, 
                                queued, bsnap, alive, uaf, errs, pci, opx, iv, 
                                pa, hd, tl, old, cur, nx, cbc, en, ec, wc, gd, 
                                fc, dc, newc, cidef, cn, bk, regs, kk, om, tgt, 
                                asz, cl, ord, gps >>

unregister(self) == ug_lock(self) \/ ug_unl(self)

br_mask(self) == /\ pc[self] = "br_mask"
                 /\ om' = [om EXCEPT ![self] = smask[self]]
                 /\ smask' = [smask EXCEPT ![self] = TRUE]
                 /\ acc' = Ev(self, "sigmask", "-", "-", "-", IF TRUE THEN "1" ELSE "0")
                 /\ pc' = [pc EXCEPT ![self] = "br_il"]
                 /\ UNCHANGED << mem, sb, mx, fsleep, wloc, crlist, ncrd, nh, 
                                 started, hobj, cpulen, pcpu, tcrd, mycpu, 
                                 slot, bpsaved, nest, hsize, nw, nk, nrw, wk, 
                                 reg, rnest, ncs, ingp, gpstuck, forked, 
                                 inchild, gone, forker, bdone, flags, cnt, 
                                 called, queued, bsnap, alive, uaf, errs, pci, 
                                 opx, iv, pa, hd, tl, old, cur, nx, cbc, en, 
                                 ec, wc, gd, fc, dc, newc, cidef, cn, bk, regs, 
                                 kk, tgt, asz, cl, ord, gps, stack >>

br_il(self) == /\ pc[self] = "br_il"
               /\ Drained(self) /\ mx[IL] = "free"
               /\ mx' = [mx EXCEPT ![IL] = self]
               /\ acc' = Ev(self, "lock", IL, "-", "-", "-")
               /\ pc' = [pc EXCEPT ![self] = "br_iu"]
               /\ UNCHANGED << mem, sb, fsleep, wloc, crlist, ncrd, nh, 
                               started, hobj, cpulen, pcpu, tcrd, mycpu, slot, 
                               smask, bpsaved, nest, hsize, nw, nk, nrw, wk, 
                               reg, rnest, ncs, ingp, gpstuck, forked, inchild, 
                               gone, forker, bdone, flags, cnt, called, queued, 
                               bsnap, alive, uaf, errs, pci, opx, iv, pa, hd, 
                               tl, old, cur, nx, cbc, en, ec, wc, gd, fc, dc, 
                               newc, cidef, cn, bk, regs, kk, om, tgt, asz, cl, 
                               ord, gps, stack >>

br_iu(self) == /\ pc[self] = "br_iu"
               /\ Drained(self)
               /\ mx' = [mx EXCEPT ![IL] = "free"]
               /\ acc' = Ev(self, "unlock", IL, "-", "-", "-")
               /\ pc' = [pc EXCEPT ![self] = "br_lock"]
               /\ UNCHANGED << mem, sb, fsleep, wloc, crlist, ncrd, nh, 
                               started, hobj, cpulen, pcpu, tcrd, mycpu, slot, 
                               smask, bpsaved, nest, hsize, nw, nk, nrw, wk, 
                               reg, rnest, ncs, ingp, gpstuck, forked, inchild, 
                               gone, forker, bdone, flags, cnt, called, queued, 
                               bsnap, alive, uaf, errs, pci, opx, iv, pa, hd, 
                               tl, old, cur, nx, cbc, en, ec, wc, gd, fc, dc, 
                               newc, cidef, cn, bk, regs, kk, om, tgt, asz, cl, 
                               ord, gps, stack >>

br_lock(self) == /\ pc[self] = "br_lock"
                 /\ Drained(self) /\ mx[RL] = "free"
                 /\ mx' = [mx EXCEPT ![RL] = self]
                 /\ acc' = Ev(self, "lock", RL, "-", "-", "-")
                 /\ pc' = [pc EXCEPT ![self] = "br_unl"]
                 /\ UNCHANGED << mem, sb, fsleep, wloc, crlist, ncrd, nh, 
                                 started, hobj, cpulen, pcpu, tcrd, mycpu, 
                                 slot, smask, bpsaved, nest, hsize, nw, nk, 
                                 nrw, wk, reg, rnest, ncs, ingp, gpstuck, 
                                 forked, inchild, gone, forker, bdone, flags, 
                                 cnt, called, queued, bsnap, alive, uaf, errs, 
                                 pci, opx, iv, pa, hd, tl, old, cur, nx, cbc, 
                                 en, ec, wc, gd, fc, dc, newc, cidef, cn, bk, 
                                 regs, kk, om, tgt, asz, cl, ord, gps, stack >>

br_unl(self) == /\ pc[self] = "br_unl"
                /\ reg' = (reg \cup {self})
                /\ Drained(self)
                /\ mx' = [mx EXCEPT ![RL] = "free"]
                /\ acc' = Ev(self, "unlock", RL, "-", "-", "-")
                /\ pc' = [pc EXCEPT ![self] = "br_unmask"]
                /\ UNCHANGED << mem, sb, fsleep, wloc, crlist, ncrd, nh, 
                                started, hobj, cpulen, pcpu, tcrd, mycpu, slot, 
                                smask, bpsaved, nest, hsize, nw, nk, nrw, wk, 
                                rnest, ncs, ingp, gpstuck, forked, inchild, 
                                gone, forker, bdone, flags, cnt, called, 
                                queued, bsnap, alive, uaf, errs, pci, opx, iv, 
                                pa, hd, tl, old, cur, nx, cbc, en, ec, wc, gd, 
                                fc, dc, newc, cidef, cn, bk, regs, kk, om, tgt, 
                                asz, cl, ord, gps, stack >>

br_unmask(self) == /\ pc[self] = "br_unmask"
                   /\ smask' = [smask EXCEPT ![self] = om[self]]
                   /\ acc' = Ev(self, "sigmask", "-", "-", "-", IF (om[self]) THEN "1" ELSE "0")
                   /\ pc' = [pc EXCEPT ![self] = Head(stack[self]).pc]
                   /\ stack' = [stack EXCEPT ![self] = Tail(stack[self])]
                   /\ UNCHANGED << mem, sb, mx, fsleep, wloc, crlist, ncrd, nh, 
                                   started, hobj, cpulen, pcpu, tcrd, mycpu, 
                                   slot, bpsaved, nest, hsize, nw, nk, nrw, wk, 
                                   reg, rnest, ncs, ingp, gpstuck, forked, 
                                   inchild, gone, forker, bdone, flags, cnt, 
                                   called, queued, bsnap, alive, uaf, errs, 
                                   pci, opx, iv, pa, hd, tl, old, cur, nx, cbc, 
                                   en, ec, wc, gd, fc, dc, newc, cidef, cn, bk, 
                                   regs, kk, om, tgt, asz, cl, ord, gps >>

bp_register(self) == br_mask(self) \/ br_il(self) \/ br_iu(self)
                        \/ br_lock(self) \/ br_unl(self) \/ br_unmask(self)

gp_b(self) == /\ pc[self] = "gp_b"
              /\ Drained(self) /\ ~gpstuck
              /\ gps' = [gps EXCEPT ![self] = Snap(self)]
              /\ ingp' = (ingp \cup {self})
              /\ acc' = Ev(self, "gp_begin", "-", "-", "-", "-")
              /\ pc' = [pc EXCEPT ![self] = "gp_e"]
              /\ UNCHANGED << mem, sb, mx, fsleep, wloc, crlist, ncrd, nh, 
                              started, hobj, cpulen, pcpu, tcrd, mycpu, slot, 
                              smask, bpsaved, nest, hsize, nw, nk, nrw, wk, 
                              reg, rnest, ncs, gpstuck, forked, inchild, gone, 
                              forker, bdone, flags, cnt, called, queued, bsnap, 
                              alive, uaf, errs, pci, opx, iv, pa, hd, tl, old, 
                              cur, nx, cbc, en, ec, wc, gd, fc, dc, newc, 
                              cidef, cn, bk, regs, kk, om, tgt, asz, cl, ord, 
                              stack >>

gp_e(self) == /\ pc[self] = "gp_e"
              /\ GpEnded(gps[self])
              /\ ingp' = ingp \ {self}
              /\ pc' = [pc EXCEPT ![self] = Head(stack[self]).pc]
              /\ stack' = [stack EXCEPT ![self] = Tail(stack[self])]
              /\ UNCHANGED << mem, sb, mx, acc, fsleep, wloc, crlist, ncrd, nh, 
                              started, hobj, cpulen, pcpu, tcrd, mycpu, slot, 
                              smask, bpsaved, nest, hsize, nw, nk, nrw, wk, 
                              reg, rnest, ncs, gpstuck, forked, inchild, gone, 
                              forker, bdone, flags, cnt, called, queued, bsnap, 
                              alive, uaf, errs, pci, opx, iv, pa, hd, tl, old, 
                              cur, nx, cbc, en, ec, wc, gd, fc, dc, newc, 
                              cidef, cn, bk, regs, kk, om, tgt, asz, cl, ord, 
                              gps >>

gp(self) == gp_b(self) \/ gp_e(self)

bs_mask(self) == /\ pc[self] = "bs_mask"
                 /\ om' = [om EXCEPT ![self] = smask[self]]
                 /\ smask' = [smask EXCEPT ![self] = TRUE]
                 /\ acc' = Ev(self, "sigmask", "-", "-", "-", IF TRUE THEN "1" ELSE "0")
                 /\ pc' = [pc EXCEPT ![self] = "bs_gl"]
                 /\ UNCHANGED << mem, sb, mx, fsleep, wloc, crlist, ncrd, nh, 
                                 started, hobj, cpulen, pcpu, tcrd, mycpu, 
                                 slot, bpsaved, nest, hsize, nw, nk, nrw, wk, 
                                 reg, rnest, ncs, ingp, gpstuck, forked, 
                                 inchild, gone, forker, bdone, flags, cnt, 
                                 called, queued, bsnap, alive, uaf, errs, pci, 
                                 opx, iv, pa, hd, tl, old, cur, nx, cbc, en, 
                                 ec, wc, gd, fc, dc, newc, cidef, cn, bk, regs, 
                                 kk, tgt, asz, cl, ord, gps, stack >>

bs_gl(self) == /\ pc[self] = "bs_gl"
               /\ Drained(self) /\ mx[GL] = "free"
               /\ mx' = [mx EXCEPT ![GL] = self]
               /\ acc' = Ev(self, "lock", GL, "-", "-", "-")
               /\ pc' = [pc EXCEPT ![self] = "bs_rl"]
               /\ UNCHANGED << mem, sb, fsleep, wloc, crlist, ncrd, nh, 
                               started, hobj, cpulen, pcpu, tcrd, mycpu, slot, 
                               smask, bpsaved, nest, hsize, nw, nk, nrw, wk, 
                               reg, rnest, ncs, ingp, gpstuck, forked, inchild, 
                               gone, forker, bdone, flags, cnt, called, queued, 
                               bsnap, alive, uaf, errs, pci, opx, iv, pa, hd, 
                               tl, old, cur, nx, cbc, en, ec, wc, gd, fc, dc, 
                               newc, cidef, cn, bk, regs, kk, om, tgt, asz, cl, 
                               ord, gps, stack >>

bs_rl(self) == /\ pc[self] = "bs_rl"
               /\ Drained(self) /\ mx[RL] = "free"
               /\ mx' = [mx EXCEPT ![RL] = self]
               /\ acc' = Ev(self, "lock", RL, "-", "-", "-")
               /\ gps' = [gps EXCEPT ![self] = Snap(self)]
               /\ pc' = [pc EXCEPT ![self] = "bs_loop"]
               /\ UNCHANGED << mem, sb, fsleep, wloc, crlist, ncrd, nh, 
                               started, hobj, cpulen, pcpu, tcrd, mycpu, slot, 
                               smask, bpsaved, nest, hsize, nw, nk, nrw, wk, 
                               reg, rnest, ncs, ingp, gpstuck, forked, inchild, 
                               gone, forker, bdone, flags, cnt, called, queued, 
                               bsnap, alive, uaf, errs, pci, opx, iv, pa, hd, 
                               tl, old, cur, nx, cbc, en, ec, wc, gd, fc, dc, 
                               newc, cidef, cn, bk, regs, kk, om, tgt, asz, cl, 
                               ord, stack >>

bs_loop(self) == /\ pc[self] = "bs_loop"
                 /\ \/ /\ GpEnded(gps[self])
                       /\ pc' = [pc EXCEPT ![self] = "bs_url"]
                       /\ UNCHANGED <<mx, acc>>
                    \/ /\ Tracing \/ ~GpEnded(gps[self])
                       /\ Drained(self)
                       /\ mx' = [mx EXCEPT ![RL] = "free"]
                       /\ acc' = Ev(self, "unlock", RL, "-", "-", "-")
                       /\ pc' = [pc EXCEPT ![self] = "bs_rel"]
                 /\ UNCHANGED << mem, sb, fsleep, wloc, crlist, ncrd, nh, 
                                 started, hobj, cpulen, pcpu, tcrd, mycpu, 
                                 slot, smask, bpsaved, nest, hsize, nw, nk, 
                                 nrw, wk, reg, rnest, ncs, ingp, gpstuck, 
                                 forked, inchild, gone, forker, bdone, flags, 
                                 cnt, called, queued, bsnap, alive, uaf, errs, 
                                 pci, opx, iv, pa, hd, tl, old, cur, nx, cbc, 
                                 en, ec, wc, gd, fc, dc, newc, cidef, cn, bk, 
                                 regs, kk, om, tgt, asz, cl, ord, gps, stack >>

bs_rel(self) == /\ pc[self] = "bs_rel"
                /\ Drained(self) /\ mx[RL] = "free"
                /\ mx' = [mx EXCEPT ![RL] = self]
                /\ acc' = Ev(self, "lock", RL, "-", "-", "-")
                /\ pc' = [pc EXCEPT ![self] = "bs_loop"]
                /\ UNCHANGED << mem, sb, fsleep, wloc, crlist, ncrd, nh, 
                                started, hobj, cpulen, pcpu, tcrd, mycpu, slot, 
                                smask, bpsaved, nest, hsize, nw, nk, nrw, wk, 
                                reg, rnest, ncs, ingp, gpstuck, forked, 
                                inchild, gone, forker, bdone, flags, cnt, 
                                called, queued, bsnap, alive, uaf, errs, pci, 
                                opx, iv, pa, hd, tl, old, cur, nx, cbc, en, ec, 
                                wc, gd, fc, dc, newc, cidef, cn, bk, regs, kk, 
                                om, tgt, asz, cl, ord, gps, stack >>

bs_url(self) == /\ pc[self] = "bs_url"
                /\ Drained(self)
                /\ mx' = [mx EXCEPT ![RL] = "free"]
                /\ acc' = Ev(self, "unlock", RL, "-", "-", "-")
                /\ pc' = [pc EXCEPT ![self] = "bs_ugl"]
                /\ UNCHANGED << mem, sb, fsleep, wloc, crlist, ncrd, nh, 
                                started, hobj, cpulen, pcpu, tcrd, mycpu, slot, 
                                smask, bpsaved, nest, hsize, nw, nk, nrw, wk, 
                                reg, rnest, ncs, ingp, gpstuck, forked, 
                                inchild, gone, forker, bdone, flags, cnt, 
                                called, queued, bsnap, alive, uaf, errs, pci, 
                                opx, iv, pa, hd, tl, old, cur, nx, cbc, en, ec, 
                                wc, gd, fc, dc, newc, cidef, cn, bk, regs, kk, 
                                om, tgt, asz, cl, ord, gps, stack >>

bs_ugl(self) == /\ pc[self] = "bs_ugl"
                /\ Drained(self)
                /\ mx' = [mx EXCEPT ![GL] = "free"]
                /\ acc' = Ev(self, "unlock", GL, "-", "-", "-")
                /\ pc' = [pc EXCEPT ![self] = "bs_unmask"]
                /\ UNCHANGED << mem, sb, fsleep, wloc, crlist, ncrd, nh, 
                                started, hobj, cpulen, pcpu, tcrd, mycpu, slot, 
                                smask, bpsaved, nest, hsize, nw, nk, nrw, wk, 
                                reg, rnest, ncs, ingp, gpstuck, forked, 
                                inchild, gone, forker, bdone, flags, cnt, 
                                called, queued, bsnap, alive, uaf, errs, pci, 
                                opx, iv, pa, hd, tl, old, cur, nx, cbc, en, ec, 
                                wc, gd, fc, dc, newc, cidef, cn, bk, regs, kk, 
                                om, tgt, asz, cl, ord, gps, stack >>

bs_unmask(self) == /\ pc[self] = "bs_unmask"
                   /\ smask' = [smask EXCEPT ![self] = om[self]]
                   /\ acc' = Ev(self, "sigmask", "-", "-", "-", IF (om[self]) THEN "1" ELSE "0")
                   /\ pc' = [pc EXCEPT ![self] = Head(stack[self]).pc]
                   /\ stack' = [stack EXCEPT ![self] = Tail(stack[self])]
                   /\ UNCHANGED << mem, sb, mx, fsleep, wloc, crlist, ncrd, nh, 
                                   started, hobj, cpulen, pcpu, tcrd, mycpu, 
                                   slot, bpsaved, nest, hsize, nw, nk, nrw, wk, 
                                   reg, rnest, ncs, ingp, gpstuck, forked, 
                                   inchild, gone, forker, bdone, flags, cnt, 
                                   called, queued, bsnap, alive, uaf, errs, 
                                   pci, opx, iv, pa, hd, tl, old, cur, nx, cbc, 
                                   en, ec, wc, gd, fc, dc, newc, cidef, cn, bk, 
                                   regs, kk, om, tgt, asz, cl, ord, gps >>

bp_sync(self) == bs_mask(self) \/ bs_gl(self) \/ bs_rl(self)
                    \/ bs_loop(self) \/ bs_rel(self) \/ bs_url(self)
                    \/ bs_ugl(self) \/ bs_unmask(self)

wk_fl(self) == /\ pc[self] = "wk_fl"
               /\ iv' = [iv EXCEPT ![self] = Rd(self, (FlagsOf(wc[self])))]
               /\ uaf' = (uaf \/ Dead((FlagsOf(wc[self]))))
               /\ acc' = Ev(self, "ld", (FlagsOf(wc[self])), "-", "-", SV((FlagsOf(wc[self])), Rd(self, (FlagsOf(wc[self])))))
               /\ IF Has(iv'[self], RT)
                     THEN /\ pc' = [pc EXCEPT ![self] = Head(stack[self]).pc]
                          /\ stack' = [stack EXCEPT ![self] = Tail(stack[self])]
                     ELSE /\ pc' = [pc EXCEPT ![self] = "wk_mb"]
                          /\ stack' = stack
               /\ UNCHANGED << mem, sb, mx, fsleep, wloc, crlist, ncrd, nh, 
                               started, hobj, cpulen, pcpu, tcrd, mycpu, slot, 
                               smask, bpsaved, nest, hsize, nw, nk, nrw, wk, 
                               reg, rnest, ncs, ingp, gpstuck, forked, inchild, 
                               gone, forker, bdone, flags, cnt, called, queued, 
                               bsnap, alive, errs, pci, opx, pa, hd, tl, old, 
                               cur, nx, cbc, en, ec, wc, gd, fc, dc, newc, 
                               cidef, cn, bk, regs, kk, om, tgt, asz, cl, ord, 
                               gps >>

wk_mb(self) == /\ pc[self] = "wk_mb"
               /\ Drained(self)
               /\ pc' = [pc EXCEPT ![self] = "wk_ld"]
               /\ UNCHANGED << mem, sb, mx, acc, fsleep, wloc, crlist, ncrd, 
                               nh, started, hobj, cpulen, pcpu, tcrd, mycpu, 
                               slot, smask, bpsaved, nest, hsize, nw, nk, nrw, 
                               wk, reg, rnest, ncs, ingp, gpstuck, forked, 
                               inchild, gone, forker, bdone, flags, cnt, 
                               called, queued, bsnap, alive, uaf, errs, pci, 
                               opx, iv, pa, hd, tl, old, cur, nx, cbc, en, ec, 
                               wc, gd, fc, dc, newc, cidef, cn, bk, regs, kk, 
                               om, tgt, asz, cl, ord, gps, stack >>

wk_ld(self) == /\ pc[self] = "wk_ld"
               /\ iv' = [iv EXCEPT ![self] = Rd(self, (FutexOf(wc[self])))]
               /\ uaf' = (uaf \/ Dead((FutexOf(wc[self]))))
               /\ acc' = Ev(self, "ld", (FutexOf(wc[self])), "-", "-", SV((FutexOf(wc[self])), Rd(self, (FutexOf(wc[self])))))
               /\ IF iv'[self] # -1
                     THEN /\ pc' = [pc EXCEPT ![self] = Head(stack[self]).pc]
                          /\ stack' = [stack EXCEPT ![self] = Tail(stack[self])]
                     ELSE /\ pc' = [pc EXCEPT ![self] = "wk_st"]
                          /\ stack' = stack
               /\ UNCHANGED << mem, sb, mx, fsleep, wloc, crlist, ncrd, nh, 
                               started, hobj, cpulen, pcpu, tcrd, mycpu, slot, 
                               smask, bpsaved, nest, hsize, nw, nk, nrw, wk, 
                               reg, rnest, ncs, ingp, gpstuck, forked, inchild, 
                               gone, forker, bdone, flags, cnt, called, queued, 
                               bsnap, alive, errs, pci, opx, pa, hd, tl, old, 
                               cur, nx, cbc, en, ec, wc, gd, fc, dc, newc, 
                               cidef, cn, bk, regs, kk, om, tgt, asz, cl, ord, 
                               gps >>

wk_st(self) == /\ pc[self] = "wk_st"
               /\ IF TSO
                     THEN /\ Len(sb[self]) < SBMax
                          /\ sb' = [sb EXCEPT ![self] = Append(sb[self], <<(FutexOf(wc[self])), 0>>)]
                          /\ mem' = mem
                     ELSE /\ mem' = [mem EXCEPT ![(FutexOf(wc[self]))] = 0]
                          /\ sb' = sb
               /\ uaf' = (uaf \/ Dead((FutexOf(wc[self]))))
               /\ acc' = Ev(self, "st", (FutexOf(wc[self])), SV((FutexOf(wc[self])), 0), "-", "-")
               /\ pc' = [pc EXCEPT ![self] = "wk_fw"]
               /\ UNCHANGED << mx, fsleep, wloc, crlist, ncrd, nh, started, 
                               hobj, cpulen, pcpu, tcrd, mycpu, slot, smask, 
                               bpsaved, nest, hsize, nw, nk, nrw, wk, reg, 
                               rnest, ncs, ingp, gpstuck, forked, inchild, 
                               gone, forker, bdone, flags, cnt, called, queued, 
                               bsnap, alive, errs, pci, opx, iv, pa, hd, tl, 
                               old, cur, nx, cbc, en, ec, wc, gd, fc, dc, newc, 
                               cidef, cn, bk, regs, kk, om, tgt, asz, cl, ord, 
                               gps, stack >>

wk_fw(self) == /\ pc[self] = "wk_fw"
               /\ Drained(self)
               /\ uaf' = (uaf \/ Dead((FutexOf(wc[self]))))
               /\ acc' = Ev(self, "fwake", (FutexOf(wc[self])), "-", "-", ToString(Cardinality(Sleepers((FutexOf(wc[self]))))))
               /\ fsleep' = fsleep \ Sleepers((FutexOf(wc[self])))
               /\ pc' = [pc EXCEPT ![self] = Head(stack[self]).pc]
               /\ stack' = [stack EXCEPT ![self] = Tail(stack[self])]
               /\ UNCHANGED << mem, sb, mx, wloc, crlist, ncrd, nh, started, 
                               hobj, cpulen, pcpu, tcrd, mycpu, slot, smask, 
                               bpsaved, nest, hsize, nw, nk, nrw, wk, reg, 
                               rnest, ncs, ingp, gpstuck, forked, inchild, 
                               gone, forker, bdone, flags, cnt, called, queued, 
                               bsnap, alive, errs, pci, opx, iv, pa, hd, tl, 
                               old, cur, nx, cbc, en, ec, wc, gd, fc, dc, newc, 
                               cidef, cn, bk, regs, kk, om, tgt, asz, cl, ord, 
                               gps >>

wake(self) == wk_fl(self) \/ wk_mb(self) \/ wk_ld(self) \/ wk_st(self)
                 \/ wk_fw(self)

e_mb(self) == /\ pc[self] = "e_mb"
              /\ Drained(self)
              /\ pc' = [pc EXCEPT ![self] = "e_xchg"]
              /\ UNCHANGED << mem, sb, mx, acc, fsleep, wloc, crlist, ncrd, nh, 
                              started, hobj, cpulen, pcpu, tcrd, mycpu, slot, 
                              smask, bpsaved, nest, hsize, nw, nk, nrw, wk, 
                              reg, rnest, ncs, ingp, gpstuck, forked, inchild, 
                              gone, forker, bdone, flags, cnt, called, queued, 
                              bsnap, alive, uaf, errs, pci, opx, iv, pa, hd, 
                              tl, old, cur, nx, cbc, en, ec, wc, gd, fc, dc, 
                              newc, cidef, cn, bk, regs, kk, om, tgt, asz, cl, 
                              ord, gps, stack >>

e_xchg(self) == /\ pc[self] = "e_xchg"
                /\ Drained(self)
                /\ old' = [old EXCEPT ![self] = mem[(TailOf(ec[self]))]]
                /\ mem' = [mem EXCEPT ![(TailOf(ec[self]))] = en[self]]
                /\ uaf' = (uaf \/ Dead((TailOf(ec[self]))))
                /\ acc' = Ev(self, "xchg", (TailOf(ec[self])), (en[self]), "-", (old'[self]))
                /\ pc' = [pc EXCEPT ![self] = "e_link"]
                /\ UNCHANGED << sb, mx, fsleep, wloc, crlist, ncrd, nh, 
                                started, hobj, cpulen, pcpu, tcrd, mycpu, slot, 
                                smask, bpsaved, nest, hsize, nw, nk, nrw, wk, 
                                reg, rnest, ncs, ingp, gpstuck, forked, 
                                inchild, gone, forker, bdone, flags, cnt, 
                                called, queued, bsnap, alive, errs, pci, opx, 
                                iv, pa, hd, tl, cur, nx, cbc, en, ec, wc, gd, 
                                fc, dc, newc, cidef, cn, bk, regs, kk, om, tgt, 
                                asz, cl, ord, gps, stack >>

e_link(self) == /\ pc[self] = "e_link"
                /\ IF TSO
                      THEN /\ Len(sb[self]) < SBMax
                           /\ sb' = [sb EXCEPT ![self] = Append(sb[self], <<(NextOf(old[self])), (en[self])>>)]
                           /\ mem' = mem
                      ELSE /\ mem' = [mem EXCEPT ![(NextOf(old[self]))] = en[self]]
                           /\ sb' = sb
                /\ uaf' = (uaf \/ Dead((NextOf(old[self]))))
                /\ acc' = Ev(self, "st", (NextOf(old[self])), SV((NextOf(old[self])), (en[self])), "-", "-")
                /\ pc' = [pc EXCEPT ![self] = "e_qlen"]
                /\ UNCHANGED << mx, fsleep, wloc, crlist, ncrd, nh, started, 
                                hobj, cpulen, pcpu, tcrd, mycpu, slot, smask, 
                                bpsaved, nest, hsize, nw, nk, nrw, wk, reg, 
                                rnest, ncs, ingp, gpstuck, forked, inchild, 
                                gone, forker, bdone, flags, cnt, called, 
                                queued, bsnap, alive, errs, pci, opx, iv, pa, 
                                hd, tl, old, cur, nx, cbc, en, ec, wc, gd, fc, 
                                dc, newc, cidef, cn, bk, regs, kk, om, tgt, 
                                asz, cl, ord, gps, stack >>

e_qlen(self) == /\ pc[self] = "e_qlen"
                /\ Drained(self)
                /\ acc' = Ev(self, "inc", (QlenOf(ec[self])), "-", "-", ToString((mem[QlenOf(ec[self])] + 1)))
                /\ uaf' = (uaf \/ Dead((QlenOf(ec[self]))))
                /\ mem' = [mem EXCEPT ![(QlenOf(ec[self]))] = mem[QlenOf(ec[self])] + 1]
                /\ wc' = [wc EXCEPT ![self] = ec[self]]
                /\ stack' = [stack EXCEPT ![self] = << [ procedure |->  "wake",
                                                         pc        |->  "e_ret" ] >>
                                                     \o stack[self]]
                /\ pc' = [pc EXCEPT ![self] = "wk_fl"]
                /\ UNCHANGED << sb, mx, fsleep, wloc, crlist, ncrd, nh, 
                                started, hobj, cpulen, pcpu, tcrd, mycpu, slot, 
                                smask, bpsaved, nest, hsize, nw, nk, nrw, wk, 
                                reg, rnest, ncs, ingp, gpstuck, forked, 
                                inchild, gone, forker, bdone, flags, cnt, 
                                called, queued, bsnap, alive, errs, pci, opx, 
                                iv, pa, hd, tl, old, cur, nx, cbc, en, ec, gd, 
                                fc, dc, newc, cidef, cn, bk, regs, kk, om, tgt, 
                                asz, cl, ord, gps >>

e_ret(self) == /\ pc[self] = "e_ret"
               /\ pc' = [pc EXCEPT ![self] = Head(stack[self]).pc]
               /\ stack' = [stack EXCEPT ![self] = Tail(stack[self])]
               /\ UNCHANGED << mem, sb, mx, acc, fsleep, wloc, crlist, ncrd, 
                               nh, started, hobj, cpulen, pcpu, tcrd, mycpu, 
                               slot, smask, bpsaved, nest, hsize, nw, nk, nrw, 
                               wk, reg, rnest, ncs, ingp, gpstuck, forked, 
                               inchild, gone, forker, bdone, flags, cnt, 
                               called, queued, bsnap, alive, uaf, errs, pci, 
                               opx, iv, pa, hd, tl, old, cur, nx, cbc, en, ec, 
                               wc, gd, fc, dc, newc, cidef, cn, bk, regs, kk, 
                               om, tgt, asz, cl, ord, gps >>

enqueue(self) == e_mb(self) \/ e_xchg(self) \/ e_link(self) \/ e_qlen(self)
                    \/ e_ret(self)

ci_new(self) == /\ pc[self] = "ci_new"
                /\ ncrd < NCrd
                /\ newc' = [newc EXCEPT ![self] = CName(ncrd + 1)]
                /\ ncrd' = ncrd + 1
                /\ alive' = [alive EXCEPT ![newc'[self]] = "yes"]
                /\ crlist' = <<newc'[self]>> \o crlist
                /\ acc' = Ev(self, "alloc", newc'[self], "-", "-", "-")
                /\ pc' = [pc EXCEPT ![self] = "ci_pub"]
                /\ UNCHANGED << mem, sb, mx, fsleep, wloc, nh, started, hobj, 
                                cpulen, pcpu, tcrd, mycpu, slot, smask, 
                                bpsaved, nest, hsize, nw, nk, nrw, wk, reg, 
                                rnest, ncs, ingp, gpstuck, forked, inchild, 
                                gone, forker, bdone, flags, cnt, called, 
                                queued, bsnap, uaf, errs, pci, opx, iv, pa, hd, 
                                tl, old, cur, nx, cbc, en, ec, wc, gd, fc, dc, 
                                cidef, cn, bk, regs, kk, om, tgt, asz, cl, ord, 
                                gps, stack >>

ci_pub(self) == /\ pc[self] = "ci_pub"
                /\ IF cidef[self]
                      THEN /\ IF TSO
                                 THEN /\ Len(sb[self]) < SBMax
                                      /\ sb' = [sb EXCEPT ![self] = Append(sb[self], <<"dflt", (newc[self])>>)]
                                      /\ mem' = mem
                                 ELSE /\ mem' = [mem EXCEPT !["dflt"] = newc[self]]
                                      /\ sb' = sb
                           /\ uaf' = (uaf \/ Dead("dflt"))
                           /\ acc' = Ev(self, "st", "dflt", SV("dflt", (newc[self])), "-", "-")
                      ELSE /\ TRUE
                           /\ UNCHANGED << mem, sb, acc, uaf >>
                /\ pc' = [pc EXCEPT ![self] = "ci_mask"]
                /\ UNCHANGED << mx, fsleep, wloc, crlist, ncrd, nh, started, 
                                hobj, cpulen, pcpu, tcrd, mycpu, slot, smask, 
                                bpsaved, nest, hsize, nw, nk, nrw, wk, reg, 
                                rnest, ncs, ingp, gpstuck, forked, inchild, 
                                gone, forker, bdone, flags, cnt, called, 
                                queued, bsnap, alive, errs, pci, opx, iv, pa, 
                                hd, tl, old, cur, nx, cbc, en, ec, wc, gd, fc, 
                                dc, newc, cidef, cn, bk, regs, kk, om, tgt, 
                                asz, cl, ord, gps, stack >>

ci_mask(self) == /\ pc[self] = "ci_mask"
                 /\ om' = [om EXCEPT ![self] = smask[self]]
                 /\ smask' = [smask EXCEPT ![self] = TRUE]
                 /\ acc' = Ev(self, "sigmask", "-", "-", "-", IF TRUE THEN "1" ELSE "0")
                 /\ pc' = [pc EXCEPT ![self] = "ci_spawn"]
                 /\ UNCHANGED << mem, sb, mx, fsleep, wloc, crlist, ncrd, nh, 
                                 started, hobj, cpulen, pcpu, tcrd, mycpu, 
                                 slot, bpsaved, nest, hsize, nw, nk, nrw, wk, 
                                 reg, rnest, ncs, ingp, gpstuck, forked, 
                                 inchild, gone, forker, bdone, flags, cnt, 
                                 called, queued, bsnap, alive, uaf, errs, pci, 
                                 opx, iv, pa, hd, tl, old, cur, nx, cbc, en, 
                                 ec, wc, gd, fc, dc, newc, cidef, cn, bk, regs, 
                                 kk, tgt, asz, cl, ord, gps, stack >>

ci_spawn(self) == /\ pc[self] = "ci_spawn"
                  /\ nh < NHelp
                  /\ started' = [started EXCEPT ![HName(nh + 1)] = TRUE]
                  /\ hobj' = [hobj EXCEPT ![HName(nh + 1)] = newc[self]]
                  /\ nh' = nh + 1
                  /\ acc' = Ev(self, "spawn", HName(nh'), "-", "-", "-")
                  /\ pc' = [pc EXCEPT ![self] = "ci_unmask"]
                  /\ UNCHANGED << mem, sb, mx, fsleep, wloc, crlist, ncrd, 
                                  cpulen, pcpu, tcrd, mycpu, slot, smask, 
                                  bpsaved, nest, hsize, nw, nk, nrw, wk, reg, 
                                  rnest, ncs, ingp, gpstuck, forked, inchild, 
                                  gone, forker, bdone, flags, cnt, called, 
                                  queued, bsnap, alive, uaf, errs, pci, opx, 
                                  iv, pa, hd, tl, old, cur, nx, cbc, en, ec, 
                                  wc, gd, fc, dc, newc, cidef, cn, bk, regs, 
                                  kk, om, tgt, asz, cl, ord, gps, stack >>

ci_unmask(self) == /\ pc[self] = "ci_unmask"
                   /\ smask' = [smask EXCEPT ![self] = om[self]]
                   /\ acc' = Ev(self, "sigmask", "-", "-", "-", IF (om[self]) THEN "1" ELSE "0")
                   /\ pc' = [pc EXCEPT ![self] = Head(stack[self]).pc]
                   /\ stack' = [stack EXCEPT ![self] = Tail(stack[self])]
                   /\ UNCHANGED << mem, sb, mx, fsleep, wloc, crlist, ncrd, nh, 
                                   started, hobj, cpulen, pcpu, tcrd, mycpu, 
                                   slot, bpsaved, nest, hsize, nw, nk, nrw, wk, 
                                   reg, rnest, ncs, ingp, gpstuck, forked, 
                                   inchild, gone, forker, bdone, flags, cnt, 
                                   called, queued, bsnap, alive, uaf, errs, 
                                   pci, opx, iv, pa, hd, tl, old, cur, nx, cbc, 
                                   en, ec, wc, gd, fc, dc, newc, cidef, cn, bk, 
                                   regs, kk, om, tgt, asz, cl, ord, gps >>

data_init(self) == ci_new(self) \/ ci_pub(self) \/ ci_mask(self)
                      \/ ci_spawn(self) \/ ci_unmask(self)

gd_ld(self) == /\ pc[self] = "gd_ld"
               /\ gd' = [gd EXCEPT ![self] = Rd(self, "dflt")]
               /\ uaf' = (uaf \/ Dead("dflt"))
               /\ acc' = Ev(self, "ld", "dflt", "-", "-", SV("dflt", Rd(self, "dflt")))
               /\ IF gd'[self] # NULL
                     THEN /\ pc' = [pc EXCEPT ![self] = Head(stack[self]).pc]
                          /\ stack' = [stack EXCEPT ![self] = Tail(stack[self])]
                     ELSE /\ pc' = [pc EXCEPT ![self] = "gd_lock"]
                          /\ stack' = stack
               /\ UNCHANGED << mem, sb, mx, fsleep, wloc, crlist, ncrd, nh, 
                               started, hobj, cpulen, pcpu, tcrd, mycpu, slot, 
                               smask, bpsaved, nest, hsize, nw, nk, nrw, wk, 
                               reg, rnest, ncs, ingp, gpstuck, forked, inchild, 
                               gone, forker, bdone, flags, cnt, called, queued, 
                               bsnap, alive, errs, pci, opx, iv, pa, hd, tl, 
                               old, cur, nx, cbc, en, ec, wc, fc, dc, newc, 
                               cidef, cn, bk, regs, kk, om, tgt, asz, cl, ord, 
                               gps >>

gd_lock(self) == /\ pc[self] = "gd_lock"
                 /\ Drained(self) /\ mx[CM] = "free"
                 /\ mx' = [mx EXCEPT ![CM] = self]
                 /\ acc' = Ev(self, "lock", CM, "-", "-", "-")
                 /\ IF Rd(self, "dflt") = NULL
                       THEN /\ cidef' = [cidef EXCEPT ![self] = TRUE]
                            /\ stack' = [stack EXCEPT ![self] = << [ procedure |->  "data_init",
                                                                     pc        |->  "gd_unl" ] >>
                                                                 \o stack[self]]
                            /\ pc' = [pc EXCEPT ![self] = "ci_new"]
                       ELSE /\ pc' = [pc EXCEPT ![self] = "gd_unl"]
                            /\ UNCHANGED << cidef, stack >>
                 /\ UNCHANGED << mem, sb, fsleep, wloc, crlist, ncrd, nh, 
                                 started, hobj, cpulen, pcpu, tcrd, mycpu, 
                                 slot, smask, bpsaved, nest, hsize, nw, nk, 
                                 nrw, wk, reg, rnest, ncs, ingp, gpstuck, 
                                 forked, inchild, gone, forker, bdone, flags, 
                                 cnt, called, queued, bsnap, alive, uaf, errs, 
                                 pci, opx, iv, pa, hd, tl, old, cur, nx, cbc, 
                                 en, ec, wc, gd, fc, dc, newc, cn, bk, regs, 
                                 kk, om, tgt, asz, cl, ord, gps >>

gd_unl(self) == /\ pc[self] = "gd_unl"
                /\ gd' = [gd EXCEPT ![self] = Rd(self, "dflt")]
                /\ Drained(self)
                /\ mx' = [mx EXCEPT ![CM] = "free"]
                /\ acc' = Ev(self, "unlock", CM, "-", "-", "-")
                /\ pc' = [pc EXCEPT ![self] = Head(stack[self]).pc]
                /\ stack' = [stack EXCEPT ![self] = Tail(stack[self])]
                /\ UNCHANGED << mem, sb, fsleep, wloc, crlist, ncrd, nh, 
                                started, hobj, cpulen, pcpu, tcrd, mycpu, slot, 
                                smask, bpsaved, nest, hsize, nw, nk, nrw, wk, 
                                reg, rnest, ncs, ingp, gpstuck, forked, 
                                inchild, gone, forker, bdone, flags, cnt, 
                                called, queued, bsnap, alive, uaf, errs, pci, 
                                opx, iv, pa, hd, tl, old, cur, nx, cbc, en, ec, 
                                wc, fc, dc, newc, cidef, cn, bk, regs, kk, om, 
                                tgt, asz, cl, ord, gps >>

get_default(self) == gd_ld(self) \/ gd_lock(self) \/ gd_unl(self)

cr_rl(self) == /\ pc[self] = "cr_rl"
               /\ IF Flavor = "bp" /\ self \notin reg
                     THEN /\ stack' = [stack EXCEPT ![self] = << [ procedure |->  "bp_register",
                                                                   pc        |->  "cr_rl2" ] >>
                                                               \o stack[self]]
                          /\ pc' = [pc EXCEPT ![self] = "br_mask"]
                     ELSE /\ pc' = [pc EXCEPT ![self] = "cr_rl2"]
                          /\ stack' = stack
               /\ UNCHANGED << mem, sb, mx, acc, fsleep, wloc, crlist, ncrd, 
                               nh, started, hobj, cpulen, pcpu, tcrd, mycpu, 
                               slot, smask, bpsaved, nest, hsize, nw, nk, nrw, 
                               wk, reg, rnest, ncs, ingp, gpstuck, forked, 
                               inchild, gone, forker, bdone, flags, cnt, 
                               called, queued, bsnap, alive, uaf, errs, pci, 
                               opx, iv, pa, hd, tl, old, cur, nx, cbc, en, ec, 
                               wc, gd, fc, dc, newc, cidef, cn, bk, regs, kk, 
                               om, tgt, asz, cl, ord, gps >>

cr_rl2(self) == /\ pc[self] = "cr_rl2"
                /\ stack' = [stack EXCEPT ![self] = << [ procedure |->  "rlock",
                                                         pc        |->  "cr_sel" ] >>
                                                     \o stack[self]]
                /\ pc' = [pc EXCEPT ![self] = "rl_st"]
                /\ UNCHANGED << mem, sb, mx, acc, fsleep, wloc, crlist, ncrd, 
                                nh, started, hobj, cpulen, pcpu, tcrd, mycpu, 
                                slot, smask, bpsaved, nest, hsize, nw, nk, nrw, 
                                wk, reg, rnest, ncs, ingp, gpstuck, forked, 
                                inchild, gone, forker, bdone, flags, cnt, 
                                called, queued, bsnap, alive, uaf, errs, pci, 
                                opx, iv, pa, hd, tl, old, cur, nx, cbc, en, ec, 
                                wc, gd, fc, dc, newc, cidef, cn, bk, regs, kk, 
                                om, tgt, asz, cl, ord, gps >>

cr_sel(self) == /\ pc[self] = "cr_sel"
                /\ IF tcrd[self] # NULL
                      THEN /\ ec' = [ec EXCEPT ![self] = tcrd[self]]
                           /\ pc' = [pc EXCEPT ![self] = "cr_enq"]
                           /\ stack' = stack
                      ELSE /\ IF cpulen > 0 /\ pcpu[mycpu[self]] # NULL
                                 THEN /\ ec' = [ec EXCEPT ![self] = pcpu[mycpu[self]]]
                                      /\ pc' = [pc EXCEPT ![self] = "cr_enq"]
                                      /\ stack' = stack
                                 ELSE /\ stack' = [stack EXCEPT ![self] = << [ procedure |->  "get_default",
                                                                               pc        |->  "cr_got" ] >>
                                                                           \o stack[self]]
                                      /\ pc' = [pc EXCEPT ![self] = "gd_ld"]
                                      /\ ec' = ec
                /\ UNCHANGED << mem, sb, mx, acc, fsleep, wloc, crlist, ncrd, 
                                nh, started, hobj, cpulen, pcpu, tcrd, mycpu, 
                                slot, smask, bpsaved, nest, hsize, nw, nk, nrw, 
                                wk, reg, rnest, ncs, ingp, gpstuck, forked, 
                                inchild, gone, forker, bdone, flags, cnt, 
                                called, queued, bsnap, alive, uaf, errs, pci, 
                                opx, iv, pa, hd, tl, old, cur, nx, cbc, en, wc, 
                                gd, fc, dc, newc, cidef, cn, bk, regs, kk, om, 
                                tgt, asz, cl, ord, gps >>

cr_got(self) == /\ pc[self] = "cr_got"
                /\ ec' = [ec EXCEPT ![self] = gd[self]]
                /\ pc' = [pc EXCEPT ![self] = "cr_enq"]
                /\ UNCHANGED << mem, sb, mx, acc, fsleep, wloc, crlist, ncrd, 
                                nh, started, hobj, cpulen, pcpu, tcrd, mycpu, 
                                slot, smask, bpsaved, nest, hsize, nw, nk, nrw, 
                                wk, reg, rnest, ncs, ingp, gpstuck, forked, 
                                inchild, gone, forker, bdone, flags, cnt, 
                                called, queued, bsnap, alive, uaf, errs, pci, 
                                opx, iv, pa, hd, tl, old, cur, nx, cbc, en, wc, 
                                gd, fc, dc, newc, cidef, cn, bk, regs, kk, om, 
                                tgt, asz, cl, ord, gps, stack >>

cr_enq(self) == /\ pc[self] = "cr_enq"
                /\ en' = [en EXCEPT ![self] = cn[self]]
                /\ stack' = [stack EXCEPT ![self] = << [ procedure |->  "enqueue",
                                                         pc        |->  "cr_ru" ] >>
                                                     \o stack[self]]
                /\ pc' = [pc EXCEPT ![self] = "e_mb"]
                /\ UNCHANGED << mem, sb, mx, acc, fsleep, wloc, crlist, ncrd, 
                                nh, started, hobj, cpulen, pcpu, tcrd, mycpu, 
                                slot, smask, bpsaved, nest, hsize, nw, nk, nrw, 
                                wk, reg, rnest, ncs, ingp, gpstuck, forked, 
                                inchild, gone, forker, bdone, flags, cnt, 
                                called, queued, bsnap, alive, uaf, errs, pci, 
                                opx, iv, pa, hd, tl, old, cur, nx, cbc, ec, wc, 
                                gd, fc, dc, newc, cidef, cn, bk, regs, kk, om, 
                                tgt, asz, cl, ord, gps >>

cr_ru(self) == /\ pc[self] = "cr_ru"
               /\ stack' = [stack EXCEPT ![self] = << [ procedure |->  "runlock",
                                                        pc        |->  "cr_ret" ] >>
                                                    \o stack[self]]
               /\ pc' = [pc EXCEPT ![self] = "ru_mb"]
               /\ UNCHANGED << mem, sb, mx, acc, fsleep, wloc, crlist, ncrd, 
                               nh, started, hobj, cpulen, pcpu, tcrd, mycpu, 
                               slot, smask, bpsaved, nest, hsize, nw, nk, nrw, 
                               wk, reg, rnest, ncs, ingp, gpstuck, forked, 
                               inchild, gone, forker, bdone, flags, cnt, 
                               called, queued, bsnap, alive, uaf, errs, pci, 
                               opx, iv, pa, hd, tl, old, cur, nx, cbc, en, ec, 
                               wc, gd, fc, dc, newc, cidef, cn, bk, regs, kk, 
                               om, tgt, asz, cl, ord, gps >>

cr_ret(self) == /\ pc[self] = "cr_ret"
                /\ pc' = [pc EXCEPT ![self] = Head(stack[self]).pc]
                /\ stack' = [stack EXCEPT ![self] = Tail(stack[self])]
                /\ UNCHANGED << mem, sb, mx, acc, fsleep, wloc, crlist, ncrd, 
                                nh, started, hobj, cpulen, pcpu, tcrd, mycpu, 
                                slot, smask, bpsaved, nest, hsize, nw, nk, nrw, 
                                wk, reg, rnest, ncs, ingp, gpstuck, forked, 
                                inchild, gone, forker, bdone, flags, cnt, 
                                called, queued, bsnap, alive, uaf, errs, pci, 
                                opx, iv, pa, hd, tl, old, cur, nx, cbc, en, ec, 
                                wc, gd, fc, dc, newc, cidef, cn, bk, regs, kk, 
                                om, tgt, asz, cl, ord, gps >>

call_rcu(self) == cr_rl(self) \/ cr_rl2(self) \/ cr_sel(self)
                     \/ cr_got(self) \/ cr_enq(self) \/ cr_ru(self)
                     \/ cr_ret(self)

b_lock(self) == /\ pc[self] = "b_lock"
                /\ Drained(self) /\ mx[CM] = "free"
                /\ mx' = [mx EXCEPT ![CM] = self]
                /\ acc' = Ev(self, "lock", CM, "-", "-", "-")
                /\ regs' = [regs EXCEPT ![self] = crlist]
                /\ kk' = [kk EXCEPT ![self] = 1]
                /\ bk' = [bk EXCEPT ![self] = KName(nk + 1)]
                /\ nk' = nk + 1
                /\ pc' = [pc EXCEPT ![self] = "b_cnt"]
                /\ UNCHANGED << mem, sb, fsleep, wloc, crlist, ncrd, nh, 
                                started, hobj, cpulen, pcpu, tcrd, mycpu, slot, 
                                smask, bpsaved, nest, hsize, nw, nrw, wk, reg, 
                                rnest, ncs, ingp, gpstuck, forked, inchild, 
                                gone, forker, bdone, flags, cnt, called, 
                                queued, bsnap, alive, uaf, errs, pci, opx, iv, 
                                pa, hd, tl, old, cur, nx, cbc, en, ec, wc, gd, 
                                fc, dc, newc, cidef, cn, om, tgt, asz, cl, ord, 
                                gps, stack >>

b_cnt(self) == /\ pc[self] = "b_cnt"
               /\ Drained(self)
               /\ mem' = [mem EXCEPT ![(CountOf(bk[self]))] = Len(regs[self])]
               /\ pc' = [pc EXCEPT ![self] = "b_loop"]
               /\ UNCHANGED << sb, mx, acc, fsleep, wloc, crlist, ncrd, nh, 
                               started, hobj, cpulen, pcpu, tcrd, mycpu, slot, 
                               smask, bpsaved, nest, hsize, nw, nk, nrw, wk, 
                               reg, rnest, ncs, ingp, gpstuck, forked, inchild, 
                               gone, forker, bdone, flags, cnt, called, queued, 
                               bsnap, alive, uaf, errs, pci, opx, iv, pa, hd, 
                               tl, old, cur, nx, cbc, en, ec, wc, gd, fc, dc, 
                               newc, cidef, cn, bk, regs, kk, om, tgt, asz, cl, 
                               ord, gps, stack >>

b_loop(self) == /\ pc[self] = "b_loop"
                /\ IF kk[self] <= Len(regs[self])
                      THEN /\ en' = [en EXCEPT ![self] = WName(nw + 1)]
                           /\ wk' = [wk EXCEPT ![WName(nw + 1)] = bk[self]]
                           /\ nw' = nw + 1
                           /\ ec' = [ec EXCEPT ![self] = regs[self][kk[self]]]
                           /\ kk' = [kk EXCEPT ![self] = kk[self] + 1]
                           /\ stack' = [stack EXCEPT ![self] = << [ procedure |->  "enqueue",
                                                                    pc        |->  "b_loop" ] >>
                                                                \o stack[self]]
                           /\ pc' = [pc EXCEPT ![self] = "e_mb"]
                      ELSE /\ pc' = [pc EXCEPT ![self] = "b_unl"]
                           /\ UNCHANGED << nw, wk, en, ec, kk, stack >>
                /\ UNCHANGED << mem, sb, mx, acc, fsleep, wloc, crlist, ncrd, 
                                nh, started, hobj, cpulen, pcpu, tcrd, mycpu, 
                                slot, smask, bpsaved, nest, hsize, nk, nrw, 
                                reg, rnest, ncs, ingp, gpstuck, forked, 
                                inchild, gone, forker, bdone, flags, cnt, 
                                called, queued, bsnap, alive, uaf, errs, pci, 
                                opx, iv, pa, hd, tl, old, cur, nx, cbc, wc, gd, 
                                fc, dc, newc, cidef, cn, bk, regs, om, tgt, 
                                asz, cl, ord, gps >>

b_unl(self) == /\ pc[self] = "b_unl"
               /\ Drained(self)
               /\ mx' = [mx EXCEPT ![CM] = "free"]
               /\ acc' = Ev(self, "unlock", CM, "-", "-", "-")
               /\ pc' = [pc EXCEPT ![self] = "b_ldc"]
               /\ UNCHANGED << mem, sb, fsleep, wloc, crlist, ncrd, nh, 
                               started, hobj, cpulen, pcpu, tcrd, mycpu, slot, 
                               smask, bpsaved, nest, hsize, nw, nk, nrw, wk, 
                               reg, rnest, ncs, ingp, gpstuck, forked, inchild, 
                               gone, forker, bdone, flags, cnt, called, queued, 
                               bsnap, alive, uaf, errs, pci, opx, iv, pa, hd, 
                               tl, old, cur, nx, cbc, en, ec, wc, gd, fc, dc, 
                               newc, cidef, cn, bk, regs, kk, om, tgt, asz, cl, 
                               ord, gps, stack >>

b_ldc(self) == /\ pc[self] = "b_ldc"
               /\ iv' = [iv EXCEPT ![self] = Rd(self, (CountOf(bk[self])))]
               /\ uaf' = (uaf \/ Dead((CountOf(bk[self]))))
               /\ acc' = Ev(self, "ld", (CountOf(bk[self])), "-", "-", SV((CountOf(bk[self])), Rd(self, (CountOf(bk[self])))))
               /\ IF iv'[self] = 0
                     THEN /\ pc' = [pc EXCEPT ![self] = Head(stack[self]).pc]
                          /\ stack' = [stack EXCEPT ![self] = Tail(stack[self])]
                     ELSE /\ pc' = [pc EXCEPT ![self] = "b_wait"]
                          /\ stack' = stack
               /\ UNCHANGED << mem, sb, mx, fsleep, wloc, crlist, ncrd, nh, 
                               started, hobj, cpulen, pcpu, tcrd, mycpu, slot, 
                               smask, bpsaved, nest, hsize, nw, nk, nrw, wk, 
                               reg, rnest, ncs, ingp, gpstuck, forked, inchild, 
                               gone, forker, bdone, flags, cnt, called, queued, 
                               bsnap, alive, errs, pci, opx, pa, hd, tl, old, 
                               cur, nx, cbc, en, ec, wc, gd, fc, dc, newc, 
                               cidef, cn, bk, regs, kk, om, tgt, asz, cl, ord, 
                               gps >>

b_wait(self) == /\ pc[self] = "b_wait"
                /\ Tracing \/ mem[CountOf(bk[self])] = 0
                /\ pc' = [pc EXCEPT ![self] = "b_ldc"]
                /\ UNCHANGED << mem, sb, mx, acc, fsleep, wloc, crlist, ncrd, 
                                nh, started, hobj, cpulen, pcpu, tcrd, mycpu, 
                                slot, smask, bpsaved, nest, hsize, nw, nk, nrw, 
                                wk, reg, rnest, ncs, ingp, gpstuck, forked, 
                                inchild, gone, forker, bdone, flags, cnt, 
                                called, queued, bsnap, alive, uaf, errs, pci, 
                                opx, iv, pa, hd, tl, old, cur, nx, cbc, en, ec, 
                                wc, gd, fc, dc, newc, cidef, cn, bk, regs, kk, 
                                om, tgt, asz, cl, ord, gps, stack >>

barrier(self) == b_lock(self) \/ b_cnt(self) \/ b_loop(self) \/ b_unl(self)
                    \/ b_ldc(self) \/ b_wait(self)

lb_nest(self) == /\ pc[self] = "lb_nest"
                 /\ nest' = nest + 1
                 /\ IF nest' > 1
                       THEN /\ pc' = [pc EXCEPT ![self] = Head(stack[self]).pc]
                            /\ stack' = [stack EXCEPT ![self] = Tail(stack[self])]
                       ELSE /\ pc' = [pc EXCEPT ![self] = "lb_lock"]
                            /\ stack' = stack
                 /\ UNCHANGED << mem, sb, mx, acc, fsleep, wloc, crlist, ncrd, 
                                 nh, started, hobj, cpulen, pcpu, tcrd, mycpu, 
                                 slot, smask, bpsaved, hsize, nw, nk, nrw, wk, 
                                 reg, rnest, ncs, ingp, gpstuck, forked, 
                                 inchild, gone, forker, bdone, flags, cnt, 
                                 called, queued, bsnap, alive, uaf, errs, pci, 
                                 opx, iv, pa, hd, tl, old, cur, nx, cbc, en, 
                                 ec, wc, gd, fc, dc, newc, cidef, cn, bk, regs, 
                                 kk, om, tgt, asz, cl, ord, gps >>

lb_lock(self) == /\ pc[self] = "lb_lock"
                 /\ Drained(self) /\ mx[FM] = "free"
                 /\ mx' = [mx EXCEPT ![FM] = self]
                 /\ acc' = Ev(self, "lock", FM, "-", "-", "-")
                 /\ pc' = [pc EXCEPT ![self] = "lb_or"]
                 /\ UNCHANGED << mem, sb, fsleep, wloc, crlist, ncrd, nh, 
                                 started, hobj, cpulen, pcpu, tcrd, mycpu, 
                                 slot, smask, bpsaved, nest, hsize, nw, nk, 
                                 nrw, wk, reg, rnest, ncs, ingp, gpstuck, 
                                 forked, inchild, gone, forker, bdone, flags, 
                                 cnt, called, queued, bsnap, alive, uaf, errs, 
                                 pci, opx, iv, pa, hd, tl, old, cur, nx, cbc, 
                                 en, ec, wc, gd, fc, dc, newc, cidef, cn, bk, 
                                 regs, kk, om, tgt, asz, cl, ord, gps, stack >>

lb_or(self) == /\ pc[self] = "lb_or"
               /\ Drained(self)
               /\ acc' = Ev(self, "or", (FlagsOf(WQ)), (ToString(WPAUSE)), "-", ToString((SetB(mem[FlagsOf(WQ)], WPAUSE))))
               /\ uaf' = (uaf \/ Dead((FlagsOf(WQ))))
               /\ mem' = [mem EXCEPT ![(FlagsOf(WQ))] = SetB(mem[FlagsOf(WQ)], WPAUSE)]
               /\ wc' = [wc EXCEPT ![self] = WQ]
               /\ stack' = [stack EXCEPT ![self] = << [ procedure |->  "wake",
                                                        pc        |->  "lb_wait" ] >>
                                                    \o stack[self]]
               /\ pc' = [pc EXCEPT ![self] = "wk_fl"]
               /\ UNCHANGED << sb, mx, fsleep, wloc, crlist, ncrd, nh, started, 
                               hobj, cpulen, pcpu, tcrd, mycpu, slot, smask, 
                               bpsaved, nest, hsize, nw, nk, nrw, wk, reg, 
                               rnest, ncs, ingp, gpstuck, forked, inchild, 
                               gone, forker, bdone, flags, cnt, called, queued, 
                               bsnap, alive, errs, pci, opx, iv, pa, hd, tl, 
                               old, cur, nx, cbc, en, ec, gd, fc, dc, newc, 
                               cidef, cn, bk, regs, kk, om, tgt, asz, cl, ord, 
                               gps >>

lb_wait(self) == /\ pc[self] = "lb_wait"
                 /\ iv' = [iv EXCEPT ![self] = Rd(self, (FlagsOf(WQ)))]
                 /\ uaf' = (uaf \/ Dead((FlagsOf(WQ))))
                 /\ acc' = Ev(self, "ld", (FlagsOf(WQ)), "-", "-", SV((FlagsOf(WQ)), Rd(self, (FlagsOf(WQ)))))
                 /\ IF ~Has(iv'[self], WPAUSED)
                       THEN /\ pc' = [pc EXCEPT ![self] = "lb_wait"]
                       ELSE /\ pc' = [pc EXCEPT ![self] = "lb_ret"]
                 /\ UNCHANGED << mem, sb, mx, fsleep, wloc, crlist, ncrd, nh, 
                                 started, hobj, cpulen, pcpu, tcrd, mycpu, 
                                 slot, smask, bpsaved, nest, hsize, nw, nk, 
                                 nrw, wk, reg, rnest, ncs, ingp, gpstuck, 
                                 forked, inchild, gone, forker, bdone, flags, 
                                 cnt, called, queued, bsnap, alive, errs, pci, 
                                 opx, pa, hd, tl, old, cur, nx, cbc, en, ec, 
                                 wc, gd, fc, dc, newc, cidef, cn, bk, regs, kk, 
                                 om, tgt, asz, cl, ord, gps, stack >>

lb_ret(self) == /\ pc[self] = "lb_ret"
                /\ pc' = [pc EXCEPT ![self] = Head(stack[self]).pc]
                /\ stack' = [stack EXCEPT ![self] = Tail(stack[self])]
                /\ UNCHANGED << mem, sb, mx, acc, fsleep, wloc, crlist, ncrd, 
                                nh, started, hobj, cpulen, pcpu, tcrd, mycpu, 
                                slot, smask, bpsaved, nest, hsize, nw, nk, nrw, 
                                wk, reg, rnest, ncs, ingp, gpstuck, forked, 
                                inchild, gone, forker, bdone, flags, cnt, 
                                called, queued, bsnap, alive, uaf, errs, pci, 
                                opx, iv, pa, hd, tl, old, cur, nx, cbc, en, ec, 
                                wc, gd, fc, dc, newc, cidef, cn, bk, regs, kk, 
                                om, tgt, asz, cl, ord, gps >>

lf_before(self) == lb_nest(self) \/ lb_lock(self) \/ lb_or(self)
                      \/ lb_wait(self) \/ lb_ret(self)

lp_nest(self) == /\ pc[self] = "lp_nest"
                 /\ nest' = nest - 1
                 /\ IF nest' # 0 \/ "nestpost" \in Mut
                       THEN /\ pc' = [pc EXCEPT ![self] = Head(stack[self]).pc]
                            /\ stack' = [stack EXCEPT ![self] = Tail(stack[self])]
                       ELSE /\ pc' = [pc EXCEPT ![self] = "lp_and"]
                            /\ stack' = stack
                 /\ UNCHANGED << mem, sb, mx, acc, fsleep, wloc, crlist, ncrd, 
                                 nh, started, hobj, cpulen, pcpu, tcrd, mycpu, 
                                 slot, smask, bpsaved, hsize, nw, nk, nrw, wk, 
                                 reg, rnest, ncs, ingp, gpstuck, forked, 
                                 inchild, gone, forker, bdone, flags, cnt, 
                                 called, queued, bsnap, alive, uaf, errs, pci, 
                                 opx, iv, pa, hd, tl, old, cur, nx, cbc, en, 
                                 ec, wc, gd, fc, dc, newc, cidef, cn, bk, regs, 
                                 kk, om, tgt, asz, cl, ord, gps >>

lp_and(self) == /\ pc[self] = "lp_and"
                /\ Drained(self)
                /\ acc' = Ev(self, "and", (FlagsOf(WQ)), (ToString(-(WPAUSE + 1))), "-", ToString((ClrB(mem[FlagsOf(WQ)], WPAUSE))))
                /\ uaf' = (uaf \/ Dead((FlagsOf(WQ))))
                /\ mem' = [mem EXCEPT ![(FlagsOf(WQ))] = ClrB(mem[FlagsOf(WQ)], WPAUSE)]
                /\ pc' = [pc EXCEPT ![self] = "lp_wait"]
                /\ UNCHANGED << sb, mx, fsleep, wloc, crlist, ncrd, nh, 
                                started, hobj, cpulen, pcpu, tcrd, mycpu, slot, 
                                smask, bpsaved, nest, hsize, nw, nk, nrw, wk, 
                                reg, rnest, ncs, ingp, gpstuck, forked, 
                                inchild, gone, forker, bdone, flags, cnt, 
                                called, queued, bsnap, alive, errs, pci, opx, 
                                iv, pa, hd, tl, old, cur, nx, cbc, en, ec, wc, 
                                gd, fc, dc, newc, cidef, cn, bk, regs, kk, om, 
                                tgt, asz, cl, ord, gps, stack >>

lp_wait(self) == /\ pc[self] = "lp_wait"
                 /\ iv' = [iv EXCEPT ![self] = Rd(self, (FlagsOf(WQ)))]
                 /\ uaf' = (uaf \/ Dead((FlagsOf(WQ))))
                 /\ acc' = Ev(self, "ld", (FlagsOf(WQ)), "-", "-", SV((FlagsOf(WQ)), Rd(self, (FlagsOf(WQ)))))
                 /\ IF Has(iv'[self], WPAUSED)
                       THEN /\ pc' = [pc EXCEPT ![self] = "lp_wait"]
                       ELSE /\ pc' = [pc EXCEPT ![self] = "lp_unl"]
                 /\ UNCHANGED << mem, sb, mx, fsleep, wloc, crlist, ncrd, nh, 
                                 started, hobj, cpulen, pcpu, tcrd, mycpu, 
                                 slot, smask, bpsaved, nest, hsize, nw, nk, 
                                 nrw, wk, reg, rnest, ncs, ingp, gpstuck, 
                                 forked, inchild, gone, forker, bdone, flags, 
                                 cnt, called, queued, bsnap, alive, errs, pci, 
                                 opx, pa, hd, tl, old, cur, nx, cbc, en, ec, 
                                 wc, gd, fc, dc, newc, cidef, cn, bk, regs, kk, 
                                 om, tgt, asz, cl, ord, gps, stack >>

lp_unl(self) == /\ pc[self] = "lp_unl"
                /\ Drained(self)
                /\ mx' = [mx EXCEPT ![FM] = "free"]
                /\ acc' = Ev(self, "unlock", FM, "-", "-", "-")
                /\ pc' = [pc EXCEPT ![self] = Head(stack[self]).pc]
                /\ stack' = [stack EXCEPT ![self] = Tail(stack[self])]
                /\ UNCHANGED << mem, sb, fsleep, wloc, crlist, ncrd, nh, 
                                started, hobj, cpulen, pcpu, tcrd, mycpu, slot, 
                                smask, bpsaved, nest, hsize, nw, nk, nrw, wk, 
                                reg, rnest, ncs, ingp, gpstuck, forked, 
                                inchild, gone, forker, bdone, flags, cnt, 
                                called, queued, bsnap, alive, uaf, errs, pci, 
                                opx, iv, pa, hd, tl, old, cur, nx, cbc, en, ec, 
                                wc, gd, fc, dc, newc, cidef, cn, bk, regs, kk, 
                                om, tgt, asz, cl, ord, gps >>

lf_after_parent(self) == lp_nest(self) \/ lp_and(self) \/ lp_wait(self)
                            \/ lp_unl(self)

lc_nest(self) == /\ pc[self] = "lc_nest"
                 /\ nest' = nest - 1
                 /\ IF nest' # 0
                       THEN /\ pc' = [pc EXCEPT ![self] = Head(stack[self]).pc]
                            /\ stack' = [stack EXCEPT ![self] = Tail(stack[self])]
                       ELSE /\ pc' = [pc EXCEPT ![self] = "lc_mask"]
                            /\ stack' = stack
                 /\ UNCHANGED << mem, sb, mx, acc, fsleep, wloc, crlist, ncrd, 
                                 nh, started, hobj, cpulen, pcpu, tcrd, mycpu, 
                                 slot, smask, bpsaved, hsize, nw, nk, nrw, wk, 
                                 reg, rnest, ncs, ingp, gpstuck, forked, 
                                 inchild, gone, forker, bdone, flags, cnt, 
                                 called, queued, bsnap, alive, uaf, errs, pci, 
                                 opx, iv, pa, hd, tl, old, cur, nx, cbc, en, 
                                 ec, wc, gd, fc, dc, newc, cidef, cn, bk, regs, 
                                 kk, om, tgt, asz, cl, ord, gps >>

lc_mask(self) == /\ pc[self] = "lc_mask"
                 /\ Drained(self)
                 /\ mem' = [mem EXCEPT ![(FlagsOf(WQ))] = ClrB(ClrB(mem[FlagsOf(WQ)], WPAUSED), WPAUSE)]
                 /\ om' = [om EXCEPT ![self] = smask[self]]
                 /\ smask' = [smask EXCEPT ![self] = TRUE]
                 /\ acc' = Ev(self, "sigmask", "-", "-", "-", IF TRUE THEN "1" ELSE "0")
                 /\ pc' = [pc EXCEPT ![self] = "lc_spawn"]
                 /\ UNCHANGED << sb, mx, fsleep, wloc, crlist, ncrd, nh, 
                                 started, hobj, cpulen, pcpu, tcrd, mycpu, 
                                 slot, bpsaved, nest, hsize, nw, nk, nrw, wk, 
                                 reg, rnest, ncs, ingp, gpstuck, forked, 
                                 inchild, gone, forker, bdone, flags, cnt, 
                                 called, queued, bsnap, alive, uaf, errs, pci, 
                                 opx, iv, pa, hd, tl, old, cur, nx, cbc, en, 
                                 ec, wc, gd, fc, dc, newc, cidef, cn, bk, regs, 
                                 kk, tgt, asz, cl, ord, gps, stack >>

lc_spawn(self) == /\ pc[self] = "lc_spawn"
                  /\ nh < NHelp
                  /\ started' = [started EXCEPT ![HName(nh + 1)] = TRUE]
                  /\ hobj' = [hobj EXCEPT ![HName(nh + 1)] = WQ]
                  /\ nh' = nh + 1
                  /\ acc' = Ev(self, "spawn", HName(nh'), "-", "-", "-")
                  /\ pc' = [pc EXCEPT ![self] = "lc_unmask"]
                  /\ UNCHANGED << mem, sb, mx, fsleep, wloc, crlist, ncrd, 
                                  cpulen, pcpu, tcrd, mycpu, slot, smask, 
                                  bpsaved, nest, hsize, nw, nk, nrw, wk, reg, 
                                  rnest, ncs, ingp, gpstuck, forked, inchild, 
                                  gone, forker, bdone, flags, cnt, called, 
                                  queued, bsnap, alive, uaf, errs, pci, opx, 
                                  iv, pa, hd, tl, old, cur, nx, cbc, en, ec, 
                                  wc, gd, fc, dc, newc, cidef, cn, bk, regs, 
                                  kk, om, tgt, asz, cl, ord, gps, stack >>

lc_unmask(self) == /\ pc[self] = "lc_unmask"
                   /\ smask' = [smask EXCEPT ![self] = om[self]]
                   /\ acc' = Ev(self, "sigmask", "-", "-", "-", IF (om[self]) THEN "1" ELSE "0")
                   /\ pc' = [pc EXCEPT ![self] = "lc_unl"]
                   /\ UNCHANGED << mem, sb, mx, fsleep, wloc, crlist, ncrd, nh, 
                                   started, hobj, cpulen, pcpu, tcrd, mycpu, 
                                   slot, bpsaved, nest, hsize, nw, nk, nrw, wk, 
                                   reg, rnest, ncs, ingp, gpstuck, forked, 
                                   inchild, gone, forker, bdone, flags, cnt, 
                                   called, queued, bsnap, alive, uaf, errs, 
                                   pci, opx, iv, pa, hd, tl, old, cur, nx, cbc, 
                                   en, ec, wc, gd, fc, dc, newc, cidef, cn, bk, 
                                   regs, kk, om, tgt, asz, cl, ord, gps, stack >>

lc_unl(self) == /\ pc[self] = "lc_unl"
                /\ Drained(self)
                /\ mx' = [mx EXCEPT ![FM] = "free"]
                /\ acc' = Ev(self, "unlock", FM, "-", "-", "-")
                /\ pc' = [pc EXCEPT ![self] = Head(stack[self]).pc]
                /\ stack' = [stack EXCEPT ![self] = Tail(stack[self])]
                /\ UNCHANGED << mem, sb, fsleep, wloc, crlist, ncrd, nh, 
                                started, hobj, cpulen, pcpu, tcrd, mycpu, slot, 
                                smask, bpsaved, nest, hsize, nw, nk, nrw, wk, 
                                reg, rnest, ncs, ingp, gpstuck, forked, 
                                inchild, gone, forker, bdone, flags, cnt, 
                                called, queued, bsnap, alive, uaf, errs, pci, 
                                opx, iv, pa, hd, tl, old, cur, nx, cbc, en, ec, 
                                wc, gd, fc, dc, newc, cidef, cn, bk, regs, kk, 
                                om, tgt, asz, cl, ord, gps >>

lf_after_child(self) == lc_nest(self) \/ lc_mask(self) \/ lc_spawn(self)
                           \/ lc_unmask(self) \/ lc_unl(self)

bf_lock(self) == /\ pc[self] = "bf_lock"
                 /\ Drained(self) /\ mx[CM] = "free"
                 /\ mx' = [mx EXCEPT ![CM] = self]
                 /\ acc' = Ev(self, "lock", CM, "-", "-", "-")
                 /\ regs' = [regs EXCEPT ![self] = crlist]
                 /\ kk' = [kk EXCEPT ![self] = 1]
                 /\ IF Ht
                       THEN /\ stack' = [stack EXCEPT ![self] = << [ procedure |->  "lf_before",
                                                                     pc        |->  "bf_or" ] >>
                                                                 \o stack[self]]
                            /\ pc' = [pc EXCEPT ![self] = "lb_nest"]
                       ELSE /\ pc' = [pc EXCEPT ![self] = "bf_or"]
                            /\ stack' = stack
                 /\ UNCHANGED << mem, sb, fsleep, wloc, crlist, ncrd, nh, 
                                 started, hobj, cpulen, pcpu, tcrd, mycpu, 
                                 slot, smask, bpsaved, nest, hsize, nw, nk, 
                                 nrw, wk, reg, rnest, ncs, ingp, gpstuck, 
                                 forked, inchild, gone, forker, bdone, flags, 
                                 cnt, called, queued, bsnap, alive, uaf, errs, 
                                 pci, opx, iv, pa, hd, tl, old, cur, nx, cbc, 
                                 en, ec, wc, gd, fc, dc, newc, cidef, cn, bk, 
                                 om, tgt, asz, cl, ord, gps >>

bf_or(self) == /\ pc[self] = "bf_or"
               /\ IF kk[self] <= Len(regs[self])
                     THEN /\ Drained(self)
                          /\ acc' = Ev(self, "or", (FlagsOf(regs[self][kk[self]])), (ToString(PAUSE)), "-", ToString((SetB(mem[FlagsOf(regs[self][kk[self]])], PAUSE))))
                          /\ uaf' = (uaf \/ Dead((FlagsOf(regs[self][kk[self]]))))
                          /\ mem' = [mem EXCEPT ![(FlagsOf(regs[self][kk[self]]))] = SetB(mem[FlagsOf(regs[self][kk[self]])], PAUSE)]
                          /\ wc' = [wc EXCEPT ![self] = regs[self][kk[self]]]
                          /\ kk' = [kk EXCEPT ![self] = kk[self] + 1]
                          /\ stack' = [stack EXCEPT ![self] = << [ procedure |->  "wake",
                                                                   pc        |->  "bf_or" ] >>
                                                               \o stack[self]]
                          /\ pc' = [pc EXCEPT ![self] = "wk_fl"]
                     ELSE /\ pc' = [pc EXCEPT ![self] = "bf_w0"]
                          /\ UNCHANGED << mem, acc, uaf, wc, kk, stack >>
               /\ UNCHANGED << sb, mx, fsleep, wloc, crlist, ncrd, nh, started, 
                               hobj, cpulen, pcpu, tcrd, mycpu, slot, smask, 
                               bpsaved, nest, hsize, nw, nk, nrw, wk, reg, 
                               rnest, ncs, ingp, gpstuck, forked, inchild, 
                               gone, forker, bdone, flags, cnt, called, queued, 
                               bsnap, alive, errs, pci, opx, iv, pa, hd, tl, 
                               old, cur, nx, cbc, en, ec, gd, fc, dc, newc, 
                               cidef, cn, bk, regs, om, tgt, asz, cl, ord, gps >>

bf_w0(self) == /\ pc[self] = "bf_w0"
               /\ kk' = [kk EXCEPT ![self] = 1]
               /\ IF "nopausedwait" \in Mut
                     THEN /\ pc' = [pc EXCEPT ![self] = Head(stack[self]).pc]
                          /\ stack' = [stack EXCEPT ![self] = Tail(stack[self])]
                     ELSE /\ pc' = [pc EXCEPT ![self] = "bf_wait"]
                          /\ stack' = stack
               /\ UNCHANGED << mem, sb, mx, acc, fsleep, wloc, crlist, ncrd, 
                               nh, started, hobj, cpulen, pcpu, tcrd, mycpu, 
                               slot, smask, bpsaved, nest, hsize, nw, nk, nrw, 
                               wk, reg, rnest, ncs, ingp, gpstuck, forked, 
                               inchild, gone, forker, bdone, flags, cnt, 
                               called, queued, bsnap, alive, uaf, errs, pci, 
                               opx, iv, pa, hd, tl, old, cur, nx, cbc, en, ec, 
                               wc, gd, fc, dc, newc, cidef, cn, bk, regs, om, 
                               tgt, asz, cl, ord, gps >>

bf_wait(self) == /\ pc[self] = "bf_wait"
                 /\ IF kk[self] <= Len(regs[self])
                       THEN /\ iv' = [iv EXCEPT ![self] = Rd(self, (FlagsOf(regs[self][kk[self]])))]
                            /\ uaf' = (uaf \/ Dead((FlagsOf(regs[self][kk[self]]))))
                            /\ acc' = Ev(self, "ld", (FlagsOf(regs[self][kk[self]])), "-", "-", SV((FlagsOf(regs[self][kk[self]])), Rd(self, (FlagsOf(regs[self][kk[self]])))))
                            /\ IF Has(iv'[self], PAUSED)
                                  THEN /\ kk' = [kk EXCEPT ![self] = kk[self] + 1]
                                  ELSE /\ TRUE
                                       /\ kk' = kk
                            /\ pc' = [pc EXCEPT ![self] = "bf_wait"]
                            /\ stack' = stack
                       ELSE /\ pc' = [pc EXCEPT ![self] = Head(stack[self]).pc]
                            /\ stack' = [stack EXCEPT ![self] = Tail(stack[self])]
                            /\ UNCHANGED << acc, uaf, iv, kk >>
                 /\ UNCHANGED << mem, sb, mx, fsleep, wloc, crlist, ncrd, nh, 
                                 started, hobj, cpulen, pcpu, tcrd, mycpu, 
                                 slot, smask, bpsaved, nest, hsize, nw, nk, 
                                 nrw, wk, reg, rnest, ncs, ingp, gpstuck, 
                                 forked, inchild, gone, forker, bdone, flags, 
                                 cnt, called, queued, bsnap, alive, errs, pci, 
                                 opx, pa, hd, tl, old, cur, nx, cbc, en, ec, 
                                 wc, gd, fc, dc, newc, cidef, cn, bk, regs, om, 
                                 tgt, asz, cl, ord, gps >>

before_fork(self) == bf_lock(self) \/ bf_or(self) \/ bf_w0(self)
                        \/ bf_wait(self)

af_0(self) == /\ pc[self] = "af_0"
              /\ regs' = [regs EXCEPT ![self] = crlist]
              /\ kk' = [kk EXCEPT ![self] = 1]
              /\ pc' = [pc EXCEPT ![self] = "af_and"]
              /\ UNCHANGED << mem, sb, mx, acc, fsleep, wloc, crlist, ncrd, nh, 
                              started, hobj, cpulen, pcpu, tcrd, mycpu, slot, 
                              smask, bpsaved, nest, hsize, nw, nk, nrw, wk, 
                              reg, rnest, ncs, ingp, gpstuck, forked, inchild, 
                              gone, forker, bdone, flags, cnt, called, queued, 
                              bsnap, alive, uaf, errs, pci, opx, iv, pa, hd, 
                              tl, old, cur, nx, cbc, en, ec, wc, gd, fc, dc, 
                              newc, cidef, cn, bk, om, tgt, asz, cl, ord, gps, 
                              stack >>

af_and(self) == /\ pc[self] = "af_and"
                /\ IF kk[self] <= Len(regs[self])
                      THEN /\ Drained(self)
                           /\ acc' = Ev(self, "and", (FlagsOf(regs[self][kk[self]])), (ToString(-(PAUSE + 1))), "-", ToString((ClrB(mem[FlagsOf(regs[self][kk[self]])], PAUSE))))
                           /\ uaf' = (uaf \/ Dead((FlagsOf(regs[self][kk[self]]))))
                           /\ mem' = [mem EXCEPT ![(FlagsOf(regs[self][kk[self]]))] = ClrB(mem[FlagsOf(regs[self][kk[self]])], PAUSE)]
                           /\ kk' = [kk EXCEPT ![self] = kk[self] + 1]
                           /\ pc' = [pc EXCEPT ![self] = "af_and"]
                      ELSE /\ pc' = [pc EXCEPT ![self] = "af_w0"]
                           /\ UNCHANGED << mem, acc, uaf, kk >>
                /\ UNCHANGED << sb, mx, fsleep, wloc, crlist, ncrd, nh, 
                                started, hobj, cpulen, pcpu, tcrd, mycpu, slot, 
                                smask, bpsaved, nest, hsize, nw, nk, nrw, wk, 
                                reg, rnest, ncs, ingp, gpstuck, forked, 
                                inchild, gone, forker, bdone, flags, cnt, 
                                called, queued, bsnap, alive, errs, pci, opx, 
                                iv, pa, hd, tl, old, cur, nx, cbc, en, ec, wc, 
                                gd, fc, dc, newc, cidef, cn, bk, regs, om, tgt, 
                                asz, cl, ord, gps, stack >>

af_w0(self) == /\ pc[self] = "af_w0"
               /\ kk' = [kk EXCEPT ![self] = 1]
               /\ pc' = [pc EXCEPT ![self] = "af_wait"]
               /\ UNCHANGED << mem, sb, mx, acc, fsleep, wloc, crlist, ncrd, 
                               nh, started, hobj, cpulen, pcpu, tcrd, mycpu, 
                               slot, smask, bpsaved, nest, hsize, nw, nk, nrw, 
                               wk, reg, rnest, ncs, ingp, gpstuck, forked, 
                               inchild, gone, forker, bdone, flags, cnt, 
                               called, queued, bsnap, alive, uaf, errs, pci, 
                               opx, iv, pa, hd, tl, old, cur, nx, cbc, en, ec, 
                               wc, gd, fc, dc, newc, cidef, cn, bk, regs, om, 
                               tgt, asz, cl, ord, gps, stack >>

af_wait(self) == /\ pc[self] = "af_wait"
                 /\ IF kk[self] <= Len(regs[self])
                       THEN /\ iv' = [iv EXCEPT ![self] = Rd(self, (FlagsOf(regs[self][kk[self]])))]
                            /\ uaf' = (uaf \/ Dead((FlagsOf(regs[self][kk[self]]))))
                            /\ acc' = Ev(self, "ld", (FlagsOf(regs[self][kk[self]])), "-", "-", SV((FlagsOf(regs[self][kk[self]])), Rd(self, (FlagsOf(regs[self][kk[self]])))))
                            /\ IF ~Has(iv'[self], PAUSED)
                                  THEN /\ kk' = [kk EXCEPT ![self] = kk[self] + 1]
                                  ELSE /\ TRUE
                                       /\ kk' = kk
                            /\ pc' = [pc EXCEPT ![self] = "af_wait"]
                       ELSE /\ pc' = [pc EXCEPT ![self] = "af_lf"]
                            /\ UNCHANGED << acc, uaf, iv, kk >>
                 /\ UNCHANGED << mem, sb, mx, fsleep, wloc, crlist, ncrd, nh, 
                                 started, hobj, cpulen, pcpu, tcrd, mycpu, 
                                 slot, smask, bpsaved, nest, hsize, nw, nk, 
                                 nrw, wk, reg, rnest, ncs, ingp, gpstuck, 
                                 forked, inchild, gone, forker, bdone, flags, 
                                 cnt, called, queued, bsnap, alive, errs, pci, 
                                 opx, pa, hd, tl, old, cur, nx, cbc, en, ec, 
                                 wc, gd, fc, dc, newc, cidef, cn, bk, regs, om, 
                                 tgt, asz, cl, ord, gps, stack >>

af_lf(self) == /\ pc[self] = "af_lf"
               /\ IF Ht
                     THEN /\ stack' = [stack EXCEPT ![self] = << [ procedure |->  "lf_after_parent",
                                                                   pc        |->  "af_unl" ] >>
                                                               \o stack[self]]
                          /\ pc' = [pc EXCEPT ![self] = "lp_nest"]
                     ELSE /\ pc' = [pc EXCEPT ![self] = "af_unl"]
                          /\ stack' = stack
               /\ UNCHANGED << mem, sb, mx, acc, fsleep, wloc, crlist, ncrd, 
                               nh, started, hobj, cpulen, pcpu, tcrd, mycpu, 
                               slot, smask, bpsaved, nest, hsize, nw, nk, nrw, 
                               wk, reg, rnest, ncs, ingp, gpstuck, forked, 
                               inchild, gone, forker, bdone, flags, cnt, 
                               called, queued, bsnap, alive, uaf, errs, pci, 
                               opx, iv, pa, hd, tl, old, cur, nx, cbc, en, ec, 
                               wc, gd, fc, dc, newc, cidef, cn, bk, regs, kk, 
                               om, tgt, asz, cl, ord, gps >>

af_unl(self) == /\ pc[self] = "af_unl"
                /\ Drained(self)
                /\ mx' = [mx EXCEPT ![CM] = "free"]
                /\ acc' = Ev(self, "unlock", CM, "-", "-", "-")
                /\ pc' = [pc EXCEPT ![self] = Head(stack[self]).pc]
                /\ stack' = [stack EXCEPT ![self] = Tail(stack[self])]
                /\ UNCHANGED << mem, sb, fsleep, wloc, crlist, ncrd, nh, 
                                started, hobj, cpulen, pcpu, tcrd, mycpu, slot, 
                                smask, bpsaved, nest, hsize, nw, nk, nrw, wk, 
                                reg, rnest, ncs, ingp, gpstuck, forked, 
                                inchild, gone, forker, bdone, flags, cnt, 
                                called, queued, bsnap, alive, uaf, errs, pci, 
                                opx, iv, pa, hd, tl, old, cur, nx, cbc, en, ec, 
                                wc, gd, fc, dc, newc, cidef, cn, bk, regs, kk, 
                                om, tgt, asz, cl, ord, gps >>

after_parent(self) == af_0(self) \/ af_and(self) \/ af_w0(self)
                         \/ af_wait(self) \/ af_lf(self) \/ af_unl(self)

f_ld(self) == /\ pc[self] = "f_ld"
              /\ iv' = [iv EXCEPT ![self] = Rd(self, (FlagsOf(fc[self])))]
              /\ uaf' = (uaf \/ Dead((FlagsOf(fc[self]))))
              /\ acc' = Ev(self, "ld", (FlagsOf(fc[self])), "-", "-", SV((FlagsOf(fc[self])), Rd(self, (FlagsOf(fc[self])))))
              /\ pc' = [pc EXCEPT ![self] = "f_lock"]
              /\ UNCHANGED << mem, sb, mx, fsleep, wloc, crlist, ncrd, nh, 
                              started, hobj, cpulen, pcpu, tcrd, mycpu, slot, 
                              smask, bpsaved, nest, hsize, nw, nk, nrw, wk, 
                              reg, rnest, ncs, ingp, gpstuck, forked, inchild, 
                              gone, forker, bdone, flags, cnt, called, queued, 
                              bsnap, alive, errs, pci, opx, pa, hd, tl, old, 
                              cur, nx, cbc, en, ec, wc, gd, fc, dc, newc, 
                              cidef, cn, bk, regs, kk, om, tgt, asz, cl, ord, 
                              gps, stack >>

f_lock(self) == /\ pc[self] = "f_lock"
                /\ Drained(self) /\ mx[CM] = "free"
                /\ mx' = [mx EXCEPT ![CM] = self]
                /\ acc' = Ev(self, "lock", CM, "-", "-", "-")
                /\ IF "nosplice" \in Mut
                      THEN /\ pc' = [pc EXCEPT ![self] = "f_unl2"]
                      ELSE /\ pc' = [pc EXCEPT ![self] = "f_e1"]
                /\ UNCHANGED << mem, sb, fsleep, wloc, crlist, ncrd, nh, 
                                started, hobj, cpulen, pcpu, tcrd, mycpu, slot, 
                                smask, bpsaved, nest, hsize, nw, nk, nrw, wk, 
                                reg, rnest, ncs, ingp, gpstuck, forked, 
                                inchild, gone, forker, bdone, flags, cnt, 
                                called, queued, bsnap, alive, uaf, errs, pci, 
                                opx, iv, pa, hd, tl, old, cur, nx, cbc, en, ec, 
                                wc, gd, fc, dc, newc, cidef, cn, bk, regs, kk, 
                                om, tgt, asz, cl, ord, gps, stack >>

f_e1(self) == /\ pc[self] = "f_e1"
              /\ pa' = [pa EXCEPT ![self] = Rd(self, (NextOf(Hd(fc[self]))))]
              /\ uaf' = (uaf \/ Dead((NextOf(Hd(fc[self])))))
              /\ acc' = Ev(self, "ld", (NextOf(Hd(fc[self]))), "-", "-", SV((NextOf(Hd(fc[self]))), Rd(self, (NextOf(Hd(fc[self]))))))
              /\ IF pa'[self] # NULL
                    THEN /\ pc' = [pc EXCEPT ![self] = "f_unl1"]
                    ELSE /\ pc' = [pc EXCEPT ![self] = "f_e2"]
              /\ UNCHANGED << mem, sb, mx, fsleep, wloc, crlist, ncrd, nh, 
                              started, hobj, cpulen, pcpu, tcrd, mycpu, slot, 
                              smask, bpsaved, nest, hsize, nw, nk, nrw, wk, 
                              reg, rnest, ncs, ingp, gpstuck, forked, inchild, 
                              gone, forker, bdone, flags, cnt, called, queued, 
                              bsnap, alive, errs, pci, opx, iv, hd, tl, old, 
                              cur, nx, cbc, en, ec, wc, gd, fc, dc, newc, 
                              cidef, cn, bk, regs, kk, om, tgt, asz, cl, ord, 
                              gps, stack >>

f_e2(self) == /\ pc[self] = "f_e2"
              /\ pa' = [pa EXCEPT ![self] = Rd(self, (TailOf(fc[self])))]
              /\ uaf' = (uaf \/ Dead((TailOf(fc[self]))))
              /\ acc' = Ev(self, "ld", (TailOf(fc[self])), "-", "-", SV((TailOf(fc[self])), Rd(self, (TailOf(fc[self])))))
              /\ IF pa'[self] = Hd(fc[self])
                    THEN /\ pc' = [pc EXCEPT ![self] = "f_unl2"]
                    ELSE /\ pc' = [pc EXCEPT ![self] = "f_unl1"]
              /\ UNCHANGED << mem, sb, mx, fsleep, wloc, crlist, ncrd, nh, 
                              started, hobj, cpulen, pcpu, tcrd, mycpu, slot, 
                              smask, bpsaved, nest, hsize, nw, nk, nrw, wk, 
                              reg, rnest, ncs, ingp, gpstuck, forked, inchild, 
                              gone, forker, bdone, flags, cnt, called, queued, 
                              bsnap, alive, errs, pci, opx, iv, hd, tl, old, 
                              cur, nx, cbc, en, ec, wc, gd, fc, dc, newc, 
                              cidef, cn, bk, regs, kk, om, tgt, asz, cl, ord, 
                              gps, stack >>

f_unl1(self) == /\ pc[self] = "f_unl1"
                /\ Drained(self)
                /\ mx' = [mx EXCEPT ![CM] = "free"]
                /\ acc' = Ev(self, "unlock", CM, "-", "-", "-")
                /\ stack' = [stack EXCEPT ![self] = << [ procedure |->  "get_default",
                                                         pc        |->  "f_lock2" ] >>
                                                     \o stack[self]]
                /\ pc' = [pc EXCEPT ![self] = "gd_ld"]
                /\ UNCHANGED << mem, sb, fsleep, wloc, crlist, ncrd, nh, 
                                started, hobj, cpulen, pcpu, tcrd, mycpu, slot, 
                                smask, bpsaved, nest, hsize, nw, nk, nrw, wk, 
                                reg, rnest, ncs, ingp, gpstuck, forked, 
                                inchild, gone, forker, bdone, flags, cnt, 
                                called, queued, bsnap, alive, uaf, errs, pci, 
                                opx, iv, pa, hd, tl, old, cur, nx, cbc, en, ec, 
                                wc, gd, fc, dc, newc, cidef, cn, bk, regs, kk, 
                                om, tgt, asz, cl, ord, gps >>

f_lock2(self) == /\ pc[self] = "f_lock2"
                 /\ Drained(self) /\ mx[CM] = "free"
                 /\ mx' = [mx EXCEPT ![CM] = self]
                 /\ acc' = Ev(self, "lock", CM, "-", "-", "-")
                 /\ dc' = [dc EXCEPT ![self] = Rd(self, "dflt")]
                 /\ pc' = [pc EXCEPT ![self] = "fs_e1"]
                 /\ UNCHANGED << mem, sb, fsleep, wloc, crlist, ncrd, nh, 
                                 started, hobj, cpulen, pcpu, tcrd, mycpu, 
                                 slot, smask, bpsaved, nest, hsize, nw, nk, 
                                 nrw, wk, reg, rnest, ncs, ingp, gpstuck, 
                                 forked, inchild, gone, forker, bdone, flags, 
                                 cnt, called, queued, bsnap, alive, uaf, errs, 
                                 pci, opx, iv, pa, hd, tl, old, cur, nx, cbc, 
                                 en, ec, wc, gd, fc, newc, cidef, cn, bk, regs, 
                                 kk, om, tgt, asz, cl, ord, gps, stack >>

fs_e1(self) == /\ pc[self] = "fs_e1"
               /\ pa' = [pa EXCEPT ![self] = Rd(self, (NextOf(Hd(fc[self]))))]
               /\ uaf' = (uaf \/ Dead((NextOf(Hd(fc[self])))))
               /\ acc' = Ev(self, "ld", (NextOf(Hd(fc[self]))), "-", "-", SV((NextOf(Hd(fc[self]))), Rd(self, (NextOf(Hd(fc[self]))))))
               /\ IF pa'[self] # NULL
                     THEN /\ pc' = [pc EXCEPT ![self] = "fs_xh"]
                     ELSE /\ pc' = [pc EXCEPT ![self] = "fs_e2"]
               /\ UNCHANGED << mem, sb, mx, fsleep, wloc, crlist, ncrd, nh, 
                               started, hobj, cpulen, pcpu, tcrd, mycpu, slot, 
                               smask, bpsaved, nest, hsize, nw, nk, nrw, wk, 
                               reg, rnest, ncs, ingp, gpstuck, forked, inchild, 
                               gone, forker, bdone, flags, cnt, called, queued, 
                               bsnap, alive, errs, pci, opx, iv, hd, tl, old, 
                               cur, nx, cbc, en, ec, wc, gd, fc, dc, newc, 
                               cidef, cn, bk, regs, kk, om, tgt, asz, cl, ord, 
                               gps, stack >>

fs_e2(self) == /\ pc[self] = "fs_e2"
               /\ pa' = [pa EXCEPT ![self] = Rd(self, (TailOf(fc[self])))]
               /\ uaf' = (uaf \/ Dead((TailOf(fc[self]))))
               /\ acc' = Ev(self, "ld", (TailOf(fc[self])), "-", "-", SV((TailOf(fc[self])), Rd(self, (TailOf(fc[self])))))
               /\ IF pa'[self] = Hd(fc[self])
                     THEN /\ pc' = [pc EXCEPT ![self] = "f_ldq"]
                     ELSE /\ pc' = [pc EXCEPT ![self] = "fs_xh"]
               /\ UNCHANGED << mem, sb, mx, fsleep, wloc, crlist, ncrd, nh, 
                               started, hobj, cpulen, pcpu, tcrd, mycpu, slot, 
                               smask, bpsaved, nest, hsize, nw, nk, nrw, wk, 
                               reg, rnest, ncs, ingp, gpstuck, forked, inchild, 
                               gone, forker, bdone, flags, cnt, called, queued, 
                               bsnap, alive, errs, pci, opx, iv, hd, tl, old, 
                               cur, nx, cbc, en, ec, wc, gd, fc, dc, newc, 
                               cidef, cn, bk, regs, kk, om, tgt, asz, cl, ord, 
                               gps, stack >>

fs_xh(self) == /\ pc[self] = "fs_xh"
               /\ Drained(self)
               /\ hd' = [hd EXCEPT ![self] = mem[(NextOf(Hd(fc[self])))]]
               /\ mem' = [mem EXCEPT ![(NextOf(Hd(fc[self])))] = NULL]
               /\ uaf' = (uaf \/ Dead((NextOf(Hd(fc[self])))))
               /\ acc' = Ev(self, "xchg", (NextOf(Hd(fc[self]))), NULL, "-", (hd'[self]))
               /\ IF hd'[self] # NULL
                     THEN /\ pc' = [pc EXCEPT ![self] = "fs_mb"]
                     ELSE /\ pc' = [pc EXCEPT ![self] = "fs_lt"]
               /\ UNCHANGED << sb, mx, fsleep, wloc, crlist, ncrd, nh, started, 
                               hobj, cpulen, pcpu, tcrd, mycpu, slot, smask, 
                               bpsaved, nest, hsize, nw, nk, nrw, wk, reg, 
                               rnest, ncs, ingp, gpstuck, forked, inchild, 
                               gone, forker, bdone, flags, cnt, called, queued, 
                               bsnap, alive, errs, pci, opx, iv, pa, tl, old, 
                               cur, nx, cbc, en, ec, wc, gd, fc, dc, newc, 
                               cidef, cn, bk, regs, kk, om, tgt, asz, cl, ord, 
                               gps, stack >>

fs_lt(self) == /\ pc[self] = "fs_lt"
               /\ pa' = [pa EXCEPT ![self] = Rd(self, (TailOf(fc[self])))]
               /\ uaf' = (uaf \/ Dead((TailOf(fc[self]))))
               /\ acc' = Ev(self, "ld", (TailOf(fc[self])), "-", "-", SV((TailOf(fc[self])), Rd(self, (TailOf(fc[self])))))
               /\ IF pa'[self] = Hd(fc[self])
                     THEN /\ pc' = [pc EXCEPT ![self] = "f_ldq"]
                     ELSE /\ pc' = [pc EXCEPT ![self] = "fs_xh"]
               /\ UNCHANGED << mem, sb, mx, fsleep, wloc, crlist, ncrd, nh, 
                               started, hobj, cpulen, pcpu, tcrd, mycpu, slot, 
                               smask, bpsaved, nest, hsize, nw, nk, nrw, wk, 
                               reg, rnest, ncs, ingp, gpstuck, forked, inchild, 
                               gone, forker, bdone, flags, cnt, called, queued, 
                               bsnap, alive, errs, pci, opx, iv, hd, tl, old, 
                               cur, nx, cbc, en, ec, wc, gd, fc, dc, newc, 
                               cidef, cn, bk, regs, kk, om, tgt, asz, cl, ord, 
                               gps, stack >>

fs_mb(self) == /\ pc[self] = "fs_mb"
               /\ Drained(self)
               /\ pc' = [pc EXCEPT ![self] = "fs_xt"]
               /\ UNCHANGED << mem, sb, mx, acc, fsleep, wloc, crlist, ncrd, 
                               nh, started, hobj, cpulen, pcpu, tcrd, mycpu, 
                               slot, smask, bpsaved, nest, hsize, nw, nk, nrw, 
                               wk, reg, rnest, ncs, ingp, gpstuck, forked, 
                               inchild, gone, forker, bdone, flags, cnt, 
                               called, queued, bsnap, alive, uaf, errs, pci, 
                               opx, iv, pa, hd, tl, old, cur, nx, cbc, en, ec, 
                               wc, gd, fc, dc, newc, cidef, cn, bk, regs, kk, 
                               om, tgt, asz, cl, ord, gps, stack >>

fs_xt(self) == /\ pc[self] = "fs_xt"
               /\ Drained(self)
               /\ tl' = [tl EXCEPT ![self] = mem[(TailOf(fc[self]))]]
               /\ mem' = [mem EXCEPT ![(TailOf(fc[self]))] = Hd(fc[self])]
               /\ uaf' = (uaf \/ Dead((TailOf(fc[self]))))
               /\ acc' = Ev(self, "xchg", (TailOf(fc[self])), (Hd(fc[self])), "-", (tl'[self]))
               /\ pc' = [pc EXCEPT ![self] = "fs_ax"]
               /\ UNCHANGED << sb, mx, fsleep, wloc, crlist, ncrd, nh, started, 
                               hobj, cpulen, pcpu, tcrd, mycpu, slot, smask, 
                               bpsaved, nest, hsize, nw, nk, nrw, wk, reg, 
                               rnest, ncs, ingp, gpstuck, forked, inchild, 
                               gone, forker, bdone, flags, cnt, called, queued, 
                               bsnap, alive, errs, pci, opx, iv, pa, hd, old, 
                               cur, nx, cbc, en, ec, wc, gd, fc, dc, newc, 
                               cidef, cn, bk, regs, kk, om, tgt, asz, cl, ord, 
                               gps, stack >>

fs_ax(self) == /\ pc[self] = "fs_ax"
               /\ Drained(self)
               /\ old' = [old EXCEPT ![self] = mem[(TailOf(dc[self]))]]
               /\ mem' = [mem EXCEPT ![(TailOf(dc[self]))] = tl[self]]
               /\ uaf' = (uaf \/ Dead((TailOf(dc[self]))))
               /\ acc' = Ev(self, "xchg", (TailOf(dc[self])), (tl[self]), "-", (old'[self]))
               /\ pc' = [pc EXCEPT ![self] = "fs_al"]
               /\ UNCHANGED << sb, mx, fsleep, wloc, crlist, ncrd, nh, started, 
                               hobj, cpulen, pcpu, tcrd, mycpu, slot, smask, 
                               bpsaved, nest, hsize, nw, nk, nrw, wk, reg, 
                               rnest, ncs, ingp, gpstuck, forked, inchild, 
                               gone, forker, bdone, flags, cnt, called, queued, 
                               bsnap, alive, errs, pci, opx, iv, pa, hd, tl, 
                               cur, nx, cbc, en, ec, wc, gd, fc, dc, newc, 
                               cidef, cn, bk, regs, kk, om, tgt, asz, cl, ord, 
                               gps, stack >>

fs_al(self) == /\ pc[self] = "fs_al"
               /\ IF TSO
                     THEN /\ Len(sb[self]) < SBMax
                          /\ sb' = [sb EXCEPT ![self] = Append(sb[self], <<(NextOf(old[self])), (hd[self])>>)]
                          /\ mem' = mem
                     ELSE /\ mem' = [mem EXCEPT ![(NextOf(old[self]))] = hd[self]]
                          /\ sb' = sb
               /\ uaf' = (uaf \/ Dead((NextOf(old[self]))))
               /\ acc' = Ev(self, "st", (NextOf(old[self])), SV((NextOf(old[self])), (hd[self])), "-", "-")
               /\ pc' = [pc EXCEPT ![self] = "f_ldq"]
               /\ UNCHANGED << mx, fsleep, wloc, crlist, ncrd, nh, started, 
                               hobj, cpulen, pcpu, tcrd, mycpu, slot, smask, 
                               bpsaved, nest, hsize, nw, nk, nrw, wk, reg, 
                               rnest, ncs, ingp, gpstuck, forked, inchild, 
                               gone, forker, bdone, flags, cnt, called, queued, 
                               bsnap, alive, errs, pci, opx, iv, pa, hd, tl, 
                               old, cur, nx, cbc, en, ec, wc, gd, fc, dc, newc, 
                               cidef, cn, bk, regs, kk, om, tgt, asz, cl, ord, 
                               gps, stack >>

f_ldq(self) == /\ pc[self] = "f_ldq"
               /\ iv' = [iv EXCEPT ![self] = Rd(self, (QlenOf(fc[self])))]
               /\ uaf' = (uaf \/ Dead((QlenOf(fc[self]))))
               /\ acc' = Ev(self, "ld", (QlenOf(fc[self])), "-", "-", SV((QlenOf(fc[self])), Rd(self, (QlenOf(fc[self])))))
               /\ pc' = [pc EXCEPT ![self] = "f_add"]
               /\ UNCHANGED << mem, sb, mx, fsleep, wloc, crlist, ncrd, nh, 
                               started, hobj, cpulen, pcpu, tcrd, mycpu, slot, 
                               smask, bpsaved, nest, hsize, nw, nk, nrw, wk, 
                               reg, rnest, ncs, ingp, gpstuck, forked, inchild, 
                               gone, forker, bdone, flags, cnt, called, queued, 
                               bsnap, alive, errs, pci, opx, pa, hd, tl, old, 
                               cur, nx, cbc, en, ec, wc, gd, fc, dc, newc, 
                               cidef, cn, bk, regs, kk, om, tgt, asz, cl, ord, 
                               gps, stack >>

f_add(self) == /\ pc[self] = "f_add"
               /\ Drained(self)
               /\ acc' = Ev(self, "add", (QlenOf(dc[self])), (ToString(iv[self])), "-", ToString((mem[QlenOf(dc[self])] + iv[self])))
               /\ uaf' = (uaf \/ Dead((QlenOf(dc[self]))))
               /\ mem' = [mem EXCEPT ![(QlenOf(dc[self]))] = mem[QlenOf(dc[self])] + iv[self]]
               /\ wc' = [wc EXCEPT ![self] = dc[self]]
               /\ stack' = [stack EXCEPT ![self] = << [ procedure |->  "wake",
                                                        pc        |->  "f_unl2" ] >>
                                                    \o stack[self]]
               /\ pc' = [pc EXCEPT ![self] = "wk_fl"]
               /\ UNCHANGED << sb, mx, fsleep, wloc, crlist, ncrd, nh, started, 
                               hobj, cpulen, pcpu, tcrd, mycpu, slot, smask, 
                               bpsaved, nest, hsize, nw, nk, nrw, wk, reg, 
                               rnest, ncs, ingp, gpstuck, forked, inchild, 
                               gone, forker, bdone, flags, cnt, called, queued, 
                               bsnap, alive, errs, pci, opx, iv, pa, hd, tl, 
                               old, cur, nx, cbc, en, ec, gd, fc, dc, newc, 
                               cidef, cn, bk, regs, kk, om, tgt, asz, cl, ord, 
                               gps >>

f_unl2(self) == /\ pc[self] = "f_unl2"
                /\ IF "keepold" \notin Mut
                      THEN /\ crlist' = Without(crlist, fc[self])
                      ELSE /\ TRUE
                           /\ UNCHANGED crlist
                /\ Drained(self)
                /\ mx' = [mx EXCEPT ![CM] = "free"]
                /\ acc' = Ev(self, "unlock", CM, "-", "-", "-")
                /\ pc' = [pc EXCEPT ![self] = "f_join"]
                /\ UNCHANGED << mem, sb, fsleep, wloc, ncrd, nh, started, hobj, 
                                cpulen, pcpu, tcrd, mycpu, slot, smask, 
                                bpsaved, nest, hsize, nw, nk, nrw, wk, reg, 
                                rnest, ncs, ingp, gpstuck, forked, inchild, 
                                gone, forker, bdone, flags, cnt, called, 
                                queued, bsnap, alive, uaf, errs, pci, opx, iv, 
                                pa, hd, tl, old, cur, nx, cbc, en, ec, wc, gd, 
                                fc, dc, newc, cidef, cn, bk, regs, kk, om, tgt, 
                                asz, cl, ord, gps, stack >>

f_join(self) == /\ pc[self] = "f_join"
                /\ IF "joinold" \in Mut
                      THEN /\ \E h \in Helpers : hobj[h] = fc[self] /\ pc[h] = "Done"
                      ELSE /\ TRUE
                /\ pc' = [pc EXCEPT ![self] = "f_free"]
                /\ UNCHANGED << mem, sb, mx, acc, fsleep, wloc, crlist, ncrd, 
                                nh, started, hobj, cpulen, pcpu, tcrd, mycpu, 
                                slot, smask, bpsaved, nest, hsize, nw, nk, nrw, 
                                wk, reg, rnest, ncs, ingp, gpstuck, forked, 
                                inchild, gone, forker, bdone, flags, cnt, 
                                called, queued, bsnap, alive, uaf, errs, pci, 
                                opx, iv, pa, hd, tl, old, cur, nx, cbc, en, ec, 
                                wc, gd, fc, dc, newc, cidef, cn, bk, regs, kk, 
                                om, tgt, asz, cl, ord, gps, stack >>

f_free(self) == /\ pc[self] = "f_free"
                /\ IF alive[fc[self]] # "yes"
                      THEN /\ errs' = (errs \cup {"call_rcu_data freed twice"})
                      ELSE /\ TRUE
                           /\ errs' = errs
                /\ alive' = [alive EXCEPT ![fc[self]] = "freed"]
                /\ hd' = [hd EXCEPT ![self] = NULL]
                /\ tl' = [tl EXCEPT ![self] = NULL]
                /\ acc' = Ev(self, "free", fc[self], "-", "-", "-")
                /\ pc' = [pc EXCEPT ![self] = Head(stack[self]).pc]
                /\ stack' = [stack EXCEPT ![self] = Tail(stack[self])]
                /\ UNCHANGED << mem, sb, mx, fsleep, wloc, crlist, ncrd, nh, 
                                started, hobj, cpulen, pcpu, tcrd, mycpu, slot, 
                                smask, bpsaved, nest, hsize, nw, nk, nrw, wk, 
                                reg, rnest, ncs, ingp, gpstuck, forked, 
                                inchild, gone, forker, bdone, flags, cnt, 
                                called, queued, bsnap, uaf, pci, opx, iv, pa, 
                                old, cur, nx, cbc, en, ec, wc, gd, fc, dc, 
                                newc, cidef, cn, bk, regs, kk, om, tgt, asz, 
                                cl, ord, gps >>

data_free0(self) == f_ld(self) \/ f_lock(self) \/ f_e1(self) \/ f_e2(self)
                       \/ f_unl1(self) \/ f_lock2(self) \/ fs_e1(self)
                       \/ fs_e2(self) \/ fs_xh(self) \/ fs_lt(self)
                       \/ fs_mb(self) \/ fs_xt(self) \/ fs_ax(self)
                       \/ fs_al(self) \/ f_ldq(self) \/ f_add(self)
                       \/ f_unl2(self) \/ f_join(self) \/ f_free(self)

ac_unl(self) == /\ pc[self] = "ac_unl"
                /\ Drained(self)
                /\ mx' = [mx EXCEPT ![CM] = "free"]
                /\ acc' = Ev(self, "unlock", CM, "-", "-", "-")
                /\ pc' = [pc EXCEPT ![self] = "ac_lf"]
                /\ UNCHANGED << mem, sb, fsleep, wloc, crlist, ncrd, nh, 
                                started, hobj, cpulen, pcpu, tcrd, mycpu, slot, 
                                smask, bpsaved, nest, hsize, nw, nk, nrw, wk, 
                                reg, rnest, ncs, ingp, gpstuck, forked, 
                                inchild, gone, forker, bdone, flags, cnt, 
                                called, queued, bsnap, alive, uaf, errs, pci, 
                                opx, iv, pa, hd, tl, old, cur, nx, cbc, en, ec, 
                                wc, gd, fc, dc, newc, cidef, cn, bk, regs, kk, 
                                om, tgt, asz, cl, ord, gps, stack >>

ac_lf(self) == /\ pc[self] = "ac_lf"
               /\ IF Ht
                     THEN /\ stack' = [stack EXCEPT ![self] = << [ procedure |->  "lf_after_child",
                                                                   pc        |->  "ac_chk" ] >>
                                                               \o stack[self]]
                          /\ pc' = [pc EXCEPT ![self] = "lc_nest"]
                     ELSE /\ pc' = [pc EXCEPT ![self] = "ac_chk"]
                          /\ stack' = stack
               /\ UNCHANGED << mem, sb, mx, acc, fsleep, wloc, crlist, ncrd, 
                               nh, started, hobj, cpulen, pcpu, tcrd, mycpu, 
                               slot, smask, bpsaved, nest, hsize, nw, nk, nrw, 
                               wk, reg, rnest, ncs, ingp, gpstuck, forked, 
                               inchild, gone, forker, bdone, flags, cnt, 
                               called, queued, bsnap, alive, uaf, errs, pci, 
                               opx, iv, pa, hd, tl, old, cur, nx, cbc, en, ec, 
                               wc, gd, fc, dc, newc, cidef, cn, bk, regs, kk, 
                               om, tgt, asz, cl, ord, gps >>

ac_chk(self) == /\ pc[self] = "ac_chk"
                /\ IF crlist = <<>>
                      THEN /\ pc' = [pc EXCEPT ![self] = Head(stack[self]).pc]
                           /\ stack' = [stack EXCEPT ![self] = Tail(stack[self])]
                      ELSE /\ pc' = [pc EXCEPT ![self] = "ac_dflt"]
                           /\ stack' = stack
                /\ UNCHANGED << mem, sb, mx, acc, fsleep, wloc, crlist, ncrd, 
                                nh, started, hobj, cpulen, pcpu, tcrd, mycpu, 
                                slot, smask, bpsaved, nest, hsize, nw, nk, nrw, 
                                wk, reg, rnest, ncs, ingp, gpstuck, forked, 
                                inchild, gone, forker, bdone, flags, cnt, 
                                called, queued, bsnap, alive, uaf, errs, pci, 
                                opx, iv, pa, hd, tl, old, cur, nx, cbc, en, ec, 
                                wc, gd, fc, dc, newc, cidef, cn, bk, regs, kk, 
                                om, tgt, asz, cl, ord, gps >>

ac_dflt(self) == /\ pc[self] = "ac_dflt"
                 /\ Drained(self)
                 /\ mem' = [mem EXCEPT !["dflt"] = NULL]
                 /\ stack' = [stack EXCEPT ![self] = << [ procedure |->  "get_default",
                                                          pc        |->  "ac_reset" ] >>
                                                      \o stack[self]]
                 /\ pc' = [pc EXCEPT ![self] = "gd_ld"]
                 /\ UNCHANGED << sb, mx, acc, fsleep, wloc, crlist, ncrd, nh, 
                                 started, hobj, cpulen, pcpu, tcrd, mycpu, 
                                 slot, smask, bpsaved, nest, hsize, nw, nk, 
                                 nrw, wk, reg, rnest, ncs, ingp, gpstuck, 
                                 forked, inchild, gone, forker, bdone, flags, 
                                 cnt, called, queued, bsnap, alive, uaf, errs, 
                                 pci, opx, iv, pa, hd, tl, old, cur, nx, cbc, 
                                 en, ec, wc, gd, fc, dc, newc, cidef, cn, bk, 
                                 regs, kk, om, tgt, asz, cl, ord, gps >>

ac_reset(self) == /\ pc[self] = "ac_reset"
                  /\ cpulen' = 0
                  /\ pcpu' = [c \in 0..(NCpu - 1) |-> NULL]
                  /\ tcrd' = [tcrd EXCEPT ![self] = NULL]
                  /\ regs' = [regs EXCEPT ![self] = crlist]
                  /\ kk' = [kk EXCEPT ![self] = 1]
                  /\ pc' = [pc EXCEPT ![self] = "ac_loop"]
                  /\ UNCHANGED << mem, sb, mx, acc, fsleep, wloc, crlist, ncrd, 
                                  nh, started, hobj, mycpu, slot, smask, 
                                  bpsaved, nest, hsize, nw, nk, nrw, wk, reg, 
                                  rnest, ncs, ingp, gpstuck, forked, inchild, 
                                  gone, forker, bdone, flags, cnt, called, 
                                  queued, bsnap, alive, uaf, errs, pci, opx, 
                                  iv, pa, hd, tl, old, cur, nx, cbc, en, ec, 
                                  wc, gd, fc, dc, newc, cidef, cn, bk, om, tgt, 
                                  asz, cl, ord, gps, stack >>

ac_loop(self) == /\ pc[self] = "ac_loop"
                 /\ IF kk[self] <= Len(regs[self])
                       THEN /\ IF regs[self][kk[self]] = Rd(self, "dflt")
                                  THEN /\ kk' = [kk EXCEPT ![self] = kk[self] + 1]
                                       /\ pc' = [pc EXCEPT ![self] = "ac_loop"]
                                       /\ UNCHANGED << mem, sb, acc, uaf, fc, 
                                                       stack >>
                                  ELSE /\ fc' = [fc EXCEPT ![self] = regs[self][kk[self]]]
                                       /\ kk' = [kk EXCEPT ![self] = kk[self] + 1]
                                       /\ IF TSO
                                             THEN /\ Len(sb[self]) < SBMax
                                                  /\ sb' = [sb EXCEPT ![self] = Append(sb[self], <<(FlagsOf(fc'[self])), STOPPED>>)]
                                                  /\ mem' = mem
                                             ELSE /\ mem' = [mem EXCEPT ![(FlagsOf(fc'[self]))] = STOPPED]
                                                  /\ sb' = sb
                                       /\ uaf' = (uaf \/ Dead((FlagsOf(fc'[self]))))
                                       /\ acc' = Ev(self, "st", (FlagsOf(fc'[self])), SV((FlagsOf(fc'[self])), STOPPED), "-", "-")
                                       /\ stack' = [stack EXCEPT ![self] = << [ procedure |->  "data_free0",
                                                                                pc        |->  "ac_loop" ] >>
                                                                            \o stack[self]]
                                       /\ pc' = [pc EXCEPT ![self] = "f_ld"]
                       ELSE /\ pc' = [pc EXCEPT ![self] = Head(stack[self]).pc]
                            /\ stack' = [stack EXCEPT ![self] = Tail(stack[self])]
                            /\ UNCHANGED << mem, sb, acc, uaf, fc, kk >>
                 /\ UNCHANGED << mx, fsleep, wloc, crlist, ncrd, nh, started, 
                                 hobj, cpulen, pcpu, tcrd, mycpu, slot, smask, 
                                 bpsaved, nest, hsize, nw, nk, nrw, wk, reg, 
                                 rnest, ncs, ingp, gpstuck, forked, inchild, 
                                 gone, forker, bdone, flags, cnt, called, 
                                 queued, bsnap, alive, errs, pci, opx, iv, pa, 
                                 hd, tl, old, cur, nx, cbc, en, ec, wc, gd, dc, 
                                 newc, cidef, cn, bk, regs, om, tgt, asz, cl, 
                                 ord, gps >>

after_child(self) == ac_unl(self) \/ ac_lf(self) \/ ac_chk(self)
                        \/ ac_dflt(self) \/ ac_reset(self) \/ ac_loop(self)

bb_mask(self) == /\ pc[self] = "bb_mask"
                 /\ om' = [om EXCEPT ![self] = smask[self]]
                 /\ smask' = [smask EXCEPT ![self] = TRUE]
                 /\ acc' = Ev(self, "sigmask", "-", "-", "-", IF TRUE THEN "1" ELSE "0")
                 /\ pc' = [pc EXCEPT ![self] = "bb_il"]
                 /\ UNCHANGED << mem, sb, mx, fsleep, wloc, crlist, ncrd, nh, 
                                 started, hobj, cpulen, pcpu, tcrd, mycpu, 
                                 slot, bpsaved, nest, hsize, nw, nk, nrw, wk, 
                                 reg, rnest, ncs, ingp, gpstuck, forked, 
                                 inchild, gone, forker, bdone, flags, cnt, 
                                 called, queued, bsnap, alive, uaf, errs, pci, 
                                 opx, iv, pa, hd, tl, old, cur, nx, cbc, en, 
                                 ec, wc, gd, fc, dc, newc, cidef, cn, bk, regs, 
                                 kk, tgt, asz, cl, ord, gps, stack >>

bb_il(self) == /\ pc[self] = "bb_il"
               /\ IF "noinitlock" \notin Mut
                     THEN /\ Drained(self) /\ mx[IL] = "free"
                          /\ mx' = [mx EXCEPT ![IL] = self]
                          /\ acc' = Ev(self, "lock", IL, "-", "-", "-")
                     ELSE /\ TRUE
                          /\ UNCHANGED << mx, acc >>
               /\ pc' = [pc EXCEPT ![self] = "bb_gl"]
               /\ UNCHANGED << mem, sb, fsleep, wloc, crlist, ncrd, nh, 
                               started, hobj, cpulen, pcpu, tcrd, mycpu, slot, 
                               smask, bpsaved, nest, hsize, nw, nk, nrw, wk, 
                               reg, rnest, ncs, ingp, gpstuck, forked, inchild, 
                               gone, forker, bdone, flags, cnt, called, queued, 
                               bsnap, alive, uaf, errs, pci, opx, iv, pa, hd, 
                               tl, old, cur, nx, cbc, en, ec, wc, gd, fc, dc, 
                               newc, cidef, cn, bk, regs, kk, om, tgt, asz, cl, 
                               ord, gps, stack >>

bb_gl(self) == /\ pc[self] = "bb_gl"
               /\ Drained(self) /\ mx[GL] = "free"
               /\ mx' = [mx EXCEPT ![GL] = self]
               /\ acc' = Ev(self, "lock", GL, "-", "-", "-")
               /\ pc' = [pc EXCEPT ![self] = "bb_rl"]
               /\ UNCHANGED << mem, sb, fsleep, wloc, crlist, ncrd, nh, 
                               started, hobj, cpulen, pcpu, tcrd, mycpu, slot, 
                               smask, bpsaved, nest, hsize, nw, nk, nrw, wk, 
                               reg, rnest, ncs, ingp, gpstuck, forked, inchild, 
                               gone, forker, bdone, flags, cnt, called, queued, 
                               bsnap, alive, uaf, errs, pci, opx, iv, pa, hd, 
                               tl, old, cur, nx, cbc, en, ec, wc, gd, fc, dc, 
                               newc, cidef, cn, bk, regs, kk, om, tgt, asz, cl, 
                               ord, gps, stack >>

bb_rl(self) == /\ pc[self] = "bb_rl"
               /\ Drained(self) /\ mx[RL] = "free"
               /\ mx' = [mx EXCEPT ![RL] = self]
               /\ acc' = Ev(self, "lock", RL, "-", "-", "-")
               /\ bpsaved' = om[self]
               /\ pc' = [pc EXCEPT ![self] = Head(stack[self]).pc]
               /\ stack' = [stack EXCEPT ![self] = Tail(stack[self])]
               /\ UNCHANGED << mem, sb, fsleep, wloc, crlist, ncrd, nh, 
                               started, hobj, cpulen, pcpu, tcrd, mycpu, slot, 
                               smask, nest, hsize, nw, nk, nrw, wk, reg, rnest, 
                               ncs, ingp, gpstuck, forked, inchild, gone, 
                               forker, bdone, flags, cnt, called, queued, 
                               bsnap, alive, uaf, errs, pci, opx, iv, pa, hd, 
                               tl, old, cur, nx, cbc, en, ec, wc, gd, fc, dc, 
                               newc, cidef, cn, bk, regs, kk, om, tgt, asz, cl, 
                               ord, gps >>

bp_before(self) == bb_mask(self) \/ bb_il(self) \/ bb_gl(self)
                      \/ bb_rl(self)

ba_url(self) == /\ pc[self] = "ba_url"
                /\ Drained(self)
                /\ mx' = [mx EXCEPT ![RL] = "free"]
                /\ acc' = Ev(self, "unlock", RL, "-", "-", "-")
                /\ pc' = [pc EXCEPT ![self] = "ba_ugl"]
                /\ UNCHANGED << mem, sb, fsleep, wloc, crlist, ncrd, nh, 
                                started, hobj, cpulen, pcpu, tcrd, mycpu, slot, 
                                smask, bpsaved, nest, hsize, nw, nk, nrw, wk, 
                                reg, rnest, ncs, ingp, gpstuck, forked, 
                                inchild, gone, forker, bdone, flags, cnt, 
                                called, queued, bsnap, alive, uaf, errs, pci, 
                                opx, iv, pa, hd, tl, old, cur, nx, cbc, en, ec, 
                                wc, gd, fc, dc, newc, cidef, cn, bk, regs, kk, 
                                om, tgt, asz, cl, ord, gps, stack >>

ba_ugl(self) == /\ pc[self] = "ba_ugl"
                /\ Drained(self)
                /\ mx' = [mx EXCEPT ![GL] = "free"]
                /\ acc' = Ev(self, "unlock", GL, "-", "-", "-")
                /\ pc' = [pc EXCEPT ![self] = "ba_uil"]
                /\ UNCHANGED << mem, sb, fsleep, wloc, crlist, ncrd, nh, 
                                started, hobj, cpulen, pcpu, tcrd, mycpu, slot, 
                                smask, bpsaved, nest, hsize, nw, nk, nrw, wk, 
                                reg, rnest, ncs, ingp, gpstuck, forked, 
                                inchild, gone, forker, bdone, flags, cnt, 
                                called, queued, bsnap, alive, uaf, errs, pci, 
                                opx, iv, pa, hd, tl, old, cur, nx, cbc, en, ec, 
                                wc, gd, fc, dc, newc, cidef, cn, bk, regs, kk, 
                                om, tgt, asz, cl, ord, gps, stack >>

ba_uil(self) == /\ pc[self] = "ba_uil"
                /\ IF "noinitlock" \notin Mut
                      THEN /\ Drained(self)
                           /\ mx' = [mx EXCEPT ![IL] = "free"]
                           /\ acc' = Ev(self, "unlock", IL, "-", "-", "-")
                      ELSE /\ TRUE
                           /\ UNCHANGED << mx, acc >>
                /\ pc' = [pc EXCEPT ![self] = "ba_unmask"]
                /\ UNCHANGED << mem, sb, fsleep, wloc, crlist, ncrd, nh, 
                                started, hobj, cpulen, pcpu, tcrd, mycpu, slot, 
                                smask, bpsaved, nest, hsize, nw, nk, nrw, wk, 
                                reg, rnest, ncs, ingp, gpstuck, forked, 
                                inchild, gone, forker, bdone, flags, cnt, 
                                called, queued, bsnap, alive, uaf, errs, pci, 
                                opx, iv, pa, hd, tl, old, cur, nx, cbc, en, ec, 
                                wc, gd, fc, dc, newc, cidef, cn, bk, regs, kk, 
                                om, tgt, asz, cl, ord, gps, stack >>

ba_unmask(self) == /\ pc[self] = "ba_unmask"
                   /\ smask' = [smask EXCEPT ![self] = bpsaved]
                   /\ acc' = Ev(self, "sigmask", "-", "-", "-", IF bpsaved THEN "1" ELSE "0")
                   /\ pc' = [pc EXCEPT ![self] = Head(stack[self]).pc]
                   /\ stack' = [stack EXCEPT ![self] = Tail(stack[self])]
                   /\ UNCHANGED << mem, sb, mx, fsleep, wloc, crlist, ncrd, nh, 
                                   started, hobj, cpulen, pcpu, tcrd, mycpu, 
                                   slot, bpsaved, nest, hsize, nw, nk, nrw, wk, 
                                   reg, rnest, ncs, ingp, gpstuck, forked, 
                                   inchild, gone, forker, bdone, flags, cnt, 
                                   called, queued, bsnap, alive, uaf, errs, 
                                   pci, opx, iv, pa, hd, tl, old, cur, nx, cbc, 
                                   en, ec, wc, gd, fc, dc, newc, cidef, cn, bk, 
                                   regs, kk, om, tgt, asz, cl, ord, gps >>

bp_after_parent(self) == ba_url(self) \/ ba_ugl(self) \/ ba_uil(self)
                            \/ ba_unmask(self)

bc_url(self) == /\ pc[self] = "bc_url"
                /\ Drained(self)
                /\ IF "noprune" \notin Mut
                      THEN /\ reg' = (reg \cap {self})
                           /\ mem' = [l \in Locs |-> IF l \in RLocs /\ l # RctrOf(self) THEN 0 ELSE mem[l]]
                      ELSE /\ TRUE
                           /\ UNCHANGED << mem, reg >>
                /\ mx' = [mx EXCEPT ![RL] = "free"]
                /\ acc' = Ev(self, "unlock", RL, "-", "-", "-")
                /\ pc' = [pc EXCEPT ![self] = "bc_ugl"]
                /\ UNCHANGED << sb, fsleep, wloc, crlist, ncrd, nh, started, 
                                hobj, cpulen, pcpu, tcrd, mycpu, slot, smask, 
                                bpsaved, nest, hsize, nw, nk, nrw, wk, rnest, 
                                ncs, ingp, gpstuck, forked, inchild, gone, 
                                forker, bdone, flags, cnt, called, queued, 
                                bsnap, alive, uaf, errs, pci, opx, iv, pa, hd, 
                                tl, old, cur, nx, cbc, en, ec, wc, gd, fc, dc, 
                                newc, cidef, cn, bk, regs, kk, om, tgt, asz, 
                                cl, ord, gps, stack >>

bc_ugl(self) == /\ pc[self] = "bc_ugl"
                /\ Drained(self)
                /\ mx' = [mx EXCEPT ![GL] = "free"]
                /\ acc' = Ev(self, "unlock", GL, "-", "-", "-")
                /\ pc' = [pc EXCEPT ![self] = "bc_uil"]
                /\ UNCHANGED << mem, sb, fsleep, wloc, crlist, ncrd, nh, 
                                started, hobj, cpulen, pcpu, tcrd, mycpu, slot, 
                                smask, bpsaved, nest, hsize, nw, nk, nrw, wk, 
                                reg, rnest, ncs, ingp, gpstuck, forked, 
                                inchild, gone, forker, bdone, flags, cnt, 
                                called, queued, bsnap, alive, uaf, errs, pci, 
                                opx, iv, pa, hd, tl, old, cur, nx, cbc, en, ec, 
                                wc, gd, fc, dc, newc, cidef, cn, bk, regs, kk, 
                                om, tgt, asz, cl, ord, gps, stack >>

bc_uil(self) == /\ pc[self] = "bc_uil"
                /\ IF "noinitlock" \notin Mut
                      THEN /\ Drained(self)
                           /\ mx' = [mx EXCEPT ![IL] = "free"]
                           /\ acc' = Ev(self, "unlock", IL, "-", "-", "-")
                      ELSE /\ TRUE
                           /\ UNCHANGED << mx, acc >>
                /\ pc' = [pc EXCEPT ![self] = "bc_unmask"]
                /\ UNCHANGED << mem, sb, fsleep, wloc, crlist, ncrd, nh, 
                                started, hobj, cpulen, pcpu, tcrd, mycpu, slot, 
                                smask, bpsaved, nest, hsize, nw, nk, nrw, wk, 
                                reg, rnest, ncs, ingp, gpstuck, forked, 
                                inchild, gone, forker, bdone, flags, cnt, 
                                called, queued, bsnap, alive, uaf, errs, pci, 
                                opx, iv, pa, hd, tl, old, cur, nx, cbc, en, ec, 
                                wc, gd, fc, dc, newc, cidef, cn, bk, regs, kk, 
                                om, tgt, asz, cl, ord, gps, stack >>

bc_unmask(self) == /\ pc[self] = "bc_unmask"
                   /\ smask' = [smask EXCEPT ![self] = bpsaved]
                   /\ acc' = Ev(self, "sigmask", "-", "-", "-", IF bpsaved THEN "1" ELSE "0")
                   /\ pc' = [pc EXCEPT ![self] = Head(stack[self]).pc]
                   /\ stack' = [stack EXCEPT ![self] = Tail(stack[self])]
                   /\ UNCHANGED << mem, sb, mx, fsleep, wloc, crlist, ncrd, nh, 
                                   started, hobj, cpulen, pcpu, tcrd, mycpu, 
                                   slot, bpsaved, nest, hsize, nw, nk, nrw, wk, 
                                   reg, rnest, ncs, ingp, gpstuck, forked, 
                                   inchild, gone, forker, bdone, flags, cnt, 
                                   called, queued, bsnap, alive, uaf, errs, 
                                   pci, opx, iv, pa, hd, tl, old, cur, nx, cbc, 
                                   en, ec, wc, gd, fc, dc, newc, cidef, cn, bk, 
                                   regs, kk, om, tgt, asz, cl, ord, gps >>

bp_after_child(self) == bc_url(self) \/ bc_ugl(self) \/ bc_uil(self)
                           \/ bc_unmask(self)

lg_ldt(self) == /\ pc[self] = "lg_ldt"
                /\ iv' = [iv EXCEPT ![self] = Rd(self, "ht.target")]
                /\ uaf' = (uaf \/ Dead("ht.target"))
                /\ acc' = Ev(self, "ld", "ht.target", "-", "-", SV("ht.target", Rd(self, "ht.target")))
                /\ IF iv'[self] >= tgt[self]
                      THEN /\ pc' = [pc EXCEPT ![self] = Head(stack[self]).pc]
                           /\ stack' = [stack EXCEPT ![self] = Tail(stack[self])]
                      ELSE /\ pc' = [pc EXCEPT ![self] = "lg_cas"]
                           /\ stack' = stack
                /\ UNCHANGED << mem, sb, mx, fsleep, wloc, crlist, ncrd, nh, 
                                started, hobj, cpulen, pcpu, tcrd, mycpu, slot, 
                                smask, bpsaved, nest, hsize, nw, nk, nrw, wk, 
                                reg, rnest, ncs, ingp, gpstuck, forked, 
                                inchild, gone, forker, bdone, flags, cnt, 
                                called, queued, bsnap, alive, errs, pci, opx, 
                                pa, hd, tl, old, cur, nx, cbc, en, ec, wc, gd, 
                                fc, dc, newc, cidef, cn, bk, regs, kk, om, tgt, 
                                asz, cl, ord, gps >>

lg_cas(self) == /\ pc[self] = "lg_cas"
                /\ Drained(self)
                /\ acc' = Ev(self, "cas", "ht.target", ToString(iv[self]), ToString(tgt[self]), ToString(mem["ht.target"]))
                /\ IF mem["ht.target"] = iv[self]
                      THEN /\ mem' = [mem EXCEPT !["ht.target"] = tgt[self]]
                           /\ pc' = [pc EXCEPT ![self] = "lg_ldi"]
                           /\ iv' = iv
                      ELSE /\ iv' = [iv EXCEPT ![self] = mem["ht.target"]]
                           /\ pc' = [pc EXCEPT ![self] = "lg_chk"]
                           /\ mem' = mem
                /\ UNCHANGED << sb, mx, fsleep, wloc, crlist, ncrd, nh, 
                                started, hobj, cpulen, pcpu, tcrd, mycpu, slot, 
                                smask, bpsaved, nest, hsize, nw, nk, nrw, wk, 
                                reg, rnest, ncs, ingp, gpstuck, forked, 
                                inchild, gone, forker, bdone, flags, cnt, 
                                called, queued, bsnap, alive, uaf, errs, pci, 
                                opx, pa, hd, tl, old, cur, nx, cbc, en, ec, wc, 
                                gd, fc, dc, newc, cidef, cn, bk, regs, kk, om, 
                                tgt, asz, cl, ord, gps, stack >>

lg_ldi(self) == /\ pc[self] = "lg_ldi"
                /\ iv' = [iv EXCEPT ![self] = Rd(self, "ht.init")]
                /\ uaf' = (uaf \/ Dead("ht.init"))
                /\ acc' = Ev(self, "ld", "ht.init", "-", "-", SV("ht.init", Rd(self, "ht.init")))
                /\ IF iv'[self] # 0
                      THEN /\ pc' = [pc EXCEPT ![self] = Head(stack[self]).pc]
                           /\ stack' = [stack EXCEPT ![self] = Tail(stack[self])]
                      ELSE /\ pc' = [pc EXCEPT ![self] = "lg_alloc"]
                           /\ stack' = stack
                /\ UNCHANGED << mem, sb, mx, fsleep, wloc, crlist, ncrd, nh, 
                                started, hobj, cpulen, pcpu, tcrd, mycpu, slot, 
                                smask, bpsaved, nest, hsize, nw, nk, nrw, wk, 
                                reg, rnest, ncs, ingp, gpstuck, forked, 
                                inchild, gone, forker, bdone, flags, cnt, 
                                called, queued, bsnap, alive, errs, pci, opx, 
                                pa, hd, tl, old, cur, nx, cbc, en, ec, wc, gd, 
                                fc, dc, newc, cidef, cn, bk, regs, kk, om, tgt, 
                                asz, cl, ord, gps >>

lg_alloc(self) == /\ pc[self] = "lg_alloc"
                  /\ en' = [en EXCEPT ![self] = RWName(nrw + 1)]
                  /\ nrw' = nrw + 1
                  /\ ec' = [ec EXCEPT ![self] = WQ]
                  /\ acc' = Ev(self, "walloc", RWName(nrw'), "-", "-", "-")
                  /\ stack' = [stack EXCEPT ![self] = << [ procedure |->  "enqueue",
                                                           pc        |->  "lg_sti" ] >>
                                                       \o stack[self]]
                  /\ pc' = [pc EXCEPT ![self] = "e_mb"]
                  /\ UNCHANGED << mem, sb, mx, fsleep, wloc, crlist, ncrd, nh, 
                                  started, hobj, cpulen, pcpu, tcrd, mycpu, 
                                  slot, smask, bpsaved, nest, hsize, nw, nk, 
                                  wk, reg, rnest, ncs, ingp, gpstuck, forked, 
                                  inchild, gone, forker, bdone, flags, cnt, 
                                  called, queued, bsnap, alive, uaf, errs, pci, 
                                  opx, iv, pa, hd, tl, old, cur, nx, cbc, wc, 
                                  gd, fc, dc, newc, cidef, cn, bk, regs, kk, 
                                  om, tgt, asz, cl, ord, gps >>

lg_sti(self) == /\ pc[self] = "lg_sti"
                /\ IF TSO
                      THEN /\ Len(sb[self]) < SBMax
                           /\ sb' = [sb EXCEPT ![self] = Append(sb[self], <<"ht.init", 1>>)]
                           /\ mem' = mem
                      ELSE /\ mem' = [mem EXCEPT !["ht.init"] = 1]
                           /\ sb' = sb
                /\ uaf' = (uaf \/ Dead("ht.init"))
                /\ acc' = Ev(self, "st", "ht.init", SV("ht.init", 1), "-", "-")
                /\ pc' = [pc EXCEPT ![self] = Head(stack[self]).pc]
                /\ stack' = [stack EXCEPT ![self] = Tail(stack[self])]
                /\ UNCHANGED << mx, fsleep, wloc, crlist, ncrd, nh, started, 
                                hobj, cpulen, pcpu, tcrd, mycpu, slot, smask, 
                                bpsaved, nest, hsize, nw, nk, nrw, wk, reg, 
                                rnest, ncs, ingp, gpstuck, forked, inchild, 
                                gone, forker, bdone, flags, cnt, called, 
                                queued, bsnap, alive, errs, pci, opx, iv, pa, 
                                hd, tl, old, cur, nx, cbc, en, ec, wc, gd, fc, 
                                dc, newc, cidef, cn, bk, regs, kk, om, tgt, 
                                asz, cl, ord, gps >>

lg_chk(self) == /\ pc[self] = "lg_chk"
                /\ IF iv[self] >= tgt[self]
                      THEN /\ pc' = [pc EXCEPT ![self] = Head(stack[self]).pc]
                           /\ stack' = [stack EXCEPT ![self] = Tail(stack[self])]
                      ELSE /\ pc' = [pc EXCEPT ![self] = "lg_cas"]
                           /\ stack' = stack
                /\ UNCHANGED << mem, sb, mx, acc, fsleep, wloc, crlist, ncrd, 
                                nh, started, hobj, cpulen, pcpu, tcrd, mycpu, 
                                slot, smask, bpsaved, nest, hsize, nw, nk, nrw, 
                                wk, reg, rnest, ncs, ingp, gpstuck, forked, 
                                inchild, gone, forker, bdone, flags, cnt, 
                                called, queued, bsnap, alive, uaf, errs, pci, 
                                opx, iv, pa, hd, tl, old, cur, nx, cbc, en, ec, 
                                wc, gd, fc, dc, newc, cidef, cn, bk, regs, kk, 
                                om, tgt, asz, cl, ord, gps >>

lazy_grow(self) == lg_ldt(self) \/ lg_cas(self) \/ lg_ldi(self)
                      \/ lg_alloc(self) \/ lg_sti(self) \/ lg_chk(self)

rz_st1(self) == /\ pc[self] = "rz_st1"
                /\ IF TSO
                      THEN /\ Len(sb[self]) < SBMax
                           /\ sb' = [sb EXCEPT ![self] = Append(sb[self], <<"ht.init", 1>>)]
                           /\ mem' = mem
                      ELSE /\ mem' = [mem EXCEPT !["ht.init"] = 1]
                           /\ sb' = sb
                /\ uaf' = (uaf \/ Dead("ht.init"))
                /\ acc' = Ev(self, "st", "ht.init", SV("ht.init", 1), "-", "-")
                /\ pc' = [pc EXCEPT ![self] = "rz_ldt"]
                /\ UNCHANGED << mx, fsleep, wloc, crlist, ncrd, nh, started, 
                                hobj, cpulen, pcpu, tcrd, mycpu, slot, smask, 
                                bpsaved, nest, hsize, nw, nk, nrw, wk, reg, 
                                rnest, ncs, ingp, gpstuck, forked, inchild, 
                                gone, forker, bdone, flags, cnt, called, 
                                queued, bsnap, alive, errs, pci, opx, iv, pa, 
                                hd, tl, old, cur, nx, cbc, en, ec, wc, gd, fc, 
                                dc, newc, cidef, cn, bk, regs, kk, om, tgt, 
                                asz, cl, ord, gps, stack >>

rz_ldt(self) == /\ pc[self] = "rz_ldt"
                /\ tgt' = [tgt EXCEPT ![self] = Rd(self, "ht.target")]
                /\ uaf' = (uaf \/ Dead("ht.target"))
                /\ acc' = Ev(self, "ld", "ht.target", "-", "-", SV("ht.target", Rd(self, "ht.target")))
                /\ IF hsize >= tgt'[self]
                      THEN /\ pc' = [pc EXCEPT ![self] = "rz_st0"]
                           /\ ord' = ord
                      ELSE /\ ord' = [ord EXCEPT ![self] = Order(hsize) + 1]
                           /\ pc' = [pc EXCEPT ![self] = "rz_chk"]
                /\ UNCHANGED << mem, sb, mx, fsleep, wloc, crlist, ncrd, nh, 
                                started, hobj, cpulen, pcpu, tcrd, mycpu, slot, 
                                smask, bpsaved, nest, hsize, nw, nk, nrw, wk, 
                                reg, rnest, ncs, ingp, gpstuck, forked, 
                                inchild, gone, forker, bdone, flags, cnt, 
                                called, queued, bsnap, alive, errs, pci, opx, 
                                iv, pa, hd, tl, old, cur, nx, cbc, en, ec, wc, 
                                gd, fc, dc, newc, cidef, cn, bk, regs, kk, om, 
                                asz, cl, gps, stack >>

rz_chk(self) == /\ pc[self] = "rz_chk"
                /\ iv' = [iv EXCEPT ![self] = Rd(self, "ht.target")]
                /\ uaf' = (uaf \/ Dead("ht.target"))
                /\ acc' = Ev(self, "ld", "ht.target", "-", "-", SV("ht.target", Rd(self, "ht.target")))
                /\ IF iv'[self] < Pow2(ord[self])
                      THEN /\ pc' = [pc EXCEPT ![self] = "rz_st0"]
                      ELSE /\ pc' = [pc EXCEPT ![self] = "rz_pop"]
                /\ UNCHANGED << mem, sb, mx, fsleep, wloc, crlist, ncrd, nh, 
                                started, hobj, cpulen, pcpu, tcrd, mycpu, slot, 
                                smask, bpsaved, nest, hsize, nw, nk, nrw, wk, 
                                reg, rnest, ncs, ingp, gpstuck, forked, 
                                inchild, gone, forker, bdone, flags, cnt, 
                                called, queued, bsnap, alive, errs, pci, opx, 
                                pa, hd, tl, old, cur, nx, cbc, en, ec, wc, gd, 
                                fc, dc, newc, cidef, cn, bk, regs, kk, om, tgt, 
                                asz, cl, ord, gps, stack >>

rz_pop(self) == /\ pc[self] = "rz_pop"
                /\ stack' = [stack EXCEPT ![self] = << [ procedure |->  "rlock",
                                                         pc        |->  "rz_pop2" ] >>
                                                     \o stack[self]]
                /\ pc' = [pc EXCEPT ![self] = "rl_st"]
                /\ UNCHANGED << mem, sb, mx, acc, fsleep, wloc, crlist, ncrd, 
                                nh, started, hobj, cpulen, pcpu, tcrd, mycpu, 
                                slot, smask, bpsaved, nest, hsize, nw, nk, nrw, 
                                wk, reg, rnest, ncs, ingp, gpstuck, forked, 
                                inchild, gone, forker, bdone, flags, cnt, 
                                called, queued, bsnap, alive, uaf, errs, pci, 
                                opx, iv, pa, hd, tl, old, cur, nx, cbc, en, ec, 
                                wc, gd, fc, dc, newc, cidef, cn, bk, regs, kk, 
                                om, tgt, asz, cl, ord, gps >>

rz_pop2(self) == /\ pc[self] = "rz_pop2"
                 /\ stack' = [stack EXCEPT ![self] = << [ procedure |->  "runlock",
                                                          pc        |->  "rz_size" ] >>
                                                      \o stack[self]]
                 /\ pc' = [pc EXCEPT ![self] = "ru_mb"]
                 /\ UNCHANGED << mem, sb, mx, acc, fsleep, wloc, crlist, ncrd, 
                                 nh, started, hobj, cpulen, pcpu, tcrd, mycpu, 
                                 slot, smask, bpsaved, nest, hsize, nw, nk, 
                                 nrw, wk, reg, rnest, ncs, ingp, gpstuck, 
                                 forked, inchild, gone, forker, bdone, flags, 
                                 cnt, called, queued, bsnap, alive, uaf, errs, 
                                 pci, opx, iv, pa, hd, tl, old, cur, nx, cbc, 
                                 en, ec, wc, gd, fc, dc, newc, cidef, cn, bk, 
                                 regs, kk, om, tgt, asz, cl, ord, gps >>

rz_size(self) == /\ pc[self] = "rz_size"
                 /\ IF TSO
                       THEN /\ Len(sb[self]) < SBMax
                            /\ sb' = [sb EXCEPT ![self] = Append(sb[self], <<"ht.size", (Pow2(ord[self]))>>)]
                            /\ mem' = mem
                       ELSE /\ mem' = [mem EXCEPT !["ht.size"] = Pow2(ord[self])]
                            /\ sb' = sb
                 /\ uaf' = (uaf \/ Dead("ht.size"))
                 /\ acc' = Ev(self, "st", "ht.size", SV("ht.size", (Pow2(ord[self]))), "-", "-")
                 /\ hsize' = Pow2(ord[self])
                 /\ IF ord[self] < Order(tgt[self])
                       THEN /\ ord' = [ord EXCEPT ![self] = ord[self] + 1]
                            /\ pc' = [pc EXCEPT ![self] = "rz_chk"]
                       ELSE /\ pc' = [pc EXCEPT ![self] = "rz_st0"]
                            /\ ord' = ord
                 /\ UNCHANGED << mx, fsleep, wloc, crlist, ncrd, nh, started, 
                                 hobj, cpulen, pcpu, tcrd, mycpu, slot, smask, 
                                 bpsaved, nest, nw, nk, nrw, wk, reg, rnest, 
                                 ncs, ingp, gpstuck, forked, inchild, gone, 
                                 forker, bdone, flags, cnt, called, queued, 
                                 bsnap, alive, errs, pci, opx, iv, pa, hd, tl, 
                                 old, cur, nx, cbc, en, ec, wc, gd, fc, dc, 
                                 newc, cidef, cn, bk, regs, kk, om, tgt, asz, 
                                 cl, gps, stack >>

rz_st0(self) == /\ pc[self] = "rz_st0"
                /\ IF TSO
                      THEN /\ Len(sb[self]) < SBMax
                           /\ sb' = [sb EXCEPT ![self] = Append(sb[self], <<"ht.init", 0>>)]
                           /\ mem' = mem
                      ELSE /\ mem' = [mem EXCEPT !["ht.init"] = 0]
                           /\ sb' = sb
                /\ uaf' = (uaf \/ Dead("ht.init"))
                /\ acc' = Ev(self, "st", "ht.init", SV("ht.init", 0), "-", "-")
                /\ pc' = [pc EXCEPT ![self] = "rz_mb"]
                /\ UNCHANGED << mx, fsleep, wloc, crlist, ncrd, nh, started, 
                                hobj, cpulen, pcpu, tcrd, mycpu, slot, smask, 
                                bpsaved, nest, hsize, nw, nk, nrw, wk, reg, 
                                rnest, ncs, ingp, gpstuck, forked, inchild, 
                                gone, forker, bdone, flags, cnt, called, 
                                queued, bsnap, alive, errs, pci, opx, iv, pa, 
                                hd, tl, old, cur, nx, cbc, en, ec, wc, gd, fc, 
                                dc, newc, cidef, cn, bk, regs, kk, om, tgt, 
                                asz, cl, ord, gps, stack >>

rz_mb(self) == /\ pc[self] = "rz_mb"
               /\ Drained(self)
               /\ pc' = [pc EXCEPT ![self] = "rz_ldt2"]
               /\ UNCHANGED << mem, sb, mx, acc, fsleep, wloc, crlist, ncrd, 
                               nh, started, hobj, cpulen, pcpu, tcrd, mycpu, 
                               slot, smask, bpsaved, nest, hsize, nw, nk, nrw, 
                               wk, reg, rnest, ncs, ingp, gpstuck, forked, 
                               inchild, gone, forker, bdone, flags, cnt, 
                               called, queued, bsnap, alive, uaf, errs, pci, 
                               opx, iv, pa, hd, tl, old, cur, nx, cbc, en, ec, 
                               wc, gd, fc, dc, newc, cidef, cn, bk, regs, kk, 
                               om, tgt, asz, cl, ord, gps, stack >>

rz_ldt2(self) == /\ pc[self] = "rz_ldt2"
                 /\ iv' = [iv EXCEPT ![self] = Rd(self, "ht.target")]
                 /\ uaf' = (uaf \/ Dead("ht.target"))
                 /\ acc' = Ev(self, "ld", "ht.target", "-", "-", SV("ht.target", Rd(self, "ht.target")))
                 /\ IF hsize # iv'[self]
                       THEN /\ pc' = [pc EXCEPT ![self] = "rz_st1"]
                       ELSE /\ pc' = [pc EXCEPT ![self] = "rz_ret"]
                 /\ UNCHANGED << mem, sb, mx, fsleep, wloc, crlist, ncrd, nh, 
                                 started, hobj, cpulen, pcpu, tcrd, mycpu, 
                                 slot, smask, bpsaved, nest, hsize, nw, nk, 
                                 nrw, wk, reg, rnest, ncs, ingp, gpstuck, 
                                 forked, inchild, gone, forker, bdone, flags, 
                                 cnt, called, queued, bsnap, alive, errs, pci, 
                                 opx, pa, hd, tl, old, cur, nx, cbc, en, ec, 
                                 wc, gd, fc, dc, newc, cidef, cn, bk, regs, kk, 
                                 om, tgt, asz, cl, ord, gps, stack >>

rz_ret(self) == /\ pc[self] = "rz_ret"
                /\ pc' = [pc EXCEPT ![self] = Head(stack[self]).pc]
                /\ stack' = [stack EXCEPT ![self] = Tail(stack[self])]
                /\ UNCHANGED << mem, sb, mx, acc, fsleep, wloc, crlist, ncrd, 
                                nh, started, hobj, cpulen, pcpu, tcrd, mycpu, 
                                slot, smask, bpsaved, nest, hsize, nw, nk, nrw, 
                                wk, reg, rnest, ncs, ingp, gpstuck, forked, 
                                inchild, gone, forker, bdone, flags, cnt, 
                                called, queued, bsnap, alive, uaf, errs, pci, 
                                opx, iv, pa, hd, tl, old, cur, nx, cbc, en, ec, 
                                wc, gd, fc, dc, newc, cidef, cn, bk, regs, kk, 
                                om, tgt, asz, cl, ord, gps >>

do_resize(self) == rz_st1(self) \/ rz_ldt(self) \/ rz_chk(self)
                      \/ rz_pop(self) \/ rz_pop2(self) \/ rz_size(self)
                      \/ rz_st0(self) \/ rz_mb(self) \/ rz_ldt2(self)
                      \/ rz_ret(self)

fl(self) == /\ pc[self] = "fl"
            /\ sb[FlOf[self]] # <<>>
            /\ /\ acc' = IF Tracing THEN [k |-> acc.k + 1, t |-> FlOf[self], op |-> "flush", var |-> Head(sb[FlOf[self]])[1],
                                        a |-> IF Head(sb[FlOf[self]])[1] \in RLocs THEN "-" ELSE SV(Head(sb[FlOf[self]])[1], Head(sb[FlOf[self]])[2]),
                                        b |-> "-", r |-> "-"] ELSE acc
               /\ mem' = [mem EXCEPT ![Head(sb[FlOf[self]])[1]] = Head(sb[FlOf[self]])[2]]
               /\ sb' = [sb EXCEPT ![FlOf[self]] = Tail(sb[FlOf[self]])]
            /\ pc' = [pc EXCEPT ![self] = "fl"]
            /\ UNCHANGED << mx, fsleep, wloc, crlist, ncrd, nh, started, hobj, 
                            cpulen, pcpu, tcrd, mycpu, slot, smask, bpsaved, 
                            nest, hsize, nw, nk, nrw, wk, reg, rnest, ncs, 
                            ingp, gpstuck, forked, inchild, gone, forker, 
                            bdone, flags, cnt, called, queued, bsnap, alive, 
                            uaf, errs, pci, opx, iv, pa, hd, tl, old, cur, nx, 
                            cbc, en, ec, wc, gd, fc, dc, newc, cidef, cn, bk, 
                            regs, kk, om, tgt, asz, cl, ord, gps, stack >>

flusher(self) == fl(self)

h_idle(self) == /\ pc[self] = "h_idle"
                /\ started[self]
                /\ IF hobj[self] = WQ
                      THEN /\ pc' = [pc EXCEPT ![self] = "q_flags"]
                      ELSE /\ pc' = [pc EXCEPT ![self] = "h_flags"]
                /\ UNCHANGED << mem, sb, mx, acc, fsleep, wloc, crlist, ncrd, 
                                nh, started, hobj, cpulen, pcpu, tcrd, mycpu, 
                                slot, smask, bpsaved, nest, hsize, nw, nk, nrw, 
                                wk, reg, rnest, ncs, ingp, gpstuck, forked, 
                                inchild, gone, forker, bdone, flags, cnt, 
                                called, queued, bsnap, alive, uaf, errs, pci, 
                                opx, iv, pa, hd, tl, old, cur, nx, cbc, en, ec, 
                                wc, gd, fc, dc, newc, cidef, cn, bk, regs, kk, 
                                om, tgt, asz, cl, ord, gps, stack >>

h_flags(self) == /\ pc[self] = "h_flags"
                 /\ iv' = [iv EXCEPT ![self] = Rd(self, (FlagsOf(hobj[self])))]
                 /\ uaf' = (uaf \/ Dead((FlagsOf(hobj[self]))))
                 /\ acc' = Ev(self, "ld", (FlagsOf(hobj[self])), "-", "-", SV((FlagsOf(hobj[self])), Rd(self, (FlagsOf(hobj[self])))))
                 /\ pc' = [pc EXCEPT ![self] = "h_reg"]
                 /\ UNCHANGED << mem, sb, mx, fsleep, wloc, crlist, ncrd, nh, 
                                 started, hobj, cpulen, pcpu, tcrd, mycpu, 
                                 slot, smask, bpsaved, nest, hsize, nw, nk, 
                                 nrw, wk, reg, rnest, ncs, ingp, gpstuck, 
                                 forked, inchild, gone, forker, bdone, flags, 
                                 cnt, called, queued, bsnap, alive, errs, pci, 
                                 opx, pa, hd, tl, old, cur, nx, cbc, en, ec, 
                                 wc, gd, fc, dc, newc, cidef, cn, bk, regs, kk, 
                                 om, tgt, asz, cl, ord, gps, stack >>

h_reg(self) == /\ pc[self] = "h_reg"
               /\ IF Flavor = "bp"
                     THEN /\ stack' = [stack EXCEPT ![self] = << [ procedure |->  "bp_register",
                                                                   pc        |->  "h_dec0" ] >>
                                                               \o stack[self]]
                          /\ pc' = [pc EXCEPT ![self] = "br_mask"]
                     ELSE /\ stack' = [stack EXCEPT ![self] = << [ procedure |->  "register",
                                                                   pc        |->  "h_dec0" ] >>
                                                               \o stack[self]]
                          /\ pc' = [pc EXCEPT ![self] = "rg_lock"]
               /\ UNCHANGED << mem, sb, mx, acc, fsleep, wloc, crlist, ncrd, 
                               nh, started, hobj, cpulen, pcpu, tcrd, mycpu, 
                               slot, smask, bpsaved, nest, hsize, nw, nk, nrw, 
                               wk, reg, rnest, ncs, ingp, gpstuck, forked, 
                               inchild, gone, forker, bdone, flags, cnt, 
                               called, queued, bsnap, alive, uaf, errs, pci, 
                               opx, iv, pa, hd, tl, old, cur, nx, cbc, en, ec, 
                               wc, gd, fc, dc, newc, cidef, cn, bk, regs, kk, 
                               om, tgt, asz, cl, ord, gps >>

h_dec0(self) == /\ pc[self] = "h_dec0"
                /\ tcrd' = [tcrd EXCEPT ![self] = hobj[self]]
                /\ Drained(self)
                /\ acc' = Ev(self, "dec", (FutexOf(hobj[self])), "-", "-", ToString((Dec(mem[FutexOf(hobj[self])]))))
                /\ uaf' = (uaf \/ Dead((FutexOf(hobj[self]))))
                /\ mem' = [mem EXCEPT ![(FutexOf(hobj[self]))] = Dec(mem[FutexOf(hobj[self])])]
                /\ pc' = [pc EXCEPT ![self] = "h_mb0"]
                /\ UNCHANGED << sb, mx, fsleep, wloc, crlist, ncrd, nh, 
                                started, hobj, cpulen, pcpu, mycpu, slot, 
                                smask, bpsaved, nest, hsize, nw, nk, nrw, wk, 
                                reg, rnest, ncs, ingp, gpstuck, forked, 
                                inchild, gone, forker, bdone, flags, cnt, 
                                called, queued, bsnap, alive, errs, pci, opx, 
                                iv, pa, hd, tl, old, cur, nx, cbc, en, ec, wc, 
                                gd, fc, dc, newc, cidef, cn, bk, regs, kk, om, 
                                tgt, asz, cl, ord, gps, stack >>

h_mb0(self) == /\ pc[self] = "h_mb0"
               /\ Drained(self)
               /\ pc' = [pc EXCEPT ![self] = "h_top"]
               /\ UNCHANGED << mem, sb, mx, acc, fsleep, wloc, crlist, ncrd, 
                               nh, started, hobj, cpulen, pcpu, tcrd, mycpu, 
                               slot, smask, bpsaved, nest, hsize, nw, nk, nrw, 
                               wk, reg, rnest, ncs, ingp, gpstuck, forked, 
                               inchild, gone, forker, bdone, flags, cnt, 
                               called, queued, bsnap, alive, uaf, errs, pci, 
                               opx, iv, pa, hd, tl, old, cur, nx, cbc, en, ec, 
                               wc, gd, fc, dc, newc, cidef, cn, bk, regs, kk, 
                               om, tgt, asz, cl, ord, gps, stack >>

h_top(self) == /\ pc[self] = "h_top"
               /\ iv' = [iv EXCEPT ![self] = Rd(self, (FlagsOf(hobj[self])))]
               /\ uaf' = (uaf \/ Dead((FlagsOf(hobj[self]))))
               /\ acc' = Ev(self, "ld", (FlagsOf(hobj[self])), "-", "-", SV((FlagsOf(hobj[self])), Rd(self, (FlagsOf(hobj[self])))))
               /\ IF ~Has(iv'[self], PAUSE)
                     THEN /\ pc' = [pc EXCEPT ![self] = "s_e1"]
                     ELSE /\ pc' = [pc EXCEPT ![self] = "p_unreg"]
               /\ UNCHANGED << mem, sb, mx, fsleep, wloc, crlist, ncrd, nh, 
                               started, hobj, cpulen, pcpu, tcrd, mycpu, slot, 
                               smask, bpsaved, nest, hsize, nw, nk, nrw, wk, 
                               reg, rnest, ncs, ingp, gpstuck, forked, inchild, 
                               gone, forker, bdone, flags, cnt, called, queued, 
                               bsnap, alive, errs, pci, opx, pa, hd, tl, old, 
                               cur, nx, cbc, en, ec, wc, gd, fc, dc, newc, 
                               cidef, cn, bk, regs, kk, om, tgt, asz, cl, ord, 
                               gps, stack >>

p_unreg(self) == /\ pc[self] = "p_unreg"
                 /\ IF Flavor # "bp"
                       THEN /\ stack' = [stack EXCEPT ![self] = << [ procedure |->  "unregister",
                                                                     pc        |->  "p_or" ] >>
                                                                 \o stack[self]]
                            /\ pc' = [pc EXCEPT ![self] = "ug_lock"]
                       ELSE /\ pc' = [pc EXCEPT ![self] = "p_or"]
                            /\ stack' = stack
                 /\ UNCHANGED << mem, sb, mx, acc, fsleep, wloc, crlist, ncrd, 
                                 nh, started, hobj, cpulen, pcpu, tcrd, mycpu, 
                                 slot, smask, bpsaved, nest, hsize, nw, nk, 
                                 nrw, wk, reg, rnest, ncs, ingp, gpstuck, 
                                 forked, inchild, gone, forker, bdone, flags, 
                                 cnt, called, queued, bsnap, alive, uaf, errs, 
                                 pci, opx, iv, pa, hd, tl, old, cur, nx, cbc, 
                                 en, ec, wc, gd, fc, dc, newc, cidef, cn, bk, 
                                 regs, kk, om, tgt, asz, cl, ord, gps >>

p_or(self) == /\ pc[self] = "p_or"
              /\ Drained(self)
              /\ acc' = Ev(self, "or", (FlagsOf(hobj[self])), (ToString(PAUSED)), "-", ToString((SetB(mem[FlagsOf(hobj[self])], PAUSED))))
              /\ uaf' = (uaf \/ Dead((FlagsOf(hobj[self]))))
              /\ mem' = [mem EXCEPT ![(FlagsOf(hobj[self]))] = SetB(mem[FlagsOf(hobj[self])], PAUSED)]
              /\ pc' = [pc EXCEPT ![self] = "p_wait"]
              /\ UNCHANGED << sb, mx, fsleep, wloc, crlist, ncrd, nh, started, 
                              hobj, cpulen, pcpu, tcrd, mycpu, slot, smask, 
                              bpsaved, nest, hsize, nw, nk, nrw, wk, reg, 
                              rnest, ncs, ingp, gpstuck, forked, inchild, gone, 
                              forker, bdone, flags, cnt, called, queued, bsnap, 
                              alive, errs, pci, opx, iv, pa, hd, tl, old, cur, 
                              nx, cbc, en, ec, wc, gd, fc, dc, newc, cidef, cn, 
                              bk, regs, kk, om, tgt, asz, cl, ord, gps, stack >>

p_wait(self) == /\ pc[self] = "p_wait"
                /\ iv' = [iv EXCEPT ![self] = Rd(self, (FlagsOf(hobj[self])))]
                /\ uaf' = (uaf \/ Dead((FlagsOf(hobj[self]))))
                /\ acc' = Ev(self, "ld", (FlagsOf(hobj[self])), "-", "-", SV((FlagsOf(hobj[self])), Rd(self, (FlagsOf(hobj[self])))))
                /\ IF Has(iv'[self], PAUSE)
                      THEN /\ pc' = [pc EXCEPT ![self] = "p_wait"]
                      ELSE /\ pc' = [pc EXCEPT ![self] = "p_and"]
                /\ UNCHANGED << mem, sb, mx, fsleep, wloc, crlist, ncrd, nh, 
                                started, hobj, cpulen, pcpu, tcrd, mycpu, slot, 
                                smask, bpsaved, nest, hsize, nw, nk, nrw, wk, 
                                reg, rnest, ncs, ingp, gpstuck, forked, 
                                inchild, gone, forker, bdone, flags, cnt, 
                                called, queued, bsnap, alive, errs, pci, opx, 
                                pa, hd, tl, old, cur, nx, cbc, en, ec, wc, gd, 
                                fc, dc, newc, cidef, cn, bk, regs, kk, om, tgt, 
                                asz, cl, ord, gps, stack >>

p_and(self) == /\ pc[self] = "p_and"
               /\ Drained(self)
               /\ acc' = Ev(self, "and", (FlagsOf(hobj[self])), (ToString(-(PAUSED + 1))), "-", ToString((ClrB(mem[FlagsOf(hobj[self])], PAUSED))))
               /\ uaf' = (uaf \/ Dead((FlagsOf(hobj[self]))))
               /\ mem' = [mem EXCEPT ![(FlagsOf(hobj[self]))] = ClrB(mem[FlagsOf(hobj[self])], PAUSED)]
               /\ pc' = [pc EXCEPT ![self] = "p_reg"]
               /\ UNCHANGED << sb, mx, fsleep, wloc, crlist, ncrd, nh, started, 
                               hobj, cpulen, pcpu, tcrd, mycpu, slot, smask, 
                               bpsaved, nest, hsize, nw, nk, nrw, wk, reg, 
                               rnest, ncs, ingp, gpstuck, forked, inchild, 
                               gone, forker, bdone, flags, cnt, called, queued, 
                               bsnap, alive, errs, pci, opx, iv, pa, hd, tl, 
                               old, cur, nx, cbc, en, ec, wc, gd, fc, dc, newc, 
                               cidef, cn, bk, regs, kk, om, tgt, asz, cl, ord, 
                               gps, stack >>

p_reg(self) == /\ pc[self] = "p_reg"
               /\ IF Flavor # "bp" /\ self \notin reg
                     THEN /\ stack' = [stack EXCEPT ![self] = << [ procedure |->  "register",
                                                                   pc        |->  "s_e1" ] >>
                                                               \o stack[self]]
                          /\ pc' = [pc EXCEPT ![self] = "rg_lock"]
                     ELSE /\ pc' = [pc EXCEPT ![self] = "s_e1"]
                          /\ stack' = stack
               /\ UNCHANGED << mem, sb, mx, acc, fsleep, wloc, crlist, ncrd, 
                               nh, started, hobj, cpulen, pcpu, tcrd, mycpu, 
                               slot, smask, bpsaved, nest, hsize, nw, nk, nrw, 
                               wk, reg, rnest, ncs, ingp, gpstuck, forked, 
                               inchild, gone, forker, bdone, flags, cnt, 
                               called, queued, bsnap, alive, uaf, errs, pci, 
                               opx, iv, pa, hd, tl, old, cur, nx, cbc, en, ec, 
                               wc, gd, fc, dc, newc, cidef, cn, bk, regs, kk, 
                               om, tgt, asz, cl, ord, gps >>

s_e1(self) == /\ pc[self] = "s_e1"
              /\ pa' = [pa EXCEPT ![self] = Rd(self, (NextOf(Hd(hobj[self]))))]
              /\ uaf' = (uaf \/ Dead((NextOf(Hd(hobj[self])))))
              /\ acc' = Ev(self, "ld", (NextOf(Hd(hobj[self]))), "-", "-", SV((NextOf(Hd(hobj[self]))), Rd(self, (NextOf(Hd(hobj[self]))))))
              /\ IF pa'[self] # NULL
                    THEN /\ pc' = [pc EXCEPT ![self] = "s_xh"]
                    ELSE /\ pc' = [pc EXCEPT ![self] = "s_e2"]
              /\ UNCHANGED << mem, sb, mx, fsleep, wloc, crlist, ncrd, nh, 
                              started, hobj, cpulen, pcpu, tcrd, mycpu, slot, 
                              smask, bpsaved, nest, hsize, nw, nk, nrw, wk, 
                              reg, rnest, ncs, ingp, gpstuck, forked, inchild, 
                              gone, forker, bdone, flags, cnt, called, queued, 
                              bsnap, alive, errs, pci, opx, iv, hd, tl, old, 
                              cur, nx, cbc, en, ec, wc, gd, fc, dc, newc, 
                              cidef, cn, bk, regs, kk, om, tgt, asz, cl, ord, 
                              gps, stack >>

s_e2(self) == /\ pc[self] = "s_e2"
              /\ pa' = [pa EXCEPT ![self] = Rd(self, (TailOf(hobj[self])))]
              /\ uaf' = (uaf \/ Dead((TailOf(hobj[self]))))
              /\ acc' = Ev(self, "ld", (TailOf(hobj[self])), "-", "-", SV((TailOf(hobj[self])), Rd(self, (TailOf(hobj[self])))))
              /\ IF pa'[self] = Hd(hobj[self])
                    THEN /\ pc' = [pc EXCEPT ![self] = "h_stop"]
                    ELSE /\ pc' = [pc EXCEPT ![self] = "s_xh"]
              /\ UNCHANGED << mem, sb, mx, fsleep, wloc, crlist, ncrd, nh, 
                              started, hobj, cpulen, pcpu, tcrd, mycpu, slot, 
                              smask, bpsaved, nest, hsize, nw, nk, nrw, wk, 
                              reg, rnest, ncs, ingp, gpstuck, forked, inchild, 
                              gone, forker, bdone, flags, cnt, called, queued, 
                              bsnap, alive, errs, pci, opx, iv, hd, tl, old, 
                              cur, nx, cbc, en, ec, wc, gd, fc, dc, newc, 
                              cidef, cn, bk, regs, kk, om, tgt, asz, cl, ord, 
                              gps, stack >>

s_xh(self) == /\ pc[self] = "s_xh"
              /\ Drained(self)
              /\ hd' = [hd EXCEPT ![self] = mem[(NextOf(Hd(hobj[self])))]]
              /\ mem' = [mem EXCEPT ![(NextOf(Hd(hobj[self])))] = NULL]
              /\ uaf' = (uaf \/ Dead((NextOf(Hd(hobj[self])))))
              /\ acc' = Ev(self, "xchg", (NextOf(Hd(hobj[self]))), NULL, "-", (hd'[self]))
              /\ IF hd'[self] # NULL
                    THEN /\ pc' = [pc EXCEPT ![self] = "s_mb"]
                    ELSE /\ pc' = [pc EXCEPT ![self] = "s_lt"]
              /\ UNCHANGED << sb, mx, fsleep, wloc, crlist, ncrd, nh, started, 
                              hobj, cpulen, pcpu, tcrd, mycpu, slot, smask, 
                              bpsaved, nest, hsize, nw, nk, nrw, wk, reg, 
                              rnest, ncs, ingp, gpstuck, forked, inchild, gone, 
                              forker, bdone, flags, cnt, called, queued, bsnap, 
                              alive, errs, pci, opx, iv, pa, tl, old, cur, nx, 
                              cbc, en, ec, wc, gd, fc, dc, newc, cidef, cn, bk, 
                              regs, kk, om, tgt, asz, cl, ord, gps, stack >>

s_lt(self) == /\ pc[self] = "s_lt"
              /\ pa' = [pa EXCEPT ![self] = Rd(self, (TailOf(hobj[self])))]
              /\ uaf' = (uaf \/ Dead((TailOf(hobj[self]))))
              /\ acc' = Ev(self, "ld", (TailOf(hobj[self])), "-", "-", SV((TailOf(hobj[self])), Rd(self, (TailOf(hobj[self])))))
              /\ IF pa'[self] = Hd(hobj[self])
                    THEN /\ pc' = [pc EXCEPT ![self] = "h_stop"]
                    ELSE /\ pc' = [pc EXCEPT ![self] = "s_xh"]
              /\ UNCHANGED << mem, sb, mx, fsleep, wloc, crlist, ncrd, nh, 
                              started, hobj, cpulen, pcpu, tcrd, mycpu, slot, 
                              smask, bpsaved, nest, hsize, nw, nk, nrw, wk, 
                              reg, rnest, ncs, ingp, gpstuck, forked, inchild, 
                              gone, forker, bdone, flags, cnt, called, queued, 
                              bsnap, alive, errs, pci, opx, iv, hd, tl, old, 
                              cur, nx, cbc, en, ec, wc, gd, fc, dc, newc, 
                              cidef, cn, bk, regs, kk, om, tgt, asz, cl, ord, 
                              gps, stack >>

s_mb(self) == /\ pc[self] = "s_mb"
              /\ Drained(self)
              /\ pc' = [pc EXCEPT ![self] = "s_xt"]
              /\ UNCHANGED << mem, sb, mx, acc, fsleep, wloc, crlist, ncrd, nh, 
                              started, hobj, cpulen, pcpu, tcrd, mycpu, slot, 
                              smask, bpsaved, nest, hsize, nw, nk, nrw, wk, 
                              reg, rnest, ncs, ingp, gpstuck, forked, inchild, 
                              gone, forker, bdone, flags, cnt, called, queued, 
                              bsnap, alive, uaf, errs, pci, opx, iv, pa, hd, 
                              tl, old, cur, nx, cbc, en, ec, wc, gd, fc, dc, 
                              newc, cidef, cn, bk, regs, kk, om, tgt, asz, cl, 
                              ord, gps, stack >>

s_xt(self) == /\ pc[self] = "s_xt"
              /\ Drained(self)
              /\ tl' = [tl EXCEPT ![self] = mem[(TailOf(hobj[self]))]]
              /\ mem' = [mem EXCEPT ![(TailOf(hobj[self]))] = Hd(hobj[self])]
              /\ uaf' = (uaf \/ Dead((TailOf(hobj[self]))))
              /\ acc' = Ev(self, "xchg", (TailOf(hobj[self])), (Hd(hobj[self])), "-", (tl'[self]))
              /\ cur' = [cur EXCEPT ![self] = hd[self]]
              /\ cbc' = [cbc EXCEPT ![self] = 0]
              /\ pc' = [pc EXCEPT ![self] = "h_gp"]
              /\ UNCHANGED << sb, mx, fsleep, wloc, crlist, ncrd, nh, started, 
                              hobj, cpulen, pcpu, tcrd, mycpu, slot, smask, 
                              bpsaved, nest, hsize, nw, nk, nrw, wk, reg, 
                              rnest, ncs, ingp, gpstuck, forked, inchild, gone, 
                              forker, bdone, flags, cnt, called, queued, bsnap, 
                              alive, errs, pci, opx, iv, pa, hd, old, nx, en, 
                              ec, wc, gd, fc, dc, newc, cidef, cn, bk, regs, 
                              kk, om, tgt, asz, cl, ord, gps, stack >>

h_gp(self) == /\ pc[self] = "h_gp"
              /\ IF Flavor = "bp"
                    THEN /\ stack' = [stack EXCEPT ![self] = << [ procedure |->  "bp_sync",
                                                                  pc        |->  "it_ld" ] >>
                                                              \o stack[self]]
                         /\ pc' = [pc EXCEPT ![self] = "bs_mask"]
                    ELSE /\ stack' = [stack EXCEPT ![self] = << [ procedure |->  "gp",
                                                                  pc        |->  "it_ld" ] >>
                                                              \o stack[self]]
                         /\ pc' = [pc EXCEPT ![self] = "gp_b"]
              /\ UNCHANGED << mem, sb, mx, acc, fsleep, wloc, crlist, ncrd, nh, 
                              started, hobj, cpulen, pcpu, tcrd, mycpu, slot, 
                              smask, bpsaved, nest, hsize, nw, nk, nrw, wk, 
                              reg, rnest, ncs, ingp, gpstuck, forked, inchild, 
                              gone, forker, bdone, flags, cnt, called, queued, 
                              bsnap, alive, uaf, errs, pci, opx, iv, pa, hd, 
                              tl, old, cur, nx, cbc, en, ec, wc, gd, fc, dc, 
                              newc, cidef, cn, bk, regs, kk, om, tgt, asz, cl, 
                              ord, gps >>

it_ld(self) == /\ pc[self] = "it_ld"
               /\ nx' = [nx EXCEPT ![self] = Rd(self, (NextOf(cur[self])))]
               /\ uaf' = (uaf \/ Dead((NextOf(cur[self]))))
               /\ acc' = Ev(self, "ld", (NextOf(cur[self])), "-", "-", SV((NextOf(cur[self])), Rd(self, (NextOf(cur[self])))))
               /\ IF nx'[self] = NULL /\ cur[self] # tl[self]
                     THEN /\ pc' = [pc EXCEPT ![self] = "it_ld"]
                     ELSE /\ pc' = [pc EXCEPT ![self] = "it_inv"]
               /\ UNCHANGED << mem, sb, mx, fsleep, wloc, crlist, ncrd, nh, 
                               started, hobj, cpulen, pcpu, tcrd, mycpu, slot, 
                               smask, bpsaved, nest, hsize, nw, nk, nrw, wk, 
                               reg, rnest, ncs, ingp, gpstuck, forked, inchild, 
                               gone, forker, bdone, flags, cnt, called, queued, 
                               bsnap, alive, errs, pci, opx, iv, pa, hd, tl, 
                               old, cur, cbc, en, ec, wc, gd, fc, dc, newc, 
                               cidef, cn, bk, regs, kk, om, tgt, asz, cl, ord, 
                               gps, stack >>

it_inv(self) == /\ pc[self] = "it_inv"
                /\ IF cur[self] \in Works
                      THEN /\ Drained(self)
                           /\ acc' = Ev(self, "addret", (CountOf(wk[cur[self]])), "-1", "-", ToString((mem[CountOf(wk[cur[self]])] - 1)))
                           /\ uaf' = (uaf \/ Dead((CountOf(wk[cur[self]]))))
                           /\ mem' = [mem EXCEPT ![(CountOf(wk[cur[self]]))] = mem[CountOf(wk[cur[self]])] - 1]
                           /\ UNCHANGED << cnt, errs >>
                      ELSE /\ IF cnt[cur[self]] >= 1
                                 THEN /\ errs' = (errs \cup {"AtMostOnce"})
                                 ELSE /\ TRUE
                                      /\ errs' = errs
                           /\ cnt' = [cnt EXCEPT ![cur[self]] = cnt[cur[self]] + 1]
                           /\ acc' = Ev(self, "cb", cur[self], "-", "-", "-")
                           /\ UNCHANGED << mem, uaf >>
                /\ cbc' = [cbc EXCEPT ![self] = cbc[self] + 1]
                /\ cur' = [cur EXCEPT ![self] = nx[self]]
                /\ IF nx[self] # NULL
                      THEN /\ pc' = [pc EXCEPT ![self] = "it_ld"]
                      ELSE /\ pc' = [pc EXCEPT ![self] = "h_sub"]
                /\ UNCHANGED << sb, mx, fsleep, wloc, crlist, ncrd, nh, 
                                started, hobj, cpulen, pcpu, tcrd, mycpu, slot, 
                                smask, bpsaved, nest, hsize, nw, nk, nrw, wk, 
                                reg, rnest, ncs, ingp, gpstuck, forked, 
                                inchild, gone, forker, bdone, flags, called, 
                                queued, bsnap, alive, pci, opx, iv, pa, hd, tl, 
                                old, nx, en, ec, wc, gd, fc, dc, newc, cidef, 
                                cn, bk, regs, kk, om, tgt, asz, cl, ord, gps, 
                                stack >>

h_sub(self) == /\ pc[self] = "h_sub"
               /\ Drained(self)
               /\ acc' = Ev(self, "add", (QlenOf(hobj[self])), (ToString(-cbc[self])), "-", ToString((mem[QlenOf(hobj[self])] - cbc[self])))
               /\ uaf' = (uaf \/ Dead((QlenOf(hobj[self]))))
               /\ mem' = [mem EXCEPT ![(QlenOf(hobj[self]))] = mem[QlenOf(hobj[self])] - cbc[self]]
               /\ pc' = [pc EXCEPT ![self] = "h_stop"]
               /\ UNCHANGED << sb, mx, fsleep, wloc, crlist, ncrd, nh, started, 
                               hobj, cpulen, pcpu, tcrd, mycpu, slot, smask, 
                               bpsaved, nest, hsize, nw, nk, nrw, wk, reg, 
                               rnest, ncs, ingp, gpstuck, forked, inchild, 
                               gone, forker, bdone, flags, cnt, called, queued, 
                               bsnap, alive, errs, pci, opx, iv, pa, hd, tl, 
                               old, cur, nx, cbc, en, ec, wc, gd, fc, dc, newc, 
                               cidef, cn, bk, regs, kk, om, tgt, asz, cl, ord, 
                               gps, stack >>

h_stop(self) == /\ pc[self] = "h_stop"
                /\ iv' = [iv EXCEPT ![self] = Rd(self, (FlagsOf(hobj[self])))]
                /\ uaf' = (uaf \/ Dead((FlagsOf(hobj[self]))))
                /\ acc' = Ev(self, "ld", (FlagsOf(hobj[self])), "-", "-", SV((FlagsOf(hobj[self])), Rd(self, (FlagsOf(hobj[self])))))
                /\ hd' = [hd EXCEPT ![self] = NULL]
                /\ tl' = [tl EXCEPT ![self] = NULL]
                /\ cur' = [cur EXCEPT ![self] = NULL]
                /\ nx' = [nx EXCEPT ![self] = NULL]
                /\ cbc' = [cbc EXCEPT ![self] = 0]
                /\ pc' = [pc EXCEPT ![self] = "h_e1"]
                /\ UNCHANGED << mem, sb, mx, fsleep, wloc, crlist, ncrd, nh, 
                                started, hobj, cpulen, pcpu, tcrd, mycpu, slot, 
                                smask, bpsaved, nest, hsize, nw, nk, nrw, wk, 
                                reg, rnest, ncs, ingp, gpstuck, forked, 
                                inchild, gone, forker, bdone, flags, cnt, 
                                called, queued, bsnap, alive, errs, pci, opx, 
                                pa, old, en, ec, wc, gd, fc, dc, newc, cidef, 
                                cn, bk, regs, kk, om, tgt, asz, cl, ord, gps, 
                                stack >>

h_e1(self) == /\ pc[self] = "h_e1"
              /\ pa' = [pa EXCEPT ![self] = Rd(self, (NextOf(Hd(hobj[self]))))]
              /\ uaf' = (uaf \/ Dead((NextOf(Hd(hobj[self])))))
              /\ acc' = Ev(self, "ld", (NextOf(Hd(hobj[self]))), "-", "-", SV((NextOf(Hd(hobj[self]))), Rd(self, (NextOf(Hd(hobj[self]))))))
              /\ IF pa'[self] # NULL
                    THEN /\ pc' = [pc EXCEPT ![self] = "h_top"]
                    ELSE /\ pc' = [pc EXCEPT ![self] = "h_e2"]
              /\ UNCHANGED << mem, sb, mx, fsleep, wloc, crlist, ncrd, nh, 
                              started, hobj, cpulen, pcpu, tcrd, mycpu, slot, 
                              smask, bpsaved, nest, hsize, nw, nk, nrw, wk, 
                              reg, rnest, ncs, ingp, gpstuck, forked, inchild, 
                              gone, forker, bdone, flags, cnt, called, queued, 
                              bsnap, alive, errs, pci, opx, iv, hd, tl, old, 
                              cur, nx, cbc, en, ec, wc, gd, fc, dc, newc, 
                              cidef, cn, bk, regs, kk, om, tgt, asz, cl, ord, 
                              gps, stack >>

h_e2(self) == /\ pc[self] = "h_e2"
              /\ pa' = [pa EXCEPT ![self] = Rd(self, (TailOf(hobj[self])))]
              /\ uaf' = (uaf \/ Dead((TailOf(hobj[self]))))
              /\ acc' = Ev(self, "ld", (TailOf(hobj[self])), "-", "-", SV((TailOf(hobj[self])), Rd(self, (TailOf(hobj[self])))))
              /\ IF pa'[self] # Hd(hobj[self])
                    THEN /\ pc' = [pc EXCEPT ![self] = "h_top"]
                    ELSE /\ pc' = [pc EXCEPT ![self] = "w_mb"]
              /\ UNCHANGED << mem, sb, mx, fsleep, wloc, crlist, ncrd, nh, 
                              started, hobj, cpulen, pcpu, tcrd, mycpu, slot, 
                              smask, bpsaved, nest, hsize, nw, nk, nrw, wk, 
                              reg, rnest, ncs, ingp, gpstuck, forked, inchild, 
                              gone, forker, bdone, flags, cnt, called, queued, 
                              bsnap, alive, errs, pci, opx, iv, hd, tl, old, 
                              cur, nx, cbc, en, ec, wc, gd, fc, dc, newc, 
                              cidef, cn, bk, regs, kk, om, tgt, asz, cl, ord, 
                              gps, stack >>

w_mb(self) == /\ pc[self] = "w_mb"
              /\ Drained(self)
              /\ pc' = [pc EXCEPT ![self] = "w_ld"]
              /\ UNCHANGED << mem, sb, mx, acc, fsleep, wloc, crlist, ncrd, nh, 
                              started, hobj, cpulen, pcpu, tcrd, mycpu, slot, 
                              smask, bpsaved, nest, hsize, nw, nk, nrw, wk, 
                              reg, rnest, ncs, ingp, gpstuck, forked, inchild, 
                              gone, forker, bdone, flags, cnt, called, queued, 
                              bsnap, alive, uaf, errs, pci, opx, iv, pa, hd, 
                              tl, old, cur, nx, cbc, en, ec, wc, gd, fc, dc, 
                              newc, cidef, cn, bk, regs, kk, om, tgt, asz, cl, 
                              ord, gps, stack >>

w_ld(self) == /\ pc[self] = "w_ld"
              /\ iv' = [iv EXCEPT ![self] = Rd(self, (FutexOf(hobj[self])))]
              /\ uaf' = (uaf \/ Dead((FutexOf(hobj[self]))))
              /\ acc' = Ev(self, "ld", (FutexOf(hobj[self])), "-", "-", SV((FutexOf(hobj[self])), Rd(self, (FutexOf(hobj[self])))))
              /\ IF iv'[self] # -1
                    THEN /\ pc' = [pc EXCEPT ![self] = "w_dec"]
                    ELSE /\ pc' = [pc EXCEPT ![self] = "w_fwait"]
              /\ UNCHANGED << mem, sb, mx, fsleep, wloc, crlist, ncrd, nh, 
                              started, hobj, cpulen, pcpu, tcrd, mycpu, slot, 
                              smask, bpsaved, nest, hsize, nw, nk, nrw, wk, 
                              reg, rnest, ncs, ingp, gpstuck, forked, inchild, 
                              gone, forker, bdone, flags, cnt, called, queued, 
                              bsnap, alive, errs, pci, opx, pa, hd, tl, old, 
                              cur, nx, cbc, en, ec, wc, gd, fc, dc, newc, 
                              cidef, cn, bk, regs, kk, om, tgt, asz, cl, ord, 
                              gps, stack >>

w_fwait(self) == /\ pc[self] = "w_fwait"
                 /\ Drained(self)
                 /\ IF mem[FutexOf(hobj[self])] = -1
                       THEN /\ fsleep' = (fsleep \cup {self})
                            /\ wloc' = [wloc EXCEPT ![self] = FutexOf(hobj[self])]
                            /\ acc' = Ev(self, "fwait", FutexOf(hobj[self]), "-1", "-", "SLEEP")
                            /\ pc' = [pc EXCEPT ![self] = "w_fwoke"]
                       ELSE /\ acc' = Ev(self, "fwait", FutexOf(hobj[self]), "-1", "-", "EAGAIN")
                            /\ pc' = [pc EXCEPT ![self] = "w_dec"]
                            /\ UNCHANGED << fsleep, wloc >>
                 /\ UNCHANGED << mem, sb, mx, crlist, ncrd, nh, started, hobj, 
                                 cpulen, pcpu, tcrd, mycpu, slot, smask, 
                                 bpsaved, nest, hsize, nw, nk, nrw, wk, reg, 
                                 rnest, ncs, ingp, gpstuck, forked, inchild, 
                                 gone, forker, bdone, flags, cnt, called, 
                                 queued, bsnap, alive, uaf, errs, pci, opx, iv, 
                                 pa, hd, tl, old, cur, nx, cbc, en, ec, wc, gd, 
                                 fc, dc, newc, cidef, cn, bk, regs, kk, om, 
                                 tgt, asz, cl, ord, gps, stack >>

w_fwoke(self) == /\ pc[self] = "w_fwoke"
                 /\ self \notin fsleep
                 /\ acc' = Ev(self, "fwoke", FutexOf(hobj[self]), "-", "-", "WAKE")
                 /\ pc' = [pc EXCEPT ![self] = "w_ld"]
                 /\ UNCHANGED << mem, sb, mx, fsleep, wloc, crlist, ncrd, nh, 
                                 started, hobj, cpulen, pcpu, tcrd, mycpu, 
                                 slot, smask, bpsaved, nest, hsize, nw, nk, 
                                 nrw, wk, reg, rnest, ncs, ingp, gpstuck, 
                                 forked, inchild, gone, forker, bdone, flags, 
                                 cnt, called, queued, bsnap, alive, uaf, errs, 
                                 pci, opx, iv, pa, hd, tl, old, cur, nx, cbc, 
                                 en, ec, wc, gd, fc, dc, newc, cidef, cn, bk, 
                                 regs, kk, om, tgt, asz, cl, ord, gps, stack >>

w_dec(self) == /\ pc[self] = "w_dec"
               /\ Drained(self)
               /\ acc' = Ev(self, "dec", (FutexOf(hobj[self])), "-", "-", ToString((Dec(mem[FutexOf(hobj[self])]))))
               /\ uaf' = (uaf \/ Dead((FutexOf(hobj[self]))))
               /\ mem' = [mem EXCEPT ![(FutexOf(hobj[self]))] = Dec(mem[FutexOf(hobj[self])])]
               /\ pc' = [pc EXCEPT ![self] = "w_mb2"]
               /\ UNCHANGED << sb, mx, fsleep, wloc, crlist, ncrd, nh, started, 
                               hobj, cpulen, pcpu, tcrd, mycpu, slot, smask, 
                               bpsaved, nest, hsize, nw, nk, nrw, wk, reg, 
                               rnest, ncs, ingp, gpstuck, forked, inchild, 
                               gone, forker, bdone, flags, cnt, called, queued, 
                               bsnap, alive, errs, pci, opx, iv, pa, hd, tl, 
                               old, cur, nx, cbc, en, ec, wc, gd, fc, dc, newc, 
                               cidef, cn, bk, regs, kk, om, tgt, asz, cl, ord, 
                               gps, stack >>

w_mb2(self) == /\ pc[self] = "w_mb2"
               /\ Drained(self)
               /\ pc' = [pc EXCEPT ![self] = "h_top"]
               /\ UNCHANGED << mem, sb, mx, acc, fsleep, wloc, crlist, ncrd, 
                               nh, started, hobj, cpulen, pcpu, tcrd, mycpu, 
                               slot, smask, bpsaved, nest, hsize, nw, nk, nrw, 
                               wk, reg, rnest, ncs, ingp, gpstuck, forked, 
                               inchild, gone, forker, bdone, flags, cnt, 
                               called, queued, bsnap, alive, uaf, errs, pci, 
                               opx, iv, pa, hd, tl, old, cur, nx, cbc, en, ec, 
                               wc, gd, fc, dc, newc, cidef, cn, bk, regs, kk, 
                               om, tgt, asz, cl, ord, gps, stack >>

q_flags(self) == /\ pc[self] = "q_flags"
                 /\ iv' = [iv EXCEPT ![self] = Rd(self, (FlagsOf(WQ)))]
                 /\ uaf' = (uaf \/ Dead((FlagsOf(WQ))))
                 /\ acc' = Ev(self, "ld", (FlagsOf(WQ)), "-", "-", SV((FlagsOf(WQ)), Rd(self, (FlagsOf(WQ)))))
                 /\ pc' = [pc EXCEPT ![self] = "q_dec0"]
                 /\ UNCHANGED << mem, sb, mx, fsleep, wloc, crlist, ncrd, nh, 
                                 started, hobj, cpulen, pcpu, tcrd, mycpu, 
                                 slot, smask, bpsaved, nest, hsize, nw, nk, 
                                 nrw, wk, reg, rnest, ncs, ingp, gpstuck, 
                                 forked, inchild, gone, forker, bdone, flags, 
                                 cnt, called, queued, bsnap, alive, errs, pci, 
                                 opx, pa, hd, tl, old, cur, nx, cbc, en, ec, 
                                 wc, gd, fc, dc, newc, cidef, cn, bk, regs, kk, 
                                 om, tgt, asz, cl, ord, gps, stack >>

q_dec0(self) == /\ pc[self] = "q_dec0"
                /\ Drained(self)
                /\ acc' = Ev(self, "dec", (FutexOf(WQ)), "-", "-", ToString((Dec(mem[FutexOf(WQ)]))))
                /\ uaf' = (uaf \/ Dead((FutexOf(WQ))))
                /\ mem' = [mem EXCEPT ![(FutexOf(WQ))] = Dec(mem[FutexOf(WQ)])]
                /\ pc' = [pc EXCEPT ![self] = "q_mb0"]
                /\ UNCHANGED << sb, mx, fsleep, wloc, crlist, ncrd, nh, 
                                started, hobj, cpulen, pcpu, tcrd, mycpu, slot, 
                                smask, bpsaved, nest, hsize, nw, nk, nrw, wk, 
                                reg, rnest, ncs, ingp, gpstuck, forked, 
                                inchild, gone, forker, bdone, flags, cnt, 
                                called, queued, bsnap, alive, errs, pci, opx, 
                                iv, pa, hd, tl, old, cur, nx, cbc, en, ec, wc, 
                                gd, fc, dc, newc, cidef, cn, bk, regs, kk, om, 
                                tgt, asz, cl, ord, gps, stack >>

q_mb0(self) == /\ pc[self] = "q_mb0"
               /\ Drained(self)
               /\ pc' = [pc EXCEPT ![self] = "q_top"]
               /\ UNCHANGED << mem, sb, mx, acc, fsleep, wloc, crlist, ncrd, 
                               nh, started, hobj, cpulen, pcpu, tcrd, mycpu, 
                               slot, smask, bpsaved, nest, hsize, nw, nk, nrw, 
                               wk, reg, rnest, ncs, ingp, gpstuck, forked, 
                               inchild, gone, forker, bdone, flags, cnt, 
                               called, queued, bsnap, alive, uaf, errs, pci, 
                               opx, iv, pa, hd, tl, old, cur, nx, cbc, en, ec, 
                               wc, gd, fc, dc, newc, cidef, cn, bk, regs, kk, 
                               om, tgt, asz, cl, ord, gps, stack >>

q_top(self) == /\ pc[self] = "q_top"
               /\ iv' = [iv EXCEPT ![self] = Rd(self, (FlagsOf(WQ)))]
               /\ uaf' = (uaf \/ Dead((FlagsOf(WQ))))
               /\ acc' = Ev(self, "ld", (FlagsOf(WQ)), "-", "-", SV((FlagsOf(WQ)), Rd(self, (FlagsOf(WQ)))))
               /\ IF ~Has(iv'[self], WPAUSE)
                     THEN /\ pc' = [pc EXCEPT ![self] = "qs_e1"]
                     ELSE /\ pc' = [pc EXCEPT ![self] = "qp_or"]
               /\ UNCHANGED << mem, sb, mx, fsleep, wloc, crlist, ncrd, nh, 
                               started, hobj, cpulen, pcpu, tcrd, mycpu, slot, 
                               smask, bpsaved, nest, hsize, nw, nk, nrw, wk, 
                               reg, rnest, ncs, ingp, gpstuck, forked, inchild, 
                               gone, forker, bdone, flags, cnt, called, queued, 
                               bsnap, alive, errs, pci, opx, pa, hd, tl, old, 
                               cur, nx, cbc, en, ec, wc, gd, fc, dc, newc, 
                               cidef, cn, bk, regs, kk, om, tgt, asz, cl, ord, 
                               gps, stack >>

qp_or(self) == /\ pc[self] = "qp_or"
               /\ Drained(self)
               /\ acc' = Ev(self, "or", (FlagsOf(WQ)), (ToString(WPAUSED)), "-", ToString((SetB(mem[FlagsOf(WQ)], WPAUSED))))
               /\ uaf' = (uaf \/ Dead((FlagsOf(WQ))))
               /\ mem' = [mem EXCEPT ![(FlagsOf(WQ))] = SetB(mem[FlagsOf(WQ)], WPAUSED)]
               /\ pc' = [pc EXCEPT ![self] = "qp_wait"]
               /\ UNCHANGED << sb, mx, fsleep, wloc, crlist, ncrd, nh, started, 
                               hobj, cpulen, pcpu, tcrd, mycpu, slot, smask, 
                               bpsaved, nest, hsize, nw, nk, nrw, wk, reg, 
                               rnest, ncs, ingp, gpstuck, forked, inchild, 
                               gone, forker, bdone, flags, cnt, called, queued, 
                               bsnap, alive, errs, pci, opx, iv, pa, hd, tl, 
                               old, cur, nx, cbc, en, ec, wc, gd, fc, dc, newc, 
                               cidef, cn, bk, regs, kk, om, tgt, asz, cl, ord, 
                               gps, stack >>

qp_wait(self) == /\ pc[self] = "qp_wait"
                 /\ iv' = [iv EXCEPT ![self] = Rd(self, (FlagsOf(WQ)))]
                 /\ uaf' = (uaf \/ Dead((FlagsOf(WQ))))
                 /\ acc' = Ev(self, "ld", (FlagsOf(WQ)), "-", "-", SV((FlagsOf(WQ)), Rd(self, (FlagsOf(WQ)))))
                 /\ IF Has(iv'[self], WPAUSE)
                       THEN /\ pc' = [pc EXCEPT ![self] = "qp_wait"]
                       ELSE /\ pc' = [pc EXCEPT ![self] = "qp_and"]
                 /\ UNCHANGED << mem, sb, mx, fsleep, wloc, crlist, ncrd, nh, 
                                 started, hobj, cpulen, pcpu, tcrd, mycpu, 
                                 slot, smask, bpsaved, nest, hsize, nw, nk, 
                                 nrw, wk, reg, rnest, ncs, ingp, gpstuck, 
                                 forked, inchild, gone, forker, bdone, flags, 
                                 cnt, called, queued, bsnap, alive, errs, pci, 
                                 opx, pa, hd, tl, old, cur, nx, cbc, en, ec, 
                                 wc, gd, fc, dc, newc, cidef, cn, bk, regs, kk, 
                                 om, tgt, asz, cl, ord, gps, stack >>

qp_and(self) == /\ pc[self] = "qp_and"
                /\ Drained(self)
                /\ acc' = Ev(self, "and", (FlagsOf(WQ)), (ToString(-(WPAUSED + 1))), "-", ToString((ClrB(mem[FlagsOf(WQ)], WPAUSED))))
                /\ uaf' = (uaf \/ Dead((FlagsOf(WQ))))
                /\ mem' = [mem EXCEPT ![(FlagsOf(WQ))] = ClrB(mem[FlagsOf(WQ)], WPAUSED)]
                /\ pc' = [pc EXCEPT ![self] = "qs_e1"]
                /\ UNCHANGED << sb, mx, fsleep, wloc, crlist, ncrd, nh, 
                                started, hobj, cpulen, pcpu, tcrd, mycpu, slot, 
                                smask, bpsaved, nest, hsize, nw, nk, nrw, wk, 
                                reg, rnest, ncs, ingp, gpstuck, forked, 
                                inchild, gone, forker, bdone, flags, cnt, 
                                called, queued, bsnap, alive, errs, pci, opx, 
                                iv, pa, hd, tl, old, cur, nx, cbc, en, ec, wc, 
                                gd, fc, dc, newc, cidef, cn, bk, regs, kk, om, 
                                tgt, asz, cl, ord, gps, stack >>

qs_e1(self) == /\ pc[self] = "qs_e1"
               /\ pa' = [pa EXCEPT ![self] = Rd(self, (NextOf(Hd(WQ))))]
               /\ uaf' = (uaf \/ Dead((NextOf(Hd(WQ)))))
               /\ acc' = Ev(self, "ld", (NextOf(Hd(WQ))), "-", "-", SV((NextOf(Hd(WQ))), Rd(self, (NextOf(Hd(WQ))))))
               /\ IF pa'[self] # NULL
                     THEN /\ pc' = [pc EXCEPT ![self] = "qs_xh"]
                     ELSE /\ pc' = [pc EXCEPT ![self] = "qs_e2"]
               /\ UNCHANGED << mem, sb, mx, fsleep, wloc, crlist, ncrd, nh, 
                               started, hobj, cpulen, pcpu, tcrd, mycpu, slot, 
                               smask, bpsaved, nest, hsize, nw, nk, nrw, wk, 
                               reg, rnest, ncs, ingp, gpstuck, forked, inchild, 
                               gone, forker, bdone, flags, cnt, called, queued, 
                               bsnap, alive, errs, pci, opx, iv, hd, tl, old, 
                               cur, nx, cbc, en, ec, wc, gd, fc, dc, newc, 
                               cidef, cn, bk, regs, kk, om, tgt, asz, cl, ord, 
                               gps, stack >>

qs_e2(self) == /\ pc[self] = "qs_e2"
               /\ pa' = [pa EXCEPT ![self] = Rd(self, (TailOf(WQ)))]
               /\ uaf' = (uaf \/ Dead((TailOf(WQ))))
               /\ acc' = Ev(self, "ld", (TailOf(WQ)), "-", "-", SV((TailOf(WQ)), Rd(self, (TailOf(WQ)))))
               /\ IF pa'[self] = Hd(WQ)
                     THEN /\ pc' = [pc EXCEPT ![self] = "q_stop"]
                     ELSE /\ pc' = [pc EXCEPT ![self] = "qs_xh"]
               /\ UNCHANGED << mem, sb, mx, fsleep, wloc, crlist, ncrd, nh, 
                               started, hobj, cpulen, pcpu, tcrd, mycpu, slot, 
                               smask, bpsaved, nest, hsize, nw, nk, nrw, wk, 
                               reg, rnest, ncs, ingp, gpstuck, forked, inchild, 
                               gone, forker, bdone, flags, cnt, called, queued, 
                               bsnap, alive, errs, pci, opx, iv, hd, tl, old, 
                               cur, nx, cbc, en, ec, wc, gd, fc, dc, newc, 
                               cidef, cn, bk, regs, kk, om, tgt, asz, cl, ord, 
                               gps, stack >>

qs_xh(self) == /\ pc[self] = "qs_xh"
               /\ Drained(self)
               /\ hd' = [hd EXCEPT ![self] = mem[(NextOf(Hd(WQ)))]]
               /\ mem' = [mem EXCEPT ![(NextOf(Hd(WQ)))] = NULL]
               /\ uaf' = (uaf \/ Dead((NextOf(Hd(WQ)))))
               /\ acc' = Ev(self, "xchg", (NextOf(Hd(WQ))), NULL, "-", (hd'[self]))
               /\ IF hd'[self] # NULL
                     THEN /\ pc' = [pc EXCEPT ![self] = "qs_mb"]
                     ELSE /\ pc' = [pc EXCEPT ![self] = "qs_lt"]
               /\ UNCHANGED << sb, mx, fsleep, wloc, crlist, ncrd, nh, started, 
                               hobj, cpulen, pcpu, tcrd, mycpu, slot, smask, 
                               bpsaved, nest, hsize, nw, nk, nrw, wk, reg, 
                               rnest, ncs, ingp, gpstuck, forked, inchild, 
                               gone, forker, bdone, flags, cnt, called, queued, 
                               bsnap, alive, errs, pci, opx, iv, pa, tl, old, 
                               cur, nx, cbc, en, ec, wc, gd, fc, dc, newc, 
                               cidef, cn, bk, regs, kk, om, tgt, asz, cl, ord, 
                               gps, stack >>

qs_lt(self) == /\ pc[self] = "qs_lt"
               /\ pa' = [pa EXCEPT ![self] = Rd(self, (TailOf(WQ)))]
               /\ uaf' = (uaf \/ Dead((TailOf(WQ))))
               /\ acc' = Ev(self, "ld", (TailOf(WQ)), "-", "-", SV((TailOf(WQ)), Rd(self, (TailOf(WQ)))))
               /\ IF pa'[self] = Hd(WQ)
                     THEN /\ pc' = [pc EXCEPT ![self] = "q_stop"]
                     ELSE /\ pc' = [pc EXCEPT ![self] = "qs_xh"]
               /\ UNCHANGED << mem, sb, mx, fsleep, wloc, crlist, ncrd, nh, 
                               started, hobj, cpulen, pcpu, tcrd, mycpu, slot, 
                               smask, bpsaved, nest, hsize, nw, nk, nrw, wk, 
                               reg, rnest, ncs, ingp, gpstuck, forked, inchild, 
                               gone, forker, bdone, flags, cnt, called, queued, 
                               bsnap, alive, errs, pci, opx, iv, hd, tl, old, 
                               cur, nx, cbc, en, ec, wc, gd, fc, dc, newc, 
                               cidef, cn, bk, regs, kk, om, tgt, asz, cl, ord, 
                               gps, stack >>

qs_mb(self) == /\ pc[self] = "qs_mb"
               /\ Drained(self)
               /\ pc' = [pc EXCEPT ![self] = "qs_xt"]
               /\ UNCHANGED << mem, sb, mx, acc, fsleep, wloc, crlist, ncrd, 
                               nh, started, hobj, cpulen, pcpu, tcrd, mycpu, 
                               slot, smask, bpsaved, nest, hsize, nw, nk, nrw, 
                               wk, reg, rnest, ncs, ingp, gpstuck, forked, 
                               inchild, gone, forker, bdone, flags, cnt, 
                               called, queued, bsnap, alive, uaf, errs, pci, 
                               opx, iv, pa, hd, tl, old, cur, nx, cbc, en, ec, 
                               wc, gd, fc, dc, newc, cidef, cn, bk, regs, kk, 
                               om, tgt, asz, cl, ord, gps, stack >>

qs_xt(self) == /\ pc[self] = "qs_xt"
               /\ Drained(self)
               /\ tl' = [tl EXCEPT ![self] = mem[(TailOf(WQ))]]
               /\ mem' = [mem EXCEPT ![(TailOf(WQ))] = Hd(WQ)]
               /\ uaf' = (uaf \/ Dead((TailOf(WQ))))
               /\ acc' = Ev(self, "xchg", (TailOf(WQ)), (Hd(WQ)), "-", (tl'[self]))
               /\ cur' = [cur EXCEPT ![self] = hd[self]]
               /\ cbc' = [cbc EXCEPT ![self] = 0]
               /\ pc' = [pc EXCEPT ![self] = "qi_ld"]
               /\ UNCHANGED << sb, mx, fsleep, wloc, crlist, ncrd, nh, started, 
                               hobj, cpulen, pcpu, tcrd, mycpu, slot, smask, 
                               bpsaved, nest, hsize, nw, nk, nrw, wk, reg, 
                               rnest, ncs, ingp, gpstuck, forked, inchild, 
                               gone, forker, bdone, flags, cnt, called, queued, 
                               bsnap, alive, errs, pci, opx, iv, pa, hd, old, 
                               nx, en, ec, wc, gd, fc, dc, newc, cidef, cn, bk, 
                               regs, kk, om, tgt, asz, cl, ord, gps, stack >>

qi_ld(self) == /\ pc[self] = "qi_ld"
               /\ nx' = [nx EXCEPT ![self] = Rd(self, (NextOf(cur[self])))]
               /\ uaf' = (uaf \/ Dead((NextOf(cur[self]))))
               /\ acc' = Ev(self, "ld", (NextOf(cur[self])), "-", "-", SV((NextOf(cur[self])), Rd(self, (NextOf(cur[self])))))
               /\ IF nx'[self] = NULL /\ cur[self] # tl[self]
                     THEN /\ pc' = [pc EXCEPT ![self] = "qi_ld"]
                     ELSE /\ pc' = [pc EXCEPT ![self] = "rz_lock"]
               /\ UNCHANGED << mem, sb, mx, fsleep, wloc, crlist, ncrd, nh, 
                               started, hobj, cpulen, pcpu, tcrd, mycpu, slot, 
                               smask, bpsaved, nest, hsize, nw, nk, nrw, wk, 
                               reg, rnest, ncs, ingp, gpstuck, forked, inchild, 
                               gone, forker, bdone, flags, cnt, called, queued, 
                               bsnap, alive, errs, pci, opx, iv, pa, hd, tl, 
                               old, cur, cbc, en, ec, wc, gd, fc, dc, newc, 
                               cidef, cn, bk, regs, kk, om, tgt, asz, cl, ord, 
                               gps, stack >>

rz_lock(self) == /\ pc[self] = "rz_lock"
                 /\ Drained(self) /\ mx[RM] = "free"
                 /\ mx' = [mx EXCEPT ![RM] = self]
                 /\ acc' = Ev(self, "lock", RM, "-", "-", "-")
                 /\ pc' = [pc EXCEPT ![self] = "rz_reg"]
                 /\ UNCHANGED << mem, sb, fsleep, wloc, crlist, ncrd, nh, 
                                 started, hobj, cpulen, pcpu, tcrd, mycpu, 
                                 slot, smask, bpsaved, nest, hsize, nw, nk, 
                                 nrw, wk, reg, rnest, ncs, ingp, gpstuck, 
                                 forked, inchild, gone, forker, bdone, flags, 
                                 cnt, called, queued, bsnap, alive, uaf, errs, 
                                 pci, opx, iv, pa, hd, tl, old, cur, nx, cbc, 
                                 en, ec, wc, gd, fc, dc, newc, cidef, cn, bk, 
                                 regs, kk, om, tgt, asz, cl, ord, gps, stack >>

rz_reg(self) == /\ pc[self] = "rz_reg"
                /\ IF Flavor = "bp"
                      THEN /\ IF self \notin reg
                                 THEN /\ stack' = [stack EXCEPT ![self] = << [ procedure |->  "bp_register",
                                                                               pc        |->  "rz_do" ] >>
                                                                           \o stack[self]]
                                      /\ pc' = [pc EXCEPT ![self] = "br_mask"]
                                 ELSE /\ pc' = [pc EXCEPT ![self] = "rz_do"]
                                      /\ stack' = stack
                      ELSE /\ stack' = [stack EXCEPT ![self] = << [ procedure |->  "register",
                                                                    pc        |->  "rz_do" ] >>
                                                                \o stack[self]]
                           /\ pc' = [pc EXCEPT ![self] = "rg_lock"]
                /\ UNCHANGED << mem, sb, mx, acc, fsleep, wloc, crlist, ncrd, 
                                nh, started, hobj, cpulen, pcpu, tcrd, mycpu, 
                                slot, smask, bpsaved, nest, hsize, nw, nk, nrw, 
                                wk, reg, rnest, ncs, ingp, gpstuck, forked, 
                                inchild, gone, forker, bdone, flags, cnt, 
                                called, queued, bsnap, alive, uaf, errs, pci, 
                                opx, iv, pa, hd, tl, old, cur, nx, cbc, en, ec, 
                                wc, gd, fc, dc, newc, cidef, cn, bk, regs, kk, 
                                om, tgt, asz, cl, ord, gps >>

rz_do(self) == /\ pc[self] = "rz_do"
               /\ stack' = [stack EXCEPT ![self] = << [ procedure |->  "do_resize",
                                                        pc        |->  "rz_unreg" ] >>
                                                    \o stack[self]]
               /\ pc' = [pc EXCEPT ![self] = "rz_st1"]
               /\ UNCHANGED << mem, sb, mx, acc, fsleep, wloc, crlist, ncrd, 
                               nh, started, hobj, cpulen, pcpu, tcrd, mycpu, 
                               slot, smask, bpsaved, nest, hsize, nw, nk, nrw, 
                               wk, reg, rnest, ncs, ingp, gpstuck, forked, 
                               inchild, gone, forker, bdone, flags, cnt, 
                               called, queued, bsnap, alive, uaf, errs, pci, 
                               opx, iv, pa, hd, tl, old, cur, nx, cbc, en, ec, 
                               wc, gd, fc, dc, newc, cidef, cn, bk, regs, kk, 
                               om, tgt, asz, cl, ord, gps >>

rz_unreg(self) == /\ pc[self] = "rz_unreg"
                  /\ IF Flavor # "bp"
                        THEN /\ stack' = [stack EXCEPT ![self] = << [ procedure |->  "unregister",
                                                                      pc        |->  "rz_unl" ] >>
                                                                  \o stack[self]]
                             /\ pc' = [pc EXCEPT ![self] = "ug_lock"]
                        ELSE /\ pc' = [pc EXCEPT ![self] = "rz_unl"]
                             /\ stack' = stack
                  /\ UNCHANGED << mem, sb, mx, acc, fsleep, wloc, crlist, ncrd, 
                                  nh, started, hobj, cpulen, pcpu, tcrd, mycpu, 
                                  slot, smask, bpsaved, nest, hsize, nw, nk, 
                                  nrw, wk, reg, rnest, ncs, ingp, gpstuck, 
                                  forked, inchild, gone, forker, bdone, flags, 
                                  cnt, called, queued, bsnap, alive, uaf, errs, 
                                  pci, opx, iv, pa, hd, tl, old, cur, nx, cbc, 
                                  en, ec, wc, gd, fc, dc, newc, cidef, cn, bk, 
                                  regs, kk, om, tgt, asz, cl, ord, gps >>

rz_unl(self) == /\ pc[self] = "rz_unl"
                /\ Drained(self)
                /\ mx' = [mx EXCEPT ![RM] = "free"]
                /\ acc' = Ev(self, "unlock", RM, "-", "-", "-")
                /\ pc' = [pc EXCEPT ![self] = "qi_nxt"]
                /\ UNCHANGED << mem, sb, fsleep, wloc, crlist, ncrd, nh, 
                                started, hobj, cpulen, pcpu, tcrd, mycpu, slot, 
                                smask, bpsaved, nest, hsize, nw, nk, nrw, wk, 
                                reg, rnest, ncs, ingp, gpstuck, forked, 
                                inchild, gone, forker, bdone, flags, cnt, 
                                called, queued, bsnap, alive, uaf, errs, pci, 
                                opx, iv, pa, hd, tl, old, cur, nx, cbc, en, ec, 
                                wc, gd, fc, dc, newc, cidef, cn, bk, regs, kk, 
                                om, tgt, asz, cl, ord, gps, stack >>

qi_nxt(self) == /\ pc[self] = "qi_nxt"
                /\ cbc' = [cbc EXCEPT ![self] = cbc[self] + 1]
                /\ cur' = [cur EXCEPT ![self] = nx[self]]
                /\ IF nx[self] # NULL
                      THEN /\ pc' = [pc EXCEPT ![self] = "qi_ld"]
                      ELSE /\ pc' = [pc EXCEPT ![self] = "q_sub"]
                /\ UNCHANGED << mem, sb, mx, acc, fsleep, wloc, crlist, ncrd, 
                                nh, started, hobj, cpulen, pcpu, tcrd, mycpu, 
                                slot, smask, bpsaved, nest, hsize, nw, nk, nrw, 
                                wk, reg, rnest, ncs, ingp, gpstuck, forked, 
                                inchild, gone, forker, bdone, flags, cnt, 
                                called, queued, bsnap, alive, uaf, errs, pci, 
                                opx, iv, pa, hd, tl, old, nx, en, ec, wc, gd, 
                                fc, dc, newc, cidef, cn, bk, regs, kk, om, tgt, 
                                asz, cl, ord, gps, stack >>

q_sub(self) == /\ pc[self] = "q_sub"
               /\ Drained(self)
               /\ acc' = Ev(self, "add", (QlenOf(WQ)), (ToString(-cbc[self])), "-", ToString((mem[QlenOf(WQ)] - cbc[self])))
               /\ uaf' = (uaf \/ Dead((QlenOf(WQ))))
               /\ mem' = [mem EXCEPT ![(QlenOf(WQ))] = mem[QlenOf(WQ)] - cbc[self]]
               /\ pc' = [pc EXCEPT ![self] = "q_stop"]
               /\ UNCHANGED << sb, mx, fsleep, wloc, crlist, ncrd, nh, started, 
                               hobj, cpulen, pcpu, tcrd, mycpu, slot, smask, 
                               bpsaved, nest, hsize, nw, nk, nrw, wk, reg, 
                               rnest, ncs, ingp, gpstuck, forked, inchild, 
                               gone, forker, bdone, flags, cnt, called, queued, 
                               bsnap, alive, errs, pci, opx, iv, pa, hd, tl, 
                               old, cur, nx, cbc, en, ec, wc, gd, fc, dc, newc, 
                               cidef, cn, bk, regs, kk, om, tgt, asz, cl, ord, 
                               gps, stack >>

q_stop(self) == /\ pc[self] = "q_stop"
                /\ iv' = [iv EXCEPT ![self] = Rd(self, (FlagsOf(WQ)))]
                /\ uaf' = (uaf \/ Dead((FlagsOf(WQ))))
                /\ acc' = Ev(self, "ld", (FlagsOf(WQ)), "-", "-", SV((FlagsOf(WQ)), Rd(self, (FlagsOf(WQ)))))
                /\ hd' = [hd EXCEPT ![self] = NULL]
                /\ tl' = [tl EXCEPT ![self] = NULL]
                /\ cur' = [cur EXCEPT ![self] = NULL]
                /\ nx' = [nx EXCEPT ![self] = NULL]
                /\ cbc' = [cbc EXCEPT ![self] = 0]
                /\ pc' = [pc EXCEPT ![self] = "q_e1"]
                /\ UNCHANGED << mem, sb, mx, fsleep, wloc, crlist, ncrd, nh, 
                                started, hobj, cpulen, pcpu, tcrd, mycpu, slot, 
                                smask, bpsaved, nest, hsize, nw, nk, nrw, wk, 
                                reg, rnest, ncs, ingp, gpstuck, forked, 
                                inchild, gone, forker, bdone, flags, cnt, 
                                called, queued, bsnap, alive, errs, pci, opx, 
                                pa, old, en, ec, wc, gd, fc, dc, newc, cidef, 
                                cn, bk, regs, kk, om, tgt, asz, cl, ord, gps, 
                                stack >>

q_e1(self) == /\ pc[self] = "q_e1"
              /\ pa' = [pa EXCEPT ![self] = Rd(self, (NextOf(Hd(WQ))))]
              /\ uaf' = (uaf \/ Dead((NextOf(Hd(WQ)))))
              /\ acc' = Ev(self, "ld", (NextOf(Hd(WQ))), "-", "-", SV((NextOf(Hd(WQ))), Rd(self, (NextOf(Hd(WQ))))))
              /\ IF pa'[self] # NULL
                    THEN /\ pc' = [pc EXCEPT ![self] = "q_top"]
                    ELSE /\ pc' = [pc EXCEPT ![self] = "q_e2"]
              /\ UNCHANGED << mem, sb, mx, fsleep, wloc, crlist, ncrd, nh, 
                              started, hobj, cpulen, pcpu, tcrd, mycpu, slot, 
                              smask, bpsaved, nest, hsize, nw, nk, nrw, wk, 
                              reg, rnest, ncs, ingp, gpstuck, forked, inchild, 
                              gone, forker, bdone, flags, cnt, called, queued, 
                              bsnap, alive, errs, pci, opx, iv, hd, tl, old, 
                              cur, nx, cbc, en, ec, wc, gd, fc, dc, newc, 
                              cidef, cn, bk, regs, kk, om, tgt, asz, cl, ord, 
                              gps, stack >>

q_e2(self) == /\ pc[self] = "q_e2"
              /\ pa' = [pa EXCEPT ![self] = Rd(self, (TailOf(WQ)))]
              /\ uaf' = (uaf \/ Dead((TailOf(WQ))))
              /\ acc' = Ev(self, "ld", (TailOf(WQ)), "-", "-", SV((TailOf(WQ)), Rd(self, (TailOf(WQ)))))
              /\ IF pa'[self] # Hd(WQ)
                    THEN /\ pc' = [pc EXCEPT ![self] = "q_top"]
                    ELSE /\ pc' = [pc EXCEPT ![self] = "qw_mb"]
              /\ UNCHANGED << mem, sb, mx, fsleep, wloc, crlist, ncrd, nh, 
                              started, hobj, cpulen, pcpu, tcrd, mycpu, slot, 
                              smask, bpsaved, nest, hsize, nw, nk, nrw, wk, 
                              reg, rnest, ncs, ingp, gpstuck, forked, inchild, 
                              gone, forker, bdone, flags, cnt, called, queued, 
                              bsnap, alive, errs, pci, opx, iv, hd, tl, old, 
                              cur, nx, cbc, en, ec, wc, gd, fc, dc, newc, 
                              cidef, cn, bk, regs, kk, om, tgt, asz, cl, ord, 
                              gps, stack >>

qw_mb(self) == /\ pc[self] = "qw_mb"
               /\ Drained(self)
               /\ pc' = [pc EXCEPT ![self] = "qw_ld"]
               /\ UNCHANGED << mem, sb, mx, acc, fsleep, wloc, crlist, ncrd, 
                               nh, started, hobj, cpulen, pcpu, tcrd, mycpu, 
                               slot, smask, bpsaved, nest, hsize, nw, nk, nrw, 
                               wk, reg, rnest, ncs, ingp, gpstuck, forked, 
                               inchild, gone, forker, bdone, flags, cnt, 
                               called, queued, bsnap, alive, uaf, errs, pci, 
                               opx, iv, pa, hd, tl, old, cur, nx, cbc, en, ec, 
                               wc, gd, fc, dc, newc, cidef, cn, bk, regs, kk, 
                               om, tgt, asz, cl, ord, gps, stack >>

qw_ld(self) == /\ pc[self] = "qw_ld"
               /\ iv' = [iv EXCEPT ![self] = Rd(self, (FutexOf(WQ)))]
               /\ uaf' = (uaf \/ Dead((FutexOf(WQ))))
               /\ acc' = Ev(self, "ld", (FutexOf(WQ)), "-", "-", SV((FutexOf(WQ)), Rd(self, (FutexOf(WQ)))))
               /\ IF iv'[self] # -1
                     THEN /\ pc' = [pc EXCEPT ![self] = "qw_dec"]
                     ELSE /\ pc' = [pc EXCEPT ![self] = "qw_fwait"]
               /\ UNCHANGED << mem, sb, mx, fsleep, wloc, crlist, ncrd, nh, 
                               started, hobj, cpulen, pcpu, tcrd, mycpu, slot, 
                               smask, bpsaved, nest, hsize, nw, nk, nrw, wk, 
                               reg, rnest, ncs, ingp, gpstuck, forked, inchild, 
                               gone, forker, bdone, flags, cnt, called, queued, 
                               bsnap, alive, errs, pci, opx, pa, hd, tl, old, 
                               cur, nx, cbc, en, ec, wc, gd, fc, dc, newc, 
                               cidef, cn, bk, regs, kk, om, tgt, asz, cl, ord, 
                               gps, stack >>

qw_fwait(self) == /\ pc[self] = "qw_fwait"
                  /\ Drained(self)
                  /\ IF mem[FutexOf(WQ)] = -1
                        THEN /\ fsleep' = (fsleep \cup {self})
                             /\ wloc' = [wloc EXCEPT ![self] = FutexOf(WQ)]
                             /\ acc' = Ev(self, "fwait", FutexOf(WQ), "-1", "-", "SLEEP")
                             /\ pc' = [pc EXCEPT ![self] = "qw_fwoke"]
                        ELSE /\ acc' = Ev(self, "fwait", FutexOf(WQ), "-1", "-", "EAGAIN")
                             /\ pc' = [pc EXCEPT ![self] = "qw_dec"]
                             /\ UNCHANGED << fsleep, wloc >>
                  /\ UNCHANGED << mem, sb, mx, crlist, ncrd, nh, started, hobj, 
                                  cpulen, pcpu, tcrd, mycpu, slot, smask, 
                                  bpsaved, nest, hsize, nw, nk, nrw, wk, reg, 
                                  rnest, ncs, ingp, gpstuck, forked, inchild, 
                                  gone, forker, bdone, flags, cnt, called, 
                                  queued, bsnap, alive, uaf, errs, pci, opx, 
                                  iv, pa, hd, tl, old, cur, nx, cbc, en, ec, 
                                  wc, gd, fc, dc, newc, cidef, cn, bk, regs, 
                                  kk, om, tgt, asz, cl, ord, gps, stack >>

qw_fwoke(self) == /\ pc[self] = "qw_fwoke"
                  /\ self \notin fsleep
                  /\ acc' = Ev(self, "fwoke", FutexOf(WQ), "-", "-", "WAKE")
                  /\ pc' = [pc EXCEPT ![self] = "qw_ld"]
                  /\ UNCHANGED << mem, sb, mx, fsleep, wloc, crlist, ncrd, nh, 
                                  started, hobj, cpulen, pcpu, tcrd, mycpu, 
                                  slot, smask, bpsaved, nest, hsize, nw, nk, 
                                  nrw, wk, reg, rnest, ncs, ingp, gpstuck, 
                                  forked, inchild, gone, forker, bdone, flags, 
                                  cnt, called, queued, bsnap, alive, uaf, errs, 
                                  pci, opx, iv, pa, hd, tl, old, cur, nx, cbc, 
                                  en, ec, wc, gd, fc, dc, newc, cidef, cn, bk, 
                                  regs, kk, om, tgt, asz, cl, ord, gps, stack >>

qw_dec(self) == /\ pc[self] = "qw_dec"
                /\ Drained(self)
                /\ acc' = Ev(self, "dec", (FutexOf(WQ)), "-", "-", ToString((Dec(mem[FutexOf(WQ)]))))
                /\ uaf' = (uaf \/ Dead((FutexOf(WQ))))
                /\ mem' = [mem EXCEPT ![(FutexOf(WQ))] = Dec(mem[FutexOf(WQ)])]
                /\ pc' = [pc EXCEPT ![self] = "qw_mb2"]
                /\ UNCHANGED << sb, mx, fsleep, wloc, crlist, ncrd, nh, 
                                started, hobj, cpulen, pcpu, tcrd, mycpu, slot, 
                                smask, bpsaved, nest, hsize, nw, nk, nrw, wk, 
                                reg, rnest, ncs, ingp, gpstuck, forked, 
                                inchild, gone, forker, bdone, flags, cnt, 
                                called, queued, bsnap, alive, errs, pci, opx, 
                                iv, pa, hd, tl, old, cur, nx, cbc, en, ec, wc, 
                                gd, fc, dc, newc, cidef, cn, bk, regs, kk, om, 
                                tgt, asz, cl, ord, gps, stack >>

qw_mb2(self) == /\ pc[self] = "qw_mb2"
                /\ Drained(self)
                /\ pc' = [pc EXCEPT ![self] = "q_top"]
                /\ UNCHANGED << mem, sb, mx, acc, fsleep, wloc, crlist, ncrd, 
                                nh, started, hobj, cpulen, pcpu, tcrd, mycpu, 
                                slot, smask, bpsaved, nest, hsize, nw, nk, nrw, 
                                wk, reg, rnest, ncs, ingp, gpstuck, forked, 
                                inchild, gone, forker, bdone, flags, cnt, 
                                called, queued, bsnap, alive, uaf, errs, pci, 
                                opx, iv, pa, hd, tl, old, cur, nx, cbc, en, ec, 
                                wc, gd, fc, dc, newc, cidef, cn, bk, regs, kk, 
                                om, tgt, asz, cl, ord, gps, stack >>

helper(self) == h_idle(self) \/ h_flags(self) \/ h_reg(self)
                   \/ h_dec0(self) \/ h_mb0(self) \/ h_top(self)
                   \/ p_unreg(self) \/ p_or(self) \/ p_wait(self)
                   \/ p_and(self) \/ p_reg(self) \/ s_e1(self)
                   \/ s_e2(self) \/ s_xh(self) \/ s_lt(self) \/ s_mb(self)
                   \/ s_xt(self) \/ h_gp(self) \/ it_ld(self)
                   \/ it_inv(self) \/ h_sub(self) \/ h_stop(self)
                   \/ h_e1(self) \/ h_e2(self) \/ w_mb(self) \/ w_ld(self)
                   \/ w_fwait(self) \/ w_fwoke(self) \/ w_dec(self)
                   \/ w_mb2(self) \/ q_flags(self) \/ q_dec0(self)
                   \/ q_mb0(self) \/ q_top(self) \/ qp_or(self)
                   \/ qp_wait(self) \/ qp_and(self) \/ qs_e1(self)
                   \/ qs_e2(self) \/ qs_xh(self) \/ qs_lt(self)
                   \/ qs_mb(self) \/ qs_xt(self) \/ qi_ld(self)
                   \/ rz_lock(self) \/ rz_reg(self) \/ rz_do(self)
                   \/ rz_unreg(self) \/ rz_unl(self) \/ qi_nxt(self)
                   \/ q_sub(self) \/ q_stop(self) \/ q_e1(self)
                   \/ q_e2(self) \/ qw_mb(self) \/ qw_ld(self)
                   \/ qw_fwait(self) \/ qw_fwoke(self) \/ qw_dec(self)
                   \/ qw_mb2(self)

t_top(self) == /\ pc[self] = "t_top"
               /\ IF pci[self] <= Len(Prog[self])
                     THEN /\ opx' = [opx EXCEPT ![self] = Prog[self][pci[self]]]
                          /\ IF ~Applies(Prog[self][pci[self]])
                                THEN /\ pci' = [pci EXCEPT ![self] = pci[self] + 1]
                                     /\ pc' = [pc EXCEPT ![self] = "t_top"]
                                     /\ UNCHANGED << acc, mycpu, called, bsnap, 
                                                     cn >>
                                ELSE /\ IF Prog[self][pci[self]].op = "cpu"
                                           THEN /\ mycpu' = [mycpu EXCEPT ![self] = Prog[self][pci[self]].n]
                                                /\ pci' = [pci EXCEPT ![self] = pci[self] + 1]
                                                /\ pc' = [pc EXCEPT ![self] = "t_top"]
                                                /\ UNCHANGED << acc, called, 
                                                                bsnap, cn >>
                                           ELSE /\ IF Prog[self][pci[self]].op \in {"waitf", "waitb", "wait", "post"}
                                                      THEN /\ pc' = [pc EXCEPT ![self] = "t_waitf"]
                                                           /\ UNCHANGED << acc, 
                                                                           called, 
                                                                           bsnap, 
                                                                           cn >>
                                                      ELSE /\ acc' = Ev(self, "call", Prog[self][pci[self]].op, IF Prog[self][pci[self]].op = "call" THEN ToString(Prog[self][pci[self]].n) ELSE "-", "-", "-")
                                                           /\ IF Prog[self][pci[self]].op = "call"
                                                                 THEN /\ cn' = [cn EXCEPT ![self] = NName(Prog[self][pci[self]].n)]
                                                                      /\ called' = (called \cup {NName(Prog[self][pci[self]].n)})
                                                                      /\ bsnap' = bsnap
                                                                 ELSE /\ IF Prog[self][pci[self]].op = "barrier"
                                                                            THEN /\ bsnap' = [bsnap EXCEPT ![self] = queued]
                                                                            ELSE /\ TRUE
                                                                                 /\ bsnap' = bsnap
                                                                      /\ UNCHANGED << called, 
                                                                                      cn >>
                                                           /\ pc' = [pc EXCEPT ![self] = "t_disp"]
                                                /\ UNCHANGED << mycpu, pci >>
                     ELSE /\ pc' = [pc EXCEPT ![self] = "t_fin"]
                          /\ UNCHANGED << acc, mycpu, called, bsnap, pci, opx, 
                                          cn >>
               /\ UNCHANGED << mem, sb, mx, fsleep, wloc, crlist, ncrd, nh, 
                               started, hobj, cpulen, pcpu, tcrd, slot, smask, 
                               bpsaved, nest, hsize, nw, nk, nrw, wk, reg, 
                               rnest, ncs, ingp, gpstuck, forked, inchild, 
                               gone, forker, bdone, flags, cnt, queued, alive, 
                               uaf, errs, iv, pa, hd, tl, old, cur, nx, cbc, 
                               en, ec, wc, gd, fc, dc, newc, cidef, bk, regs, 
                               kk, om, tgt, asz, cl, ord, gps, stack >>

t_disp(self) == /\ pc[self] = "t_disp"
                /\ IF opx[self].op = "call"
                      THEN /\ stack' = [stack EXCEPT ![self] = << [ procedure |->  "call_rcu",
                                                                    pc        |->  "t_ret" ] >>
                                                                \o stack[self]]
                           /\ pc' = [pc EXCEPT ![self] = "cr_rl"]
                           /\ tcrd' = tcrd
                      ELSE /\ IF opx[self].op = "sync"
                                 THEN /\ IF Flavor = "bp"
                                            THEN /\ stack' = [stack EXCEPT ![self] = << [ procedure |->  "bp_sync",
                                                                                          pc        |->  "t_ret" ] >>
                                                                                      \o stack[self]]
                                                 /\ pc' = [pc EXCEPT ![self] = "bs_mask"]
                                            ELSE /\ stack' = [stack EXCEPT ![self] = << [ procedure |->  "gp",
                                                                                          pc        |->  "t_ret" ] >>
                                                                                      \o stack[self]]
                                                 /\ pc' = [pc EXCEPT ![self] = "gp_b"]
                                      /\ tcrd' = tcrd
                                 ELSE /\ IF opx[self].op = "barrier"
                                            THEN /\ stack' = [stack EXCEPT ![self] = << [ procedure |->  "barrier",
                                                                                          pc        |->  "t_ret" ] >>
                                                                                      \o stack[self]]
                                                 /\ pc' = [pc EXCEPT ![self] = "b_lock"]
                                                 /\ tcrd' = tcrd
                                            ELSE /\ IF opx[self].op = "rl"
                                                       THEN /\ pc' = [pc EXCEPT ![self] = "t_rl"]
                                                            /\ UNCHANGED << tcrd, 
                                                                            stack >>
                                                       ELSE /\ IF opx[self].op = "ru"
                                                                  THEN /\ stack' = [stack EXCEPT ![self] = << [ procedure |->  "runlock",
                                                                                                                pc        |->  "t_ret" ] >>
                                                                                                            \o stack[self]]
                                                                       /\ pc' = [pc EXCEPT ![self] = "ru_mb"]
                                                                       /\ tcrd' = tcrd
                                                                  ELSE /\ IF opx[self].op = "reg"
                                                                             THEN /\ IF Flavor = "bp"
                                                                                        THEN /\ IF self \notin reg
                                                                                                   THEN /\ stack' = [stack EXCEPT ![self] = << [ procedure |->  "bp_register",
                                                                                                                                                 pc        |->  "t_ret" ] >>
                                                                                                                                             \o stack[self]]
                                                                                                        /\ pc' = [pc EXCEPT ![self] = "br_mask"]
                                                                                                   ELSE /\ pc' = [pc EXCEPT ![self] = "t_ret"]
                                                                                                        /\ stack' = stack
                                                                                        ELSE /\ stack' = [stack EXCEPT ![self] = << [ procedure |->  "register",
                                                                                                                                      pc        |->  "t_ret" ] >>
                                                                                                                                  \o stack[self]]
                                                                                             /\ pc' = [pc EXCEPT ![self] = "rg_lock"]
                                                                                  /\ tcrd' = tcrd
                                                                             ELSE /\ IF opx[self].op = "unreg"
                                                                                        THEN /\ stack' = [stack EXCEPT ![self] = << [ procedure |->  "unregister",
                                                                                                                                      pc        |->  "t_ret" ] >>
                                                                                                                                  \o stack[self]]
                                                                                             /\ pc' = [pc EXCEPT ![self] = "ug_lock"]
                                                                                             /\ tcrd' = tcrd
                                                                                        ELSE /\ IF opx[self].op = "create"
                                                                                                   THEN /\ pc' = [pc EXCEPT ![self] = "t_crl"]
                                                                                                        /\ UNCHANGED << tcrd, 
                                                                                                                        stack >>
                                                                                                   ELSE /\ IF opx[self].op = "setthr"
                                                                                                              THEN /\ tcrd' = [tcrd EXCEPT ![self] = IF opx[self].x < 0 THEN NULL ELSE slot[opx[self].x]]
                                                                                                                   /\ pc' = [pc EXCEPT ![self] = "t_ret"]
                                                                                                                   /\ stack' = stack
                                                                                                              ELSE /\ IF opx[self].op = "setcpu"
                                                                                                                         THEN /\ pc' = [pc EXCEPT ![self] = "t_scl"]
                                                                                                                              /\ stack' = stack
                                                                                                                         ELSE /\ IF opx[self].op = "before"
                                                                                                                                    THEN /\ stack' = [stack EXCEPT ![self] = << [ procedure |->  "before_fork",
                                                                                                                                                                                  pc        |->  "t_ret" ] >>
                                                                                                                                                                              \o stack[self]]
                                                                                                                                         /\ pc' = [pc EXCEPT ![self] = "bf_lock"]
                                                                                                                                    ELSE /\ IF opx[self].op = "after"
                                                                                                                                               THEN /\ IF inchild
                                                                                                                                                          THEN /\ stack' = [stack EXCEPT ![self] = << [ procedure |->  "after_child",
                                                                                                                                                                                                        pc        |->  "t_ret" ] >>
                                                                                                                                                                                                    \o stack[self]]
                                                                                                                                                               /\ pc' = [pc EXCEPT ![self] = "ac_unl"]
                                                                                                                                                          ELSE /\ stack' = [stack EXCEPT ![self] = << [ procedure |->  "after_parent",
                                                                                                                                                                                                        pc        |->  "t_ret" ] >>
                                                                                                                                                                                                    \o stack[self]]
                                                                                                                                                               /\ pc' = [pc EXCEPT ![self] = "af_0"]
                                                                                                                                               ELSE /\ IF opx[self].op = "before2"
                                                                                                                                                          THEN /\ stack' = [stack EXCEPT ![self] = << [ procedure |->  "lf_before",
                                                                                                                                                                                                        pc        |->  "t_ret" ] >>
                                                                                                                                                                                                    \o stack[self]]
                                                                                                                                                               /\ pc' = [pc EXCEPT ![self] = "lb_nest"]
                                                                                                                                                          ELSE /\ IF opx[self].op = "after2"
                                                                                                                                                                     THEN /\ IF inchild
                                                                                                                                                                                THEN /\ stack' = [stack EXCEPT ![self] = << [ procedure |->  "lf_after_child",
                                                                                                                                                                                                                              pc        |->  "t_ret" ] >>
                                                                                                                                                                                                                          \o stack[self]]
                                                                                                                                                                                     /\ pc' = [pc EXCEPT ![self] = "lc_nest"]
                                                                                                                                                                                ELSE /\ stack' = [stack EXCEPT ![self] = << [ procedure |->  "lf_after_parent",
                                                                                                                                                                                                                              pc        |->  "t_ret" ] >>
                                                                                                                                                                                                                          \o stack[self]]
                                                                                                                                                                                     /\ pc' = [pc EXCEPT ![self] = "lp_nest"]
                                                                                                                                                                     ELSE /\ IF opx[self].op = "bpbefore"
                                                                                                                                                                                THEN /\ stack' = [stack EXCEPT ![self] = << [ procedure |->  "bp_before",
                                                                                                                                                                                                                              pc        |->  "t_ret" ] >>
                                                                                                                                                                                                                          \o stack[self]]
                                                                                                                                                                                     /\ pc' = [pc EXCEPT ![self] = "bb_mask"]
                                                                                                                                                                                ELSE /\ IF opx[self].op = "bpafter"
                                                                                                                                                                                           THEN /\ IF inchild
                                                                                                                                                                                                      THEN /\ stack' = [stack EXCEPT ![self] = << [ procedure |->  "bp_after_child",
                                                                                                                                                                                                                                                    pc        |->  "t_ret" ] >>
                                                                                                                                                                                                                                                \o stack[self]]
                                                                                                                                                                                                           /\ pc' = [pc EXCEPT ![self] = "bc_url"]
                                                                                                                                                                                                      ELSE /\ stack' = [stack EXCEPT ![self] = << [ procedure |->  "bp_after_parent",
                                                                                                                                                                                                                                                    pc        |->  "t_ret" ] >>
                                                                                                                                                                                                                                                \o stack[self]]
                                                                                                                                                                                                           /\ pc' = [pc EXCEPT ![self] = "ba_url"]
                                                                                                                                                                                           ELSE /\ IF opx[self].op = "fork"
                                                                                                                                                                                                      THEN /\ pc' = [pc EXCEPT ![self] = "t_fork"]
                                                                                                                                                                                                      ELSE /\ IF opx[self].op = "add"
                                                                                                                                                                                                                 THEN /\ pc' = [pc EXCEPT ![self] = "t_add"]
                                                                                                                                                                                                                 ELSE /\ IF opx[self].op = "resize"
                                                                                                                                                                                                                            THEN /\ pc' = [pc EXCEPT ![self] = "t_rs1"]
                                                                                                                                                                                                                            ELSE /\ pc' = [pc EXCEPT ![self] = "t_htw"]
                                                                                                                                                                                                /\ stack' = stack
                                                                                                                   /\ tcrd' = tcrd
                /\ UNCHANGED << mem, sb, mx, acc, fsleep, wloc, crlist, ncrd, 
                                nh, started, hobj, cpulen, pcpu, mycpu, slot, 
                                smask, bpsaved, nest, hsize, nw, nk, nrw, wk, 
                                reg, rnest, ncs, ingp, gpstuck, forked, 
                                inchild, gone, forker, bdone, flags, cnt, 
                                called, queued, bsnap, alive, uaf, errs, pci, 
                                opx, iv, pa, hd, tl, old, cur, nx, cbc, en, ec, 
                                wc, gd, fc, dc, newc, cidef, cn, bk, regs, kk, 
                                om, tgt, asz, cl, ord, gps >>

t_ret(self) == /\ pc[self] = "t_ret"
               /\ IF opx[self].op = "call"
                     THEN /\ queued' = (queued \cup {cn[self]})
                          /\ UNCHANGED << bdone, errs >>
                     ELSE /\ IF opx[self].op = "barrier"
                                THEN /\ IF \E n \in bsnap[self] : cnt[n] # 1
                                           THEN /\ errs' = (errs \cup {"BarrierComplete"})
                                           ELSE /\ TRUE
                                                /\ errs' = errs
                                     /\ bdone' = bdone
                                ELSE /\ IF opx[self].op = "before"
                                           THEN /\ bdone' = TRUE
                                                /\ errs' = errs
                                           ELSE /\ IF opx[self].op = "after"
                                                      THEN /\ errs' = (errs \cup (IF Ht /\ nest # 0 THEN {"NestBalanced"} ELSE {}) \cup (IF inchild /\ tcrd[self] # NULL THEN {"ChildThreadCrd"} ELSE {})
                                                                       \cup (IF Ht /\ (mx[FM] # "free" \/ Has(mem[FlagsOf(WQ)], WPAUSE)) THEN {"WorkerResumed"} ELSE {}))
                                                      ELSE /\ IF opx[self].op = "bpafter" /\ inchild
                                                                 THEN /\ IF reg \ {self} # {}
                                                                            THEN /\ errs' = (errs \cup {"ChildRegistry"})
                                                                            ELSE /\ TRUE
                                                                                 /\ errs' = errs
                                                                 ELSE /\ TRUE
                                                                      /\ errs' = errs
                                                /\ bdone' = bdone
                          /\ UNCHANGED queued
               /\ acc' = Ev(self, "ret", opx[self].op, "-", "-", "-")
               /\ pci' = [pci EXCEPT ![self] = pci[self] + 1]
               /\ pc' = [pc EXCEPT ![self] = "t_top"]
               /\ UNCHANGED << mem, sb, mx, fsleep, wloc, crlist, ncrd, nh, 
                               started, hobj, cpulen, pcpu, tcrd, mycpu, slot, 
                               smask, bpsaved, nest, hsize, nw, nk, nrw, wk, 
                               reg, rnest, ncs, ingp, gpstuck, forked, inchild, 
                               gone, forker, flags, cnt, called, bsnap, alive, 
                               uaf, opx, iv, pa, hd, tl, old, cur, nx, cbc, en, 
                               ec, wc, gd, fc, dc, newc, cidef, cn, bk, regs, 
                               kk, om, tgt, asz, cl, ord, gps, stack >>

t_rl(self) == /\ pc[self] = "t_rl"
              /\ IF Flavor = "bp" /\ self \notin reg
                    THEN /\ stack' = [stack EXCEPT ![self] = << [ procedure |->  "bp_register",
                                                                  pc        |->  "t_rl2" ] >>
                                                              \o stack[self]]
                         /\ pc' = [pc EXCEPT ![self] = "br_mask"]
                    ELSE /\ pc' = [pc EXCEPT ![self] = "t_rl2"]
                         /\ stack' = stack
              /\ UNCHANGED << mem, sb, mx, acc, fsleep, wloc, crlist, ncrd, nh, 
                              started, hobj, cpulen, pcpu, tcrd, mycpu, slot, 
                              smask, bpsaved, nest, hsize, nw, nk, nrw, wk, 
                              reg, rnest, ncs, ingp, gpstuck, forked, inchild, 
                              gone, forker, bdone, flags, cnt, called, queued, 
                              bsnap, alive, uaf, errs, pci, opx, iv, pa, hd, 
                              tl, old, cur, nx, cbc, en, ec, wc, gd, fc, dc, 
                              newc, cidef, cn, bk, regs, kk, om, tgt, asz, cl, 
                              ord, gps >>

t_rl2(self) == /\ pc[self] = "t_rl2"
               /\ stack' = [stack EXCEPT ![self] = << [ procedure |->  "rlock",
                                                        pc        |->  "t_rl3" ] >>
                                                    \o stack[self]]
               /\ pc' = [pc EXCEPT ![self] = "rl_st"]
               /\ UNCHANGED << mem, sb, mx, acc, fsleep, wloc, crlist, ncrd, 
                               nh, started, hobj, cpulen, pcpu, tcrd, mycpu, 
                               slot, smask, bpsaved, nest, hsize, nw, nk, nrw, 
                               wk, reg, rnest, ncs, ingp, gpstuck, forked, 
                               inchild, gone, forker, bdone, flags, cnt, 
                               called, queued, bsnap, alive, uaf, errs, pci, 
                               opx, iv, pa, hd, tl, old, cur, nx, cbc, en, ec, 
                               wc, gd, fc, dc, newc, cidef, cn, bk, regs, kk, 
                               om, tgt, asz, cl, ord, gps >>

t_rl3(self) == /\ pc[self] = "t_rl3"
               /\ pc' = [pc EXCEPT ![self] = "t_ret"]
               /\ UNCHANGED << mem, sb, mx, acc, fsleep, wloc, crlist, ncrd, 
                               nh, started, hobj, cpulen, pcpu, tcrd, mycpu, 
                               slot, smask, bpsaved, nest, hsize, nw, nk, nrw, 
                               wk, reg, rnest, ncs, ingp, gpstuck, forked, 
                               inchild, gone, forker, bdone, flags, cnt, 
                               called, queued, bsnap, alive, uaf, errs, pci, 
                               opx, iv, pa, hd, tl, old, cur, nx, cbc, en, ec, 
                               wc, gd, fc, dc, newc, cidef, cn, bk, regs, kk, 
                               om, tgt, asz, cl, ord, gps, stack >>

t_crl(self) == /\ pc[self] = "t_crl"
               /\ Drained(self) /\ mx[CM] = "free"
               /\ mx' = [mx EXCEPT ![CM] = self]
               /\ acc' = Ev(self, "lock", CM, "-", "-", "-")
               /\ cidef' = [cidef EXCEPT ![self] = FALSE]
               /\ stack' = [stack EXCEPT ![self] = << [ procedure |->  "data_init",
                                                        pc        |->  "t_cru" ] >>
                                                    \o stack[self]]
               /\ pc' = [pc EXCEPT ![self] = "ci_new"]
               /\ UNCHANGED << mem, sb, fsleep, wloc, crlist, ncrd, nh, 
                               started, hobj, cpulen, pcpu, tcrd, mycpu, slot, 
                               smask, bpsaved, nest, hsize, nw, nk, nrw, wk, 
                               reg, rnest, ncs, ingp, gpstuck, forked, inchild, 
                               gone, forker, bdone, flags, cnt, called, queued, 
                               bsnap, alive, uaf, errs, pci, opx, iv, pa, hd, 
                               tl, old, cur, nx, cbc, en, ec, wc, gd, fc, dc, 
                               newc, cn, bk, regs, kk, om, tgt, asz, cl, ord, 
                               gps >>

t_cru(self) == /\ pc[self] = "t_cru"
               /\ slot' = [slot EXCEPT ![opx[self].x] = newc[self]]
               /\ Drained(self)
               /\ mx' = [mx EXCEPT ![CM] = "free"]
               /\ acc' = Ev(self, "unlock", CM, "-", "-", "-")
               /\ pc' = [pc EXCEPT ![self] = "t_ret"]
               /\ UNCHANGED << mem, sb, fsleep, wloc, crlist, ncrd, nh, 
                               started, hobj, cpulen, pcpu, tcrd, mycpu, smask, 
                               bpsaved, nest, hsize, nw, nk, nrw, wk, reg, 
                               rnest, ncs, ingp, gpstuck, forked, inchild, 
                               gone, forker, bdone, flags, cnt, called, queued, 
                               bsnap, alive, uaf, errs, pci, opx, iv, pa, hd, 
                               tl, old, cur, nx, cbc, en, ec, wc, gd, fc, dc, 
                               newc, cidef, cn, bk, regs, kk, om, tgt, asz, cl, 
                               ord, gps, stack >>

t_scl(self) == /\ pc[self] = "t_scl"
               /\ Drained(self) /\ mx[CM] = "free"
               /\ mx' = [mx EXCEPT ![CM] = self]
               /\ acc' = Ev(self, "lock", CM, "-", "-", "-")
               /\ pc' = [pc EXCEPT ![self] = "t_scu"]
               /\ UNCHANGED << mem, sb, fsleep, wloc, crlist, ncrd, nh, 
                               started, hobj, cpulen, pcpu, tcrd, mycpu, slot, 
                               smask, bpsaved, nest, hsize, nw, nk, nrw, wk, 
                               reg, rnest, ncs, ingp, gpstuck, forked, inchild, 
                               gone, forker, bdone, flags, cnt, called, queued, 
                               bsnap, alive, uaf, errs, pci, opx, iv, pa, hd, 
                               tl, old, cur, nx, cbc, en, ec, wc, gd, fc, dc, 
                               newc, cidef, cn, bk, regs, kk, om, tgt, asz, cl, 
                               ord, gps, stack >>

t_scu(self) == /\ pc[self] = "t_scu"
               /\ cpulen' = NCpu
               /\ pcpu' = [pcpu EXCEPT ![opx[self].n] = IF opx[self].x < 0 THEN NULL ELSE slot[opx[self].x]]
               /\ Drained(self)
               /\ mx' = [mx EXCEPT ![CM] = "free"]
               /\ acc' = Ev(self, "unlock", CM, "-", "-", "-")
               /\ pc' = [pc EXCEPT ![self] = "t_ret"]
               /\ UNCHANGED << mem, sb, fsleep, wloc, crlist, ncrd, nh, 
                               started, hobj, tcrd, mycpu, slot, smask, 
                               bpsaved, nest, hsize, nw, nk, nrw, wk, reg, 
                               rnest, ncs, ingp, gpstuck, forked, inchild, 
                               gone, forker, bdone, flags, cnt, called, queued, 
                               bsnap, alive, uaf, errs, pci, opx, iv, pa, hd, 
                               tl, old, cur, nx, cbc, en, ec, wc, gd, fc, dc, 
                               newc, cidef, cn, bk, regs, kk, om, tgt, asz, cl, 
                               ord, gps, stack >>

t_fork(self) == /\ pc[self] = "t_fork"
                /\ Drained(self)
                /\ forked' = TRUE
                /\ forker' = self
                /\ IF Follow = "C"
                      THEN /\ inchild' = TRUE
                           /\ gone' = ((Threads \ {self}) \cup {h \in Helpers : started[h]})
                           /\ sb' = [p \in Procs |-> IF p = self THEN sb[p] ELSE <<>>]
                           /\ fsleep' = {}
                           /\ gpstuck' = ((ingp \ {self}) # {})
                      ELSE /\ TRUE
                           /\ UNCHANGED << sb, fsleep, gpstuck, inchild, gone >>
                /\ acc' = Ev(self, "fork", "-", "-", "-", "-")
                /\ pc' = [pc EXCEPT ![self] = "t_ret"]
                /\ UNCHANGED << mem, mx, wloc, crlist, ncrd, nh, started, hobj, 
                                cpulen, pcpu, tcrd, mycpu, slot, smask, 
                                bpsaved, nest, hsize, nw, nk, nrw, wk, reg, 
                                rnest, ncs, ingp, bdone, flags, cnt, called, 
                                queued, bsnap, alive, uaf, errs, pci, opx, iv, 
                                pa, hd, tl, old, cur, nx, cbc, en, ec, wc, gd, 
                                fc, dc, newc, cidef, cn, bk, regs, kk, om, tgt, 
                                asz, cl, ord, gps, stack >>

t_add(self) == /\ pc[self] = "t_add"
               /\ stack' = [stack EXCEPT ![self] = << [ procedure |->  "rlock",
                                                        pc        |->  "t_add1" ] >>
                                                    \o stack[self]]
               /\ pc' = [pc EXCEPT ![self] = "rl_st"]
               /\ UNCHANGED << mem, sb, mx, acc, fsleep, wloc, crlist, ncrd, 
                               nh, started, hobj, cpulen, pcpu, tcrd, mycpu, 
                               slot, smask, bpsaved, nest, hsize, nw, nk, nrw, 
                               wk, reg, rnest, ncs, ingp, gpstuck, forked, 
                               inchild, gone, forker, bdone, flags, cnt, 
                               called, queued, bsnap, alive, uaf, errs, pci, 
                               opx, iv, pa, hd, tl, old, cur, nx, cbc, en, ec, 
                               wc, gd, fc, dc, newc, cidef, cn, bk, regs, kk, 
                               om, tgt, asz, cl, ord, gps >>

t_add1(self) == /\ pc[self] = "t_add1"
                /\ asz' = [asz EXCEPT ![self] = Rd(self, "ht.size")]
                /\ uaf' = (uaf \/ Dead("ht.size"))
                /\ acc' = Ev(self, "ld", "ht.size", "-", "-", SV("ht.size", Rd(self, "ht.size")))
                /\ cl' = [cl EXCEPT ![self] = 3]
                /\ pc' = [pc EXCEPT ![self] = "t_add2"]
                /\ UNCHANGED << mem, sb, mx, fsleep, wloc, crlist, ncrd, nh, 
                                started, hobj, cpulen, pcpu, tcrd, mycpu, slot, 
                                smask, bpsaved, nest, hsize, nw, nk, nrw, wk, 
                                reg, rnest, ncs, ingp, gpstuck, forked, 
                                inchild, gone, forker, bdone, flags, cnt, 
                                called, queued, bsnap, alive, errs, pci, opx, 
                                iv, pa, hd, tl, old, cur, nx, cbc, en, ec, wc, 
                                gd, fc, dc, newc, cidef, cn, bk, regs, kk, om, 
                                tgt, ord, gps, stack >>

t_add2(self) == /\ pc[self] = "t_add2"
                /\ IF cl[self] <= opx[self].n
                      THEN /\ tgt' = [tgt EXCEPT ![self] = IF asz[self] * Pow2(Order(cl[self])) > HtMax THEN HtMax ELSE asz[self] * Pow2(Order(cl[self]))]
                           /\ cl' = [cl EXCEPT ![self] = cl[self] + 1]
                           /\ stack' = [stack EXCEPT ![self] = << [ procedure |->  "lazy_grow",
                                                                    pc        |->  "t_add2" ] >>
                                                                \o stack[self]]
                           /\ pc' = [pc EXCEPT ![self] = "lg_ldt"]
                      ELSE /\ pc' = [pc EXCEPT ![self] = "t_add3"]
                           /\ UNCHANGED << tgt, cl, stack >>
                /\ UNCHANGED << mem, sb, mx, acc, fsleep, wloc, crlist, ncrd, 
                                nh, started, hobj, cpulen, pcpu, tcrd, mycpu, 
                                slot, smask, bpsaved, nest, hsize, nw, nk, nrw, 
                                wk, reg, rnest, ncs, ingp, gpstuck, forked, 
                                inchild, gone, forker, bdone, flags, cnt, 
                                called, queued, bsnap, alive, uaf, errs, pci, 
                                opx, iv, pa, hd, tl, old, cur, nx, cbc, en, ec, 
                                wc, gd, fc, dc, newc, cidef, cn, bk, regs, kk, 
                                om, asz, ord, gps >>

t_add3(self) == /\ pc[self] = "t_add3"
                /\ stack' = [stack EXCEPT ![self] = << [ procedure |->  "runlock",
                                                         pc        |->  "t_add4" ] >>
                                                     \o stack[self]]
                /\ pc' = [pc EXCEPT ![self] = "ru_mb"]
                /\ UNCHANGED << mem, sb, mx, acc, fsleep, wloc, crlist, ncrd, 
                                nh, started, hobj, cpulen, pcpu, tcrd, mycpu, 
                                slot, smask, bpsaved, nest, hsize, nw, nk, nrw, 
                                wk, reg, rnest, ncs, ingp, gpstuck, forked, 
                                inchild, gone, forker, bdone, flags, cnt, 
                                called, queued, bsnap, alive, uaf, errs, pci, 
                                opx, iv, pa, hd, tl, old, cur, nx, cbc, en, ec, 
                                wc, gd, fc, dc, newc, cidef, cn, bk, regs, kk, 
                                om, tgt, asz, cl, ord, gps >>

t_add4(self) == /\ pc[self] = "t_add4"
                /\ pc' = [pc EXCEPT ![self] = "t_ret"]
                /\ UNCHANGED << mem, sb, mx, acc, fsleep, wloc, crlist, ncrd, 
                                nh, started, hobj, cpulen, pcpu, tcrd, mycpu, 
                                slot, smask, bpsaved, nest, hsize, nw, nk, nrw, 
                                wk, reg, rnest, ncs, ingp, gpstuck, forked, 
                                inchild, gone, forker, bdone, flags, cnt, 
                                called, queued, bsnap, alive, uaf, errs, pci, 
                                opx, iv, pa, hd, tl, old, cur, nx, cbc, en, ec, 
                                wc, gd, fc, dc, newc, cidef, cn, bk, regs, kk, 
                                om, tgt, asz, cl, ord, gps, stack >>

t_htw(self) == /\ pc[self] = "t_htw"
               /\ mem[TailOf(WQ)] = Hd(WQ) /\ mem[QlenOf(WQ)] = 0
               /\ pc' = [pc EXCEPT ![self] = "t_ret"]
               /\ UNCHANGED << mem, sb, mx, acc, fsleep, wloc, crlist, ncrd, 
                               nh, started, hobj, cpulen, pcpu, tcrd, mycpu, 
                               slot, smask, bpsaved, nest, hsize, nw, nk, nrw, 
                               wk, reg, rnest, ncs, ingp, gpstuck, forked, 
                               inchild, gone, forker, bdone, flags, cnt, 
                               called, queued, bsnap, alive, uaf, errs, pci, 
                               opx, iv, pa, hd, tl, old, cur, nx, cbc, en, ec, 
                               wc, gd, fc, dc, newc, cidef, cn, bk, regs, kk, 
                               om, tgt, asz, cl, ord, gps, stack >>

t_rs1(self) == /\ pc[self] = "t_rs1"
               /\ IF TSO
                     THEN /\ Len(sb[self]) < SBMax
                          /\ sb' = [sb EXCEPT ![self] = Append(sb[self], <<"ht.target", (opx[self].n)>>)]
                          /\ mem' = mem
                     ELSE /\ mem' = [mem EXCEPT !["ht.target"] = opx[self].n]
                          /\ sb' = sb
               /\ uaf' = (uaf \/ Dead("ht.target"))
               /\ acc' = Ev(self, "st", "ht.target", SV("ht.target", (opx[self].n)), "-", "-")
               /\ pc' = [pc EXCEPT ![self] = "t_rs2"]
               /\ UNCHANGED << mx, fsleep, wloc, crlist, ncrd, nh, started, 
                               hobj, cpulen, pcpu, tcrd, mycpu, slot, smask, 
                               bpsaved, nest, hsize, nw, nk, nrw, wk, reg, 
                               rnest, ncs, ingp, gpstuck, forked, inchild, 
                               gone, forker, bdone, flags, cnt, called, queued, 
                               bsnap, alive, errs, pci, opx, iv, pa, hd, tl, 
                               old, cur, nx, cbc, en, ec, wc, gd, fc, dc, newc, 
                               cidef, cn, bk, regs, kk, om, tgt, asz, cl, ord, 
                               gps, stack >>

t_rs2(self) == /\ pc[self] = "t_rs2"
               /\ IF TSO
                     THEN /\ Len(sb[self]) < SBMax
                          /\ sb' = [sb EXCEPT ![self] = Append(sb[self], <<"ht.init", 1>>)]
                          /\ mem' = mem
                     ELSE /\ mem' = [mem EXCEPT !["ht.init"] = 1]
                          /\ sb' = sb
               /\ uaf' = (uaf \/ Dead("ht.init"))
               /\ acc' = Ev(self, "st", "ht.init", SV("ht.init", 1), "-", "-")
               /\ pc' = [pc EXCEPT ![self] = "t_rs3"]
               /\ UNCHANGED << mx, fsleep, wloc, crlist, ncrd, nh, started, 
                               hobj, cpulen, pcpu, tcrd, mycpu, slot, smask, 
                               bpsaved, nest, hsize, nw, nk, nrw, wk, reg, 
                               rnest, ncs, ingp, gpstuck, forked, inchild, 
                               gone, forker, bdone, flags, cnt, called, queued, 
                               bsnap, alive, errs, pci, opx, iv, pa, hd, tl, 
                               old, cur, nx, cbc, en, ec, wc, gd, fc, dc, newc, 
                               cidef, cn, bk, regs, kk, om, tgt, asz, cl, ord, 
                               gps, stack >>

t_rs3(self) == /\ pc[self] = "t_rs3"
               /\ Drained(self) /\ mx[RM] = "free"
               /\ mx' = [mx EXCEPT ![RM] = self]
               /\ acc' = Ev(self, "lock", RM, "-", "-", "-")
               /\ stack' = [stack EXCEPT ![self] = << [ procedure |->  "do_resize",
                                                        pc        |->  "t_rs4" ] >>
                                                    \o stack[self]]
               /\ pc' = [pc EXCEPT ![self] = "rz_st1"]
               /\ UNCHANGED << mem, sb, fsleep, wloc, crlist, ncrd, nh, 
                               started, hobj, cpulen, pcpu, tcrd, mycpu, slot, 
                               smask, bpsaved, nest, hsize, nw, nk, nrw, wk, 
                               reg, rnest, ncs, ingp, gpstuck, forked, inchild, 
                               gone, forker, bdone, flags, cnt, called, queued, 
                               bsnap, alive, uaf, errs, pci, opx, iv, pa, hd, 
                               tl, old, cur, nx, cbc, en, ec, wc, gd, fc, dc, 
                               newc, cidef, cn, bk, regs, kk, om, tgt, asz, cl, 
                               ord, gps >>

t_rs4(self) == /\ pc[self] = "t_rs4"
               /\ Drained(self)
               /\ mx' = [mx EXCEPT ![RM] = "free"]
               /\ acc' = Ev(self, "unlock", RM, "-", "-", "-")
               /\ IF hsize < opx[self].n
                     THEN /\ errs' = (errs \cup {"ExplicitResize"})
                     ELSE /\ TRUE
                          /\ errs' = errs
               /\ pc' = [pc EXCEPT ![self] = "t_ret"]
               /\ UNCHANGED << mem, sb, fsleep, wloc, crlist, ncrd, nh, 
                               started, hobj, cpulen, pcpu, tcrd, mycpu, slot, 
                               smask, bpsaved, nest, hsize, nw, nk, nrw, wk, 
                               reg, rnest, ncs, ingp, gpstuck, forked, inchild, 
                               gone, forker, bdone, flags, cnt, called, queued, 
                               bsnap, alive, uaf, pci, opx, iv, pa, hd, tl, 
                               old, cur, nx, cbc, en, ec, wc, gd, fc, dc, newc, 
                               cidef, cn, bk, regs, kk, om, tgt, asz, cl, ord, 
                               gps, stack >>

t_waitf(self) == /\ pc[self] = "t_waitf"
                 /\ CASE opx[self].op = "waitf" -> forked
                        [] opx[self].op = "waitb" -> bdone
                        [] opx[self].op = "wait" -> opx[self].n \in flags
                        [] OTHER -> TRUE
                 /\ IF opx[self].op = "post"
                       THEN /\ flags' = (flags \cup {opx[self].n})
                       ELSE /\ TRUE
                            /\ flags' = flags
                 /\ acc' = Ev(self, opx[self].op, "-", IF opx[self].op \in {"post", "wait"} THEN ToString(opx[self].n) ELSE "-", "-", "-")
                 /\ pci' = [pci EXCEPT ![self] = pci[self] + 1]
                 /\ pc' = [pc EXCEPT ![self] = "t_top"]
                 /\ UNCHANGED << mem, sb, mx, fsleep, wloc, crlist, ncrd, nh, 
                                 started, hobj, cpulen, pcpu, tcrd, mycpu, 
                                 slot, smask, bpsaved, nest, hsize, nw, nk, 
                                 nrw, wk, reg, rnest, ncs, ingp, gpstuck, 
                                 forked, inchild, gone, forker, bdone, cnt, 
                                 called, queued, bsnap, alive, uaf, errs, opx, 
                                 iv, pa, hd, tl, old, cur, nx, cbc, en, ec, wc, 
                                 gd, fc, dc, newc, cidef, cn, bk, regs, kk, om, 
                                 tgt, asz, cl, ord, gps, stack >>

t_fin(self) == /\ pc[self] = "t_fin"
               /\ IF forker = self
                     THEN /\ \A n \in queued : cnt[n] >= 1
                          /\ acc' = Ev(self, "allcb", "-", "-", "-", "-")
                     ELSE /\ TRUE
                          /\ acc' = acc
               /\ pc' = [pc EXCEPT ![self] = "t_exit"]
               /\ UNCHANGED << mem, sb, mx, fsleep, wloc, crlist, ncrd, nh, 
                               started, hobj, cpulen, pcpu, tcrd, mycpu, slot, 
                               smask, bpsaved, nest, hsize, nw, nk, nrw, wk, 
                               reg, rnest, ncs, ingp, gpstuck, forked, inchild, 
                               gone, forker, bdone, flags, cnt, called, queued, 
                               bsnap, alive, uaf, errs, pci, opx, iv, pa, hd, 
                               tl, old, cur, nx, cbc, en, ec, wc, gd, fc, dc, 
                               newc, cidef, cn, bk, regs, kk, om, tgt, asz, cl, 
                               ord, gps, stack >>

t_exit(self) == /\ pc[self] = "t_exit"
                /\ Drained(self)
                /\ acc' = Ev(self, "exit", "-", "-", "-", "-")
                /\ pc' = [pc EXCEPT ![self] = "Done"]
                /\ UNCHANGED << mem, sb, mx, fsleep, wloc, crlist, ncrd, nh, 
                                started, hobj, cpulen, pcpu, tcrd, mycpu, slot, 
                                smask, bpsaved, nest, hsize, nw, nk, nrw, wk, 
                                reg, rnest, ncs, ingp, gpstuck, forked, 
                                inchild, gone, forker, bdone, flags, cnt, 
                                called, queued, bsnap, alive, uaf, errs, pci, 
                                opx, iv, pa, hd, tl, old, cur, nx, cbc, en, ec, 
                                wc, gd, fc, dc, newc, cidef, cn, bk, regs, kk, 
                                om, tgt, asz, cl, ord, gps, stack >>

thr(self) == t_top(self) \/ t_disp(self) \/ t_ret(self) \/ t_rl(self)
                \/ t_rl2(self) \/ t_rl3(self) \/ t_crl(self) \/ t_cru(self)
                \/ t_scl(self) \/ t_scu(self) \/ t_fork(self)
                \/ t_add(self) \/ t_add1(self) \/ t_add2(self)
                \/ t_add3(self) \/ t_add4(self) \/ t_htw(self)
                \/ t_rs1(self) \/ t_rs2(self) \/ t_rs3(self) \/ t_rs4(self)
                \/ t_waitf(self) \/ t_fin(self) \/ t_exit(self)

Next == (\E self \in ProcSet:  \/ rlock(self) \/ runlock(self)
                               \/ register(self) \/ unregister(self)
                               \/ bp_register(self) \/ gp(self)
                               \/ bp_sync(self) \/ wake(self)
                               \/ enqueue(self) \/ data_init(self)
                               \/ get_default(self) \/ call_rcu(self)
                               \/ barrier(self) \/ lf_before(self)
                               \/ lf_after_parent(self)
                               \/ lf_after_child(self) \/ before_fork(self)
                               \/ after_parent(self) \/ data_free0(self)
                               \/ after_child(self) \/ bp_before(self)
                               \/ bp_after_parent(self)
                               \/ bp_after_child(self) \/ lazy_grow(self)
                               \/ do_resize(self))
           \/ (\E self \in Flushers: flusher(self))
           \/ (\E self \in Helpers: helper(self))
           \/ (\E self \in Threads: thr(self))

Spec == /\ Init /\ [][Next]_vars
        /\ \A self \in Flushers : WF_vars(flusher(self))
        /\ \A self \in Helpers : /\ WF_vars(helper(self))
                                 /\ WF_vars(bp_register(self))
                                 /\ WF_vars(register(self))
                                 /\ WF_vars(unregister(self))
                                 /\ WF_vars(bp_sync(self))
                                 /\ WF_vars(gp(self))
                                 /\ WF_vars(do_resize(self))
                                 /\ WF_vars(rlock(self))
                                 /\ WF_vars(runlock(self))
        /\ \A self \in Threads : /\ WF_vars(thr(self))
                                 /\ WF_vars(call_rcu(self))
                                 /\ WF_vars(bp_sync(self))
                                 /\ WF_vars(gp(self))
                                 /\ WF_vars(barrier(self))
                                 /\ WF_vars(runlock(self))
                                 /\ WF_vars(bp_register(self))
                                 /\ WF_vars(register(self))
                                 /\ WF_vars(unregister(self))
                                 /\ WF_vars(before_fork(self))
                                 /\ WF_vars(after_child(self))
                                 /\ WF_vars(after_parent(self))
                                 /\ WF_vars(lf_before(self))
                                 /\ WF_vars(lf_after_child(self))
                                 /\ WF_vars(lf_after_parent(self))
                                 /\ WF_vars(bp_before(self))
                                 /\ WF_vars(bp_after_child(self))
                                 /\ WF_vars(bp_after_parent(self))
                                 /\ WF_vars(rlock(self))
                                 /\ WF_vars(data_init(self))
                                 /\ WF_vars(lazy_grow(self))
                                 /\ WF_vars(do_resize(self))
                                 /\ WF_vars(wake(self))
                                 /\ WF_vars(enqueue(self))
                                 /\ WF_vars(get_default(self))
                                 /\ WF_vars(data_free0(self))

\* END TRANSLATION

\* ------------------------------------------------------------------ the next-state relation: threads that do not exist in the child never step
PStep(p) == thr(p) \/ helper(p) \/ rlock(p) \/ runlock(p) \/ register(p) \/ unregister(p) \/ bp_register(p) \/ gp(p) \/ bp_sync(p)
            \/ wake(p) \/ enqueue(p) \/ data_init(p) \/ get_default(p) \/ call_rcu(p) \/ barrier(p)
            \/ lf_before(p) \/ lf_after_parent(p) \/ lf_after_child(p) \/ before_fork(p) \/ after_parent(p) \/ do_resize(p)
            \/ data_free0(p) \/ after_child(p) \/ bp_before(p) \/ bp_after_parent(p) \/ bp_after_child(p) \/ lazy_grow(p)
GNext == (\E p \in Procs \ gone : PStep(p)) \/ (\E f \in Flushers : flusher(f))
GSpec == Init /\ [][GNext]_vars
FairSpec == GSpec /\ (\A p \in Procs : WF_vars(p \notin gone /\ PStep(p))) /\ (\A f \in Flushers : WF_vars(flusher(f)))

LiveThreads == Threads \ gone
AllDone == \A t \in LiveThreads : pc[t] = "Done"
SBBound == \A t \in Procs : Len(sb[t]) <= SBMax

\* a queue as the sequence of nodes reachable from its head (ghost view; links still in a store buffer are not followed)
RECURSIVE Chain(_, _)
Chain(n, k) == IF n = NULL \/ k = 0 THEN <<>> ELSE <<n>> \o Chain(mem[NextOf(n)], k - 1)
QSeq(q) == Chain(mem[NextOf(Hd(q))], Cardinality(QNodes))
Range(s) == {s[i] : i \in DOMAIN s}
LiveHelpers == {h \in Helpers \ gone : started[h]}
\* everything a live helper still has to invoke: its queue and its private (spliced) list
Pending == UNION {Range(QSeq(c)) : c \in {x \in Crdps : alive[x] = "yes"}}
           \cup UNION {Range(Chain(cur[h], Cardinality(QNodes))) : h \in LiveHelpers}

\* C16: per process, a callback is never invoked twice ...
AtMostOnce == \A n \in Nodes : cnt[n] <= 1
\* ... and at quiescence every callback whose call_rcu returned (in this process or, before the fork, in its parent) was invoked once
Quiescent == /\ AllDone /\ \A t \in Procs : sb[t] = <<>>
             /\ \A h \in LiveHelpers : pc[h] \in {"w_fwoke", "qw_fwoke"} /\ h \in fsleep
NoLoss == Quiescent => \A n \in queued : cnt[n] = 1
\* no step of a live thread waits for ever: some live agent can always move until every scenario thread is done
DeadlockFree == AllDone \/ ENABLED GNext
\* the specification's own assertions (BarrierComplete, NestBalanced, ChildRegistry, ChildThreadCrd, double free)
NoErrs == errs = {}
NoUaf == ~uaf
\* the rculfhash atfork nesting counter stays within the number of registered flavors
NestOK == nest \in 0..(IF \E t \in Threads : \E k \in DOMAIN Prog[t] : Prog[t][k].op = "before2" THEN 2 ELSE 1)   \* one level per flavor with a table
\* the child never keeps a mutex of a thread that does not exist once its handlers have run: implied by DeadlockFree / liveness
\* types
TypeOK == /\ \A q \in Qs : mem[FutexOf(q)] \in -2..0 /\ mem[QlenOf(q)] \in -(Cardinality(QNodes))..(Cardinality(QNodes))
          /\ \A m \in Mutexes : mx[m] \in {"free"} \cup Procs
          /\ reg \subseteq Procs /\ gone \subseteq Procs
\* liveness: every scenario thread of the followed process finishes (synchronize_rcu, rcu_barrier, handlers, lazy resize terminate)
Live == <>AllDone
=============================================================================
