-------------------------------- MODULE Wfcq --------------------------------
(***************************************************************************)
(* cds_wfcq (include/urcu/static/wfcqueue.h) at the granularity of one     *)
(* action per shared-memory access, under SC or x86-TSO store buffers.     *)
(*                                                                         *)
(* Threads execute the operation sequences of a scenario (Prog).  Queues   *)
(* are "q1", "q2" (two, so that splice has a source and a destination).    *)
(* Operation records:                                                      *)
(*   [op |-> "enq",    q, n]                    cds_wfcq_enqueue           *)
(*   [op |-> "deq",    q, blk, lck]             (__)cds_wfcq_dequeue_*     *)
(*   [op |-> "splice", q (dest), s (source), blk, lck]                     *)
(*   [op |-> "empty",  q]                       cds_wfcq_empty             *)
(*   [op |-> "iter",   q]                       first/next_blocking walk   *)
(* Property monitors: LinMon over a pair of FIFO sequences (C10), node     *)
(* conservation at quiescence, NULL/LAST results.                          *)
(*                                                                         *)
(* acc is the "last access" ghost used by trace validation and by          *)
(* schedule generation; it only changes when Tracing = TRUE.               *)
(***************************************************************************)
EXTENDS Naturals, Sequences, FiniteSets, TLC

CONSTANTS Threads,    \* set of thread ids (strings)
          Prog,       \* [Threads -> Seq(op record)]
          TSO,        \* TRUE: stores are buffered (x86-TSO); FALSE: sequential consistency
          Tracing,    \* TRUE: maintain acc
          SBMax       \* bound on store-buffer length used by the state constraint

NULL == "NULL"
WB == "WOULDBLOCK"
Queues == {"q1", "q2"}
Hd(q) == "H" \o q                      \* symbolic address of &head->node of queue q
NextOf(n) == n \o ".next"
TailOf(q) == q \o ".tail"
LockOf(q) == q \o ".lock"
OpsOf(t) == {Prog[t][i] : i \in DOMAIN Prog[t]}
AllOps == UNION {OpsOf(t) : t \in Threads}
Nodes == {o.n : o \in {x \in AllOps : x.op = "enq"}}
Locs == {TailOf(q) : q \in Queues} \cup {NextOf(Hd(q)) : q \in Queues} \cup {NextOf(n) : n \in Nodes}
FlId(t) == "F:" \o t
Flushers == {FlId(t) : t \in Threads}
FlOf == [f \in Flushers |-> CHOOSE t \in Threads : FlId(t) = f]

\* ---- abstract object: two FIFO sequences ----
RECURSIVE Join(_)
Join(s) == IF s = <<>> THEN "" ELSE IF Len(s) = 1 THEN s[1] ELSE s[1] \o "," \o Join(Tail(s))
\* abs = [q |-> [Queues -> Seq(Node)], hold |-> [Threads -> Seq(Node)]]; splice is two atomic steps (detach, append)
QApply(abs, o, stage, t) ==
  CASE o.op = "enq"    -> [abs |-> [abs EXCEPT !.q[o.q] = Append(@, o.n)],
                           res |-> IF abs.q[o.q] = <<>> THEN "wasEmpty" ELSE "nonEmpty"]
    [] o.op = "deq"    -> IF abs.q[o.q] = <<>> THEN [abs |-> abs, res |-> NULL]
                          ELSE [abs |-> [abs EXCEPT !.q[o.q] = Tail(@)],
                                res |-> IF Len(abs.q[o.q]) = 1 THEN Head(abs.q[o.q]) \o "/LAST" ELSE Head(abs.q[o.q])]
    [] o.op = "splice" -> IF stage = "@1"
                          THEN [abs |-> [abs EXCEPT !.q[o.q] = @ \o abs.hold[t], !.hold[t] = <<>>],
                                res |-> IF abs.q[o.q] = <<>> THEN "DEST_EMPTY" ELSE "DEST_NON_EMPTY"]
                          ELSE IF abs.q[o.s] = <<>> THEN [abs |-> abs, res |-> "SRC_EMPTY"]
                          ELSE [abs |-> [abs EXCEPT !.hold[t] = abs.q[o.s], !.q[o.s] = <<>>], res |-> "@1"]
    [] o.op = "empty"  -> [abs |-> abs, res |-> IF abs.q[o.q] = <<>> THEN "TRUE" ELSE "FALSE"]
    [] o.op = "iter"   -> [abs |-> abs, res |-> Join(abs.q[o.q])]
LM == INSTANCE LinMon WITH Apply <- QApply, Thr <- Threads

(* --algorithm wfcq {
variables
  mem = [l \in Locs |-> IF l \in {TailOf(q) : q \in Queues}
                        THEN Hd(CHOOSE q \in Queues : TailOf(q) = l) ELSE NULL],
  sb = [t \in Threads |-> <<>>],
  lock = [q \in Queues |-> "free"],
  acc = [k |-> 0],
  pend = [t \in Threads |-> LM!NoOp],
  cfgs = LM!InitCfgs([q |-> [x \in Queues |-> <<>>], hold |-> [t \in Threads |-> <<>>]]),
  deqd = {};                                \* ghost: nodes returned by dequeues (conservation check)

define {
  LastIdx(t, loc) == LET S == {i \in DOMAIN sb[t] : sb[t][i][1] = loc} IN
                     IF S = {} THEN 0 ELSE CHOOSE i \in S : \A j \in S : j <= i
  Rd(t, loc) == IF LastIdx(t, loc) = 0 THEN mem[loc] ELSE sb[t][LastIdx(t, loc)][2]
  Drained(t) == sb[t] = <<>>
  Ev(t, op, var, a, b, r) == IF Tracing THEN [k |-> acc.k + 1, t |-> t, op |-> op, var |-> var, a |-> a, b |-> b, r |-> r] ELSE acc
  Linearizable == cfgs # {}
}

macro Ld(dst, loc)        { dst := Rd(self, loc); acc := Ev(self, "ld", loc, "-", "-", Rd(self, loc)); }
macro St(loc, v)          { if (TSO) { sb[self] := Append(sb[self], <<loc, v>>) } else { mem[loc] := v };
                            acc := Ev(self, "st", loc, v, "-", "-"); }
macro Xchg(dst, loc, v)   { await Drained(self); dst := mem[loc]; mem[loc] := v; acc := Ev(self, "xchg", loc, v, "-", dst); }
macro Cas(dst, loc, o, n) { await Drained(self); dst := mem[loc]; if (mem[loc] = o) { mem[loc] := n };
                            acc := Ev(self, "cas", loc, o, n, dst); }
macro Mb()                { await Drained(self); acc := Ev(self, "mb", "-", "-", "-", "-"); }
macro Lock(q)             { await Drained(self) /\ lock[q] = "free"; lock[q] := self; acc := Ev(self, "lock", LockOf(q), "-", "-", "-"); }
macro Unlock(q)           { await Drained(self); lock[q] := "free"; acc := Ev(self, "unlock", LockOf(q), "-", "-", "-"); }

fair process (flusher \in Flushers) {
fl: while (TRUE) {
      await sb[FlOf[self]] # <<>>;
      mem[Head(sb[FlOf[self]])[1]] := Head(sb[FlOf[self]])[2] || sb[FlOf[self]] := Tail(sb[FlOf[self]])
      || acc := IF Tracing THEN [k |-> acc.k + 1, t |-> FlOf[self], op |-> "flush", var |-> Head(sb[FlOf[self]])[1],
                               a |-> Head(sb[FlOf[self]])[2], b |-> "-", r |-> "-"] ELSE acc;
    }
}

fair process (thr \in Threads)
variables i = 1, op = LM!NoOp, a = NULL, node = NULL, next = NULL, res = NULL, old = NULL, hd = NULL, tl = NULL, seen = <<>>;
{
t_top:  while (i <= Len(Prog[self])) {
          op := Prog[self][i]; pend[self] := Prog[self][i];
          res := NULL; seen := <<>>;
t_disp:   if (op.op = "enq") { goto e_mb }
          else if (op.op = "deq") { goto d_lock }
          else if (op.op = "splice") { goto s_lock }
          else if (op.op = "empty") { goto m_e1 }
          else { goto f_e1 };

        \* ---------------- _cds_wfcq_enqueue -> ___cds_wfcq_append
e_mb:     Mb();                                                  \* cmm_emit_legacy_smp_mb()
e_xchg:   Xchg(old, TailOf(op.q), op.n);                         \* old_tail = uatomic_xchg(&tail->p, new_tail)
e_link:   St(NextOf(old), op.n);                                 \* uatomic_store(&old_tail->next, new_head, RELEASE)
          res := IF old = Hd(op.q) THEN "wasEmpty" ELSE "nonEmpty";
          goto t_ret;

        \* ---------------- (_)__cds_wfcq_dequeue_with_state
d_lock:   if (op.lck) { Lock(op.q) };
d_e1:     Ld(a, NextOf(Hd(op.q)));                               \* _cds_wfcq_empty: head->node.next == NULL
          if (a # NULL) { goto d_sync };
d_e2:     Ld(a, TailOf(op.q));                                   \*                  && tail->p == &head->node
          if (a = Hd(op.q)) { res := NULL; goto d_unlock };
d_sync:   Ld(node, NextOf(Hd(op.q)));                            \* ___cds_wfcq_node_sync_next(&head->node)
          if (node = NULL) { if (op.blk) { goto d_sync } else { res := WB; goto d_unlock } };
d_ldn:    Ld(next, NextOf(node));                                \* next = node->next
          if (next # NULL) { goto d_adv };
d_st0:    St(NextOf(Hd(op.q)), NULL);                            \* _cds_wfcq_node_init_atomic(&head->node)
d_cas:    Cas(a, TailOf(op.q), node, Hd(op.q));                  \* cmpxchg(&tail->p, node, &head->node)
          if (a = node) { res := node \o "/LAST"; goto d_mb };
d_sn2:    Ld(next, NextOf(node));                                \* ___cds_wfcq_node_sync_next(node)
          if (next = NULL) { if (op.blk) { goto d_sn2 } else { goto d_undo } };
d_adv:    St(NextOf(Hd(op.q)), next);                            \* head->node.next = next
          res := node;
d_mb:     Mb();                                                  \* cmm_emit_legacy_smp_mb()
          goto d_unlock;
d_undo:   St(NextOf(Hd(op.q)), node);                            \* WOULDBLOCK: restore head->node.next
          res := WB;
d_unlock: if (op.lck) { Unlock(op.q) };
          goto t_ret;

        \* ---------------- (_)__cds_wfcq_splice: op.s -> op.q
s_lock:   if (op.lck) { Lock(op.s) };
s_e1:     Ld(a, NextOf(Hd(op.s)));
          if (a # NULL) { goto s_xh };
s_e2:     Ld(a, TailOf(op.s));
          if (a = Hd(op.s)) { res := "SRC_EMPTY"; goto s_unlock };
s_xh:     Xchg(hd, NextOf(Hd(op.s)), NULL);                      \* head = uatomic_xchg(&src_q_head->node.next, NULL)
          if (hd # NULL) { goto s_mb };
s_lt:     Ld(a, TailOf(op.s));
          if (a = Hd(op.s)) { res := "SRC_EMPTY"; goto s_unlock }
          else if (op.blk) { goto s_xh } else { res := WB; goto s_unlock };
s_mb:     Mb();
s_xt:     Xchg(tl, TailOf(op.s), Hd(op.s));                      \* tail = uatomic_xchg(&src_q_tail->p, &src_q_head->node)
s_ax:     Xchg(old, TailOf(op.q), tl);                           \* ___cds_wfcq_append(dest, head, tail)
s_al:     St(NextOf(old), hd);
          res := IF old = Hd(op.q) THEN "DEST_EMPTY" ELSE "DEST_NON_EMPTY";
s_unlock: if (op.lck) { Unlock(op.s) };
          goto t_ret;

        \* ---------------- cds_wfcq_empty
m_e1:     Ld(a, NextOf(Hd(op.q)));
          if (a # NULL) { res := "FALSE"; goto t_ret };
m_e2:     Ld(a, TailOf(op.q));
          res := IF a = Hd(op.q) THEN "TRUE" ELSE "FALSE";
          goto t_ret;

        \* ---------------- __cds_wfcq_for_each_blocking: first_blocking / next_blocking
f_e1:     Ld(a, NextOf(Hd(op.q)));
          if (a # NULL) { goto f_sync };
f_e2:     Ld(a, TailOf(op.q));
          if (a = Hd(op.q)) { res := ""; goto t_ret };
f_sync:   Ld(node, NextOf(Hd(op.q)));
          if (node = NULL) { goto f_sync };
f_visit:  seen := Append(seen, node);
n_ld:     Ld(next, NextOf(node));                                \* ___cds_wfcq_next: next = node->next
          if (next # NULL) { node := next; goto f_visit };
n_lt:     Ld(a, TailOf(op.q));                                   \* tail->p == node ?
          if (a = node) { res := Join(seen); goto t_ret };
n_sync:   Ld(next, NextOf(node));
          if (next = NULL) { goto n_sync } else { node := next; goto f_visit };

t_ret:    cfgs := IF res = WB THEN LM!AfterAbort(cfgs, pend, self) ELSE LM!AfterReturn(cfgs, pend, self, res)
          || pend[self] := LM!NoOp;
          if (op.op = "deq" /\ res \notin {NULL, WB}) { assert node \notin deqd; deqd := deqd \cup {node} };
          i := i + 1;
        }
}
} *)
\* BEGIN TRANSLATION
VARIABLES pc, mem, sb, lock, acc, pend, cfgs, deqd

(* define statement *)
LastIdx(t, loc) == LET S == {i \in DOMAIN sb[t] : sb[t][i][1] = loc} IN
                   IF S = {} THEN 0 ELSE CHOOSE i \in S : \A j \in S : j <= i
Rd(t, loc) == IF LastIdx(t, loc) = 0 THEN mem[loc] ELSE sb[t][LastIdx(t, loc)][2]
Drained(t) == sb[t] = <<>>
Ev(t, op, var, a, b, r) == IF Tracing THEN [k |-> acc.k + 1, t |-> t, op |-> op, var |-> var, a |-> a, b |-> b, r |-> r] ELSE acc
Linearizable == cfgs # {}

VARIABLES i, op, a, node, next, res, old, hd, tl, seen

vars == << pc, mem, sb, lock, acc, pend, cfgs, deqd, i, op, a, node, next, 
           res, old, hd, tl, seen >>

ProcSet == (Flushers) \cup (Threads)

Init == (* Global variables *)
        /\ mem = [l \in Locs |-> IF l \in {TailOf(q) : q \in Queues}
                                 THEN Hd(CHOOSE q \in Queues : TailOf(q) = l) ELSE NULL]
        /\ sb = [t \in Threads |-> <<>>]
        /\ lock = [q \in Queues |-> "free"]
        /\ acc = [k |-> 0]
        /\ pend = [t \in Threads |-> LM!NoOp]
        /\ cfgs = LM!InitCfgs([q |-> [x \in Queues |-> <<>>], hold |-> [t \in Threads |-> <<>>]])
        /\ deqd = {}
        (* Process thr *)
        /\ i = [self \in Threads |-> 1]
        /\ op = [self \in Threads |-> LM!NoOp]
        /\ a = [self \in Threads |-> NULL]
        /\ node = [self \in Threads |-> NULL]
        /\ next = [self \in Threads |-> NULL]
        /\ res = [self \in Threads |-> NULL]
        /\ old = [self \in Threads |-> NULL]
        /\ hd = [self \in Threads |-> NULL]
        /\ tl = [self \in Threads |-> NULL]
        /\ seen = [self \in Threads |-> <<>>]
        /\ pc = [self \in ProcSet |-> CASE self \in Flushers -> "fl"
                                        [] self \in Threads -> "t_top"]

fl(self) == /\ pc[self] = "fl"
            /\ sb[FlOf[self]] # <<>>
            /\ /\ acc' = IF Tracing THEN [k |-> acc.k + 1, t |-> FlOf[self], op |-> "flush", var |-> Head(sb[FlOf[self]])[1],
                                        a |-> Head(sb[FlOf[self]])[2], b |-> "-", r |-> "-"] ELSE acc
               /\ mem' = [mem EXCEPT ![Head(sb[FlOf[self]])[1]] = Head(sb[FlOf[self]])[2]]
               /\ sb' = [sb EXCEPT ![FlOf[self]] = Tail(sb[FlOf[self]])]
            /\ pc' = [pc EXCEPT ![self] = "fl"]
            /\ UNCHANGED << lock, pend, cfgs, deqd, i, op, a, node, next, res, 
                            old, hd, tl, seen >>

flusher(self) == fl(self)

t_top(self) == /\ pc[self] = "t_top"
               /\ IF i[self] <= Len(Prog[self])
                     THEN /\ op' = [op EXCEPT ![self] = Prog[self][i[self]]]
                          /\ pend' = [pend EXCEPT ![self] = Prog[self][i[self]]]
                          /\ res' = [res EXCEPT ![self] = NULL]
                          /\ seen' = [seen EXCEPT ![self] = <<>>]
                          /\ pc' = [pc EXCEPT ![self] = "t_disp"]
                     ELSE /\ pc' = [pc EXCEPT ![self] = "Done"]
                          /\ UNCHANGED << pend, op, res, seen >>
               /\ UNCHANGED << mem, sb, lock, acc, cfgs, deqd, i, a, node, 
                               next, old, hd, tl >>

t_disp(self) == /\ pc[self] = "t_disp"
                /\ IF op[self].op = "enq"
                      THEN /\ pc' = [pc EXCEPT ![self] = "e_mb"]
                      ELSE /\ IF op[self].op = "deq"
                                 THEN /\ pc' = [pc EXCEPT ![self] = "d_lock"]
                                 ELSE /\ IF op[self].op = "splice"
                                            THEN /\ pc' = [pc EXCEPT ![self] = "s_lock"]
                                            ELSE /\ IF op[self].op = "empty"
                                                       THEN /\ pc' = [pc EXCEPT ![self] = "m_e1"]
                                                       ELSE /\ pc' = [pc EXCEPT ![self] = "f_e1"]
                /\ UNCHANGED << mem, sb, lock, acc, pend, cfgs, deqd, i, op, a, 
                                node, next, res, old, hd, tl, seen >>

e_mb(self) == /\ pc[self] = "e_mb"
              /\ Drained(self)
              /\ acc' = Ev(self, "mb", "-", "-", "-", "-")
              /\ pc' = [pc EXCEPT ![self] = "e_xchg"]
              /\ UNCHANGED << mem, sb, lock, pend, cfgs, deqd, i, op, a, node, 
                              next, res, old, hd, tl, seen >>

e_xchg(self) == /\ pc[self] = "e_xchg"
                /\ Drained(self)
                /\ old' = [old EXCEPT ![self] = mem[(TailOf(op[self].q))]]
                /\ mem' = [mem EXCEPT ![(TailOf(op[self].q))] = op[self].n]
                /\ acc' = Ev(self, "xchg", (TailOf(op[self].q)), (op[self].n), "-", old'[self])
                /\ pc' = [pc EXCEPT ![self] = "e_link"]
                /\ UNCHANGED << sb, lock, pend, cfgs, deqd, i, op, a, node, 
                                next, res, hd, tl, seen >>

e_link(self) == /\ pc[self] = "e_link"
                /\ IF TSO
                      THEN /\ sb' = [sb EXCEPT ![self] = Append(sb[self], <<(NextOf(old[self])), (op[self].n)>>)]
                           /\ mem' = mem
                      ELSE /\ mem' = [mem EXCEPT ![(NextOf(old[self]))] = op[self].n]
                           /\ sb' = sb
                /\ acc' = Ev(self, "st", (NextOf(old[self])), (op[self].n), "-", "-")
                /\ res' = [res EXCEPT ![self] = IF old[self] = Hd(op[self].q) THEN "wasEmpty" ELSE "nonEmpty"]
                /\ pc' = [pc EXCEPT ![self] = "t_ret"]
                /\ UNCHANGED << lock, pend, cfgs, deqd, i, op, a, node, next, 
                                old, hd, tl, seen >>

d_lock(self) == /\ pc[self] = "d_lock"
                /\ IF op[self].lck
                      THEN /\ Drained(self) /\ lock[(op[self].q)] = "free"
                           /\ lock' = [lock EXCEPT ![(op[self].q)] = self]
                           /\ acc' = Ev(self, "lock", LockOf((op[self].q)), "-", "-", "-")
                      ELSE /\ TRUE
                           /\ UNCHANGED << lock, acc >>
                /\ pc' = [pc EXCEPT ![self] = "d_e1"]
                /\ UNCHANGED << mem, sb, pend, cfgs, deqd, i, op, a, node, 
                                next, res, old, hd, tl, seen >>

d_e1(self) == /\ pc[self] = "d_e1"
              /\ a' = [a EXCEPT ![self] = Rd(self, (NextOf(Hd(op[self].q))))]
              /\ acc' = Ev(self, "ld", (NextOf(Hd(op[self].q))), "-", "-", Rd(self, (NextOf(Hd(op[self].q)))))
              /\ IF a'[self] # NULL
                    THEN /\ pc' = [pc EXCEPT ![self] = "d_sync"]
                    ELSE /\ pc' = [pc EXCEPT ![self] = "d_e2"]
              /\ UNCHANGED << mem, sb, lock, pend, cfgs, deqd, i, op, node, 
                              next, res, old, hd, tl, seen >>

d_e2(self) == /\ pc[self] = "d_e2"
              /\ a' = [a EXCEPT ![self] = Rd(self, (TailOf(op[self].q)))]
              /\ acc' = Ev(self, "ld", (TailOf(op[self].q)), "-", "-", Rd(self, (TailOf(op[self].q))))
              /\ IF a'[self] = Hd(op[self].q)
                    THEN /\ res' = [res EXCEPT ![self] = NULL]
                         /\ pc' = [pc EXCEPT ![self] = "d_unlock"]
                    ELSE /\ pc' = [pc EXCEPT ![self] = "d_sync"]
                         /\ res' = res
              /\ UNCHANGED << mem, sb, lock, pend, cfgs, deqd, i, op, node, 
                              next, old, hd, tl, seen >>

d_sync(self) == /\ pc[self] = "d_sync"
                /\ node' = [node EXCEPT ![self] = Rd(self, (NextOf(Hd(op[self].q))))]
                /\ acc' = Ev(self, "ld", (NextOf(Hd(op[self].q))), "-", "-", Rd(self, (NextOf(Hd(op[self].q)))))
                /\ IF node'[self] = NULL
                      THEN /\ IF op[self].blk
                                 THEN /\ pc' = [pc EXCEPT ![self] = "d_sync"]
                                      /\ res' = res
                                 ELSE /\ res' = [res EXCEPT ![self] = WB]
                                      /\ pc' = [pc EXCEPT ![self] = "d_unlock"]
                      ELSE /\ pc' = [pc EXCEPT ![self] = "d_ldn"]
                           /\ res' = res
                /\ UNCHANGED << mem, sb, lock, pend, cfgs, deqd, i, op, a, 
                                next, old, hd, tl, seen >>

d_ldn(self) == /\ pc[self] = "d_ldn"
               /\ next' = [next EXCEPT ![self] = Rd(self, (NextOf(node[self])))]
               /\ acc' = Ev(self, "ld", (NextOf(node[self])), "-", "-", Rd(self, (NextOf(node[self]))))
               /\ IF next'[self] # NULL
                     THEN /\ pc' = [pc EXCEPT ![self] = "d_adv"]
                     ELSE /\ pc' = [pc EXCEPT ![self] = "d_st0"]
               /\ UNCHANGED << mem, sb, lock, pend, cfgs, deqd, i, op, a, node, 
                               res, old, hd, tl, seen >>

d_st0(self) == /\ pc[self] = "d_st0"
               /\ IF TSO
                     THEN /\ sb' = [sb EXCEPT ![self] = Append(sb[self], <<(NextOf(Hd(op[self].q))), NULL>>)]
                          /\ mem' = mem
                     ELSE /\ mem' = [mem EXCEPT ![(NextOf(Hd(op[self].q)))] = NULL]
                          /\ sb' = sb
               /\ acc' = Ev(self, "st", (NextOf(Hd(op[self].q))), NULL, "-", "-")
               /\ pc' = [pc EXCEPT ![self] = "d_cas"]
               /\ UNCHANGED << lock, pend, cfgs, deqd, i, op, a, node, next, 
                               res, old, hd, tl, seen >>

d_cas(self) == /\ pc[self] = "d_cas"
               /\ Drained(self)
               /\ a' = [a EXCEPT ![self] = mem[(TailOf(op[self].q))]]
               /\ IF mem[(TailOf(op[self].q))] = node[self]
                     THEN /\ mem' = [mem EXCEPT ![(TailOf(op[self].q))] = Hd(op[self].q)]
                     ELSE /\ TRUE
                          /\ mem' = mem
               /\ acc' = Ev(self, "cas", (TailOf(op[self].q)), node[self], (Hd(op[self].q)), a'[self])
               /\ IF a'[self] = node[self]
                     THEN /\ res' = [res EXCEPT ![self] = node[self] \o "/LAST"]
                          /\ pc' = [pc EXCEPT ![self] = "d_mb"]
                     ELSE /\ pc' = [pc EXCEPT ![self] = "d_sn2"]
                          /\ res' = res
               /\ UNCHANGED << sb, lock, pend, cfgs, deqd, i, op, node, next, 
                               old, hd, tl, seen >>

d_sn2(self) == /\ pc[self] = "d_sn2"
               /\ next' = [next EXCEPT ![self] = Rd(self, (NextOf(node[self])))]
               /\ acc' = Ev(self, "ld", (NextOf(node[self])), "-", "-", Rd(self, (NextOf(node[self]))))
               /\ IF next'[self] = NULL
                     THEN /\ IF op[self].blk
                                THEN /\ pc' = [pc EXCEPT ![self] = "d_sn2"]
                                ELSE /\ pc' = [pc EXCEPT ![self] = "d_undo"]
                     ELSE /\ pc' = [pc EXCEPT ![self] = "d_adv"]
               /\ UNCHANGED << mem, sb, lock, pend, cfgs, deqd, i, op, a, node, 
                               res, old, hd, tl, seen >>

d_adv(self) == /\ pc[self] = "d_adv"
               /\ IF TSO
                     THEN /\ sb' = [sb EXCEPT ![self] = Append(sb[self], <<(NextOf(Hd(op[self].q))), next[self]>>)]
                          /\ mem' = mem
                     ELSE /\ mem' = [mem EXCEPT ![(NextOf(Hd(op[self].q)))] = next[self]]
                          /\ sb' = sb
               /\ acc' = Ev(self, "st", (NextOf(Hd(op[self].q))), next[self], "-", "-")
               /\ res' = [res EXCEPT ![self] = node[self]]
               /\ pc' = [pc EXCEPT ![self] = "d_mb"]
               /\ UNCHANGED << lock, pend, cfgs, deqd, i, op, a, node, next, 
                               old, hd, tl, seen >>

d_mb(self) == /\ pc[self] = "d_mb"
              /\ Drained(self)
              /\ acc' = Ev(self, "mb", "-", "-", "-", "-")
              /\ pc' = [pc EXCEPT ![self] = "d_unlock"]
              /\ UNCHANGED << mem, sb, lock, pend, cfgs, deqd, i, op, a, node, 
                              next, res, old, hd, tl, seen >>

d_undo(self) == /\ pc[self] = "d_undo"
                /\ IF TSO
                      THEN /\ sb' = [sb EXCEPT ![self] = Append(sb[self], <<(NextOf(Hd(op[self].q))), node[self]>>)]
                           /\ mem' = mem
                      ELSE /\ mem' = [mem EXCEPT ![(NextOf(Hd(op[self].q)))] = node[self]]
                           /\ sb' = sb
                /\ acc' = Ev(self, "st", (NextOf(Hd(op[self].q))), node[self], "-", "-")
                /\ res' = [res EXCEPT ![self] = WB]
                /\ pc' = [pc EXCEPT ![self] = "d_unlock"]
                /\ UNCHANGED << lock, pend, cfgs, deqd, i, op, a, node, next, 
                                old, hd, tl, seen >>

d_unlock(self) == /\ pc[self] = "d_unlock"
                  /\ IF op[self].lck
                        THEN /\ Drained(self)
                             /\ lock' = [lock EXCEPT ![(op[self].q)] = "free"]
                             /\ acc' = Ev(self, "unlock", LockOf((op[self].q)), "-", "-", "-")
                        ELSE /\ TRUE
                             /\ UNCHANGED << lock, acc >>
                  /\ pc' = [pc EXCEPT ![self] = "t_ret"]
                  /\ UNCHANGED << mem, sb, pend, cfgs, deqd, i, op, a, node, 
                                  next, res, old, hd, tl, seen >>

s_lock(self) == /\ pc[self] = "s_lock"
                /\ IF op[self].lck
                      THEN /\ Drained(self) /\ lock[(op[self].s)] = "free"
                           /\ lock' = [lock EXCEPT ![(op[self].s)] = self]
                           /\ acc' = Ev(self, "lock", LockOf((op[self].s)), "-", "-", "-")
                      ELSE /\ TRUE
                           /\ UNCHANGED << lock, acc >>
                /\ pc' = [pc EXCEPT ![self] = "s_e1"]
                /\ UNCHANGED << mem, sb, pend, cfgs, deqd, i, op, a, node, 
                                next, res, old, hd, tl, seen >>

s_e1(self) == /\ pc[self] = "s_e1"
              /\ a' = [a EXCEPT ![self] = Rd(self, (NextOf(Hd(op[self].s))))]
              /\ acc' = Ev(self, "ld", (NextOf(Hd(op[self].s))), "-", "-", Rd(self, (NextOf(Hd(op[self].s)))))
              /\ IF a'[self] # NULL
                    THEN /\ pc' = [pc EXCEPT ![self] = "s_xh"]
                    ELSE /\ pc' = [pc EXCEPT ![self] = "s_e2"]
              /\ UNCHANGED << mem, sb, lock, pend, cfgs, deqd, i, op, node, 
                              next, res, old, hd, tl, seen >>

s_e2(self) == /\ pc[self] = "s_e2"
              /\ a' = [a EXCEPT ![self] = Rd(self, (TailOf(op[self].s)))]
              /\ acc' = Ev(self, "ld", (TailOf(op[self].s)), "-", "-", Rd(self, (TailOf(op[self].s))))
              /\ IF a'[self] = Hd(op[self].s)
                    THEN /\ res' = [res EXCEPT ![self] = "SRC_EMPTY"]
                         /\ pc' = [pc EXCEPT ![self] = "s_unlock"]
                    ELSE /\ pc' = [pc EXCEPT ![self] = "s_xh"]
                         /\ res' = res
              /\ UNCHANGED << mem, sb, lock, pend, cfgs, deqd, i, op, node, 
                              next, old, hd, tl, seen >>

s_xh(self) == /\ pc[self] = "s_xh"
              /\ Drained(self)
              /\ hd' = [hd EXCEPT ![self] = mem[(NextOf(Hd(op[self].s)))]]
              /\ mem' = [mem EXCEPT ![(NextOf(Hd(op[self].s)))] = NULL]
              /\ acc' = Ev(self, "xchg", (NextOf(Hd(op[self].s))), NULL, "-", hd'[self])
              /\ IF hd'[self] # NULL
                    THEN /\ pc' = [pc EXCEPT ![self] = "s_mb"]
                    ELSE /\ pc' = [pc EXCEPT ![self] = "s_lt"]
              /\ UNCHANGED << sb, lock, pend, cfgs, deqd, i, op, a, node, next, 
                              res, old, tl, seen >>

s_lt(self) == /\ pc[self] = "s_lt"
              /\ a' = [a EXCEPT ![self] = Rd(self, (TailOf(op[self].s)))]
              /\ acc' = Ev(self, "ld", (TailOf(op[self].s)), "-", "-", Rd(self, (TailOf(op[self].s))))
              /\ IF a'[self] = Hd(op[self].s)
                    THEN /\ res' = [res EXCEPT ![self] = "SRC_EMPTY"]
                         /\ pc' = [pc EXCEPT ![self] = "s_unlock"]
                    ELSE /\ IF op[self].blk
                               THEN /\ pc' = [pc EXCEPT ![self] = "s_xh"]
                                    /\ res' = res
                               ELSE /\ res' = [res EXCEPT ![self] = WB]
                                    /\ pc' = [pc EXCEPT ![self] = "s_unlock"]
              /\ UNCHANGED << mem, sb, lock, pend, cfgs, deqd, i, op, node, 
                              next, old, hd, tl, seen >>

s_mb(self) == /\ pc[self] = "s_mb"
              /\ Drained(self)
              /\ acc' = Ev(self, "mb", "-", "-", "-", "-")
              /\ pc' = [pc EXCEPT ![self] = "s_xt"]
              /\ UNCHANGED << mem, sb, lock, pend, cfgs, deqd, i, op, a, node, 
                              next, res, old, hd, tl, seen >>

s_xt(self) == /\ pc[self] = "s_xt"
              /\ Drained(self)
              /\ tl' = [tl EXCEPT ![self] = mem[(TailOf(op[self].s))]]
              /\ mem' = [mem EXCEPT ![(TailOf(op[self].s))] = Hd(op[self].s)]
              /\ acc' = Ev(self, "xchg", (TailOf(op[self].s)), (Hd(op[self].s)), "-", tl'[self])
              /\ pc' = [pc EXCEPT ![self] = "s_ax"]
              /\ UNCHANGED << sb, lock, pend, cfgs, deqd, i, op, a, node, next, 
                              res, old, hd, seen >>

s_ax(self) == /\ pc[self] = "s_ax"
              /\ Drained(self)
              /\ old' = [old EXCEPT ![self] = mem[(TailOf(op[self].q))]]
              /\ mem' = [mem EXCEPT ![(TailOf(op[self].q))] = tl[self]]
              /\ acc' = Ev(self, "xchg", (TailOf(op[self].q)), tl[self], "-", old'[self])
              /\ pc' = [pc EXCEPT ![self] = "s_al"]
              /\ UNCHANGED << sb, lock, pend, cfgs, deqd, i, op, a, node, next, 
                              res, hd, tl, seen >>

s_al(self) == /\ pc[self] = "s_al"
              /\ IF TSO
                    THEN /\ sb' = [sb EXCEPT ![self] = Append(sb[self], <<(NextOf(old[self])), hd[self]>>)]
                         /\ mem' = mem
                    ELSE /\ mem' = [mem EXCEPT ![(NextOf(old[self]))] = hd[self]]
                         /\ sb' = sb
              /\ acc' = Ev(self, "st", (NextOf(old[self])), hd[self], "-", "-")
              /\ res' = [res EXCEPT ![self] = IF old[self] = Hd(op[self].q) THEN "DEST_EMPTY" ELSE "DEST_NON_EMPTY"]
              /\ pc' = [pc EXCEPT ![self] = "s_unlock"]
              /\ UNCHANGED << lock, pend, cfgs, deqd, i, op, a, node, next, 
                              old, hd, tl, seen >>

s_unlock(self) == /\ pc[self] = "s_unlock"
                  /\ IF op[self].lck
                        THEN /\ Drained(self)
                             /\ lock' = [lock EXCEPT ![(op[self].s)] = "free"]
                             /\ acc' = Ev(self, "unlock", LockOf((op[self].s)), "-", "-", "-")
                        ELSE /\ TRUE
                             /\ UNCHANGED << lock, acc >>
                  /\ pc' = [pc EXCEPT ![self] = "t_ret"]
                  /\ UNCHANGED << mem, sb, pend, cfgs, deqd, i, op, a, node, 
                                  next, res, old, hd, tl, seen >>

m_e1(self) == /\ pc[self] = "m_e1"
              /\ a' = [a EXCEPT ![self] = Rd(self, (NextOf(Hd(op[self].q))))]
              /\ acc' = Ev(self, "ld", (NextOf(Hd(op[self].q))), "-", "-", Rd(self, (NextOf(Hd(op[self].q)))))
              /\ IF a'[self] # NULL
                    THEN /\ res' = [res EXCEPT ![self] = "FALSE"]
                         /\ pc' = [pc EXCEPT ![self] = "t_ret"]
                    ELSE /\ pc' = [pc EXCEPT ![self] = "m_e2"]
                         /\ res' = res
              /\ UNCHANGED << mem, sb, lock, pend, cfgs, deqd, i, op, node, 
                              next, old, hd, tl, seen >>

m_e2(self) == /\ pc[self] = "m_e2"
              /\ a' = [a EXCEPT ![self] = Rd(self, (TailOf(op[self].q)))]
              /\ acc' = Ev(self, "ld", (TailOf(op[self].q)), "-", "-", Rd(self, (TailOf(op[self].q))))
              /\ res' = [res EXCEPT ![self] = IF a'[self] = Hd(op[self].q) THEN "TRUE" ELSE "FALSE"]
              /\ pc' = [pc EXCEPT ![self] = "t_ret"]
              /\ UNCHANGED << mem, sb, lock, pend, cfgs, deqd, i, op, node, 
                              next, old, hd, tl, seen >>

f_e1(self) == /\ pc[self] = "f_e1"
              /\ a' = [a EXCEPT ![self] = Rd(self, (NextOf(Hd(op[self].q))))]
              /\ acc' = Ev(self, "ld", (NextOf(Hd(op[self].q))), "-", "-", Rd(self, (NextOf(Hd(op[self].q)))))
              /\ IF a'[self] # NULL
                    THEN /\ pc' = [pc EXCEPT ![self] = "f_sync"]
                    ELSE /\ pc' = [pc EXCEPT ![self] = "f_e2"]
              /\ UNCHANGED << mem, sb, lock, pend, cfgs, deqd, i, op, node, 
                              next, res, old, hd, tl, seen >>

f_e2(self) == /\ pc[self] = "f_e2"
              /\ a' = [a EXCEPT ![self] = Rd(self, (TailOf(op[self].q)))]
              /\ acc' = Ev(self, "ld", (TailOf(op[self].q)), "-", "-", Rd(self, (TailOf(op[self].q))))
              /\ IF a'[self] = Hd(op[self].q)
                    THEN /\ res' = [res EXCEPT ![self] = ""]
                         /\ pc' = [pc EXCEPT ![self] = "t_ret"]
                    ELSE /\ pc' = [pc EXCEPT ![self] = "f_sync"]
                         /\ res' = res
              /\ UNCHANGED << mem, sb, lock, pend, cfgs, deqd, i, op, node, 
                              next, old, hd, tl, seen >>

f_sync(self) == /\ pc[self] = "f_sync"
                /\ node' = [node EXCEPT ![self] = Rd(self, (NextOf(Hd(op[self].q))))]
                /\ acc' = Ev(self, "ld", (NextOf(Hd(op[self].q))), "-", "-", Rd(self, (NextOf(Hd(op[self].q)))))
                /\ IF node'[self] = NULL
                      THEN /\ pc' = [pc EXCEPT ![self] = "f_sync"]
                      ELSE /\ pc' = [pc EXCEPT ![self] = "f_visit"]
                /\ UNCHANGED << mem, sb, lock, pend, cfgs, deqd, i, op, a, 
                                next, res, old, hd, tl, seen >>

f_visit(self) == /\ pc[self] = "f_visit"
                 /\ seen' = [seen EXCEPT ![self] = Append(seen[self], node[self])]
                 /\ pc' = [pc EXCEPT ![self] = "n_ld"]
                 /\ UNCHANGED << mem, sb, lock, acc, pend, cfgs, deqd, i, op, 
                                 a, node, next, res, old, hd, tl >>

n_ld(self) == /\ pc[self] = "n_ld"
              /\ next' = [next EXCEPT ![self] = Rd(self, (NextOf(node[self])))]
              /\ acc' = Ev(self, "ld", (NextOf(node[self])), "-", "-", Rd(self, (NextOf(node[self]))))
              /\ IF next'[self] # NULL
                    THEN /\ node' = [node EXCEPT ![self] = next'[self]]
                         /\ pc' = [pc EXCEPT ![self] = "f_visit"]
                    ELSE /\ pc' = [pc EXCEPT ![self] = "n_lt"]
                         /\ node' = node
              /\ UNCHANGED << mem, sb, lock, pend, cfgs, deqd, i, op, a, res, 
                              old, hd, tl, seen >>

n_lt(self) == /\ pc[self] = "n_lt"
              /\ a' = [a EXCEPT ![self] = Rd(self, (TailOf(op[self].q)))]
              /\ acc' = Ev(self, "ld", (TailOf(op[self].q)), "-", "-", Rd(self, (TailOf(op[self].q))))
              /\ IF a'[self] = node[self]
                    THEN /\ res' = [res EXCEPT ![self] = Join(seen[self])]
                         /\ pc' = [pc EXCEPT ![self] = "t_ret"]
                    ELSE /\ pc' = [pc EXCEPT ![self] = "n_sync"]
                         /\ res' = res
              /\ UNCHANGED << mem, sb, lock, pend, cfgs, deqd, i, op, node, 
                              next, old, hd, tl, seen >>

n_sync(self) == /\ pc[self] = "n_sync"
                /\ next' = [next EXCEPT ![self] = Rd(self, (NextOf(node[self])))]
                /\ acc' = Ev(self, "ld", (NextOf(node[self])), "-", "-", Rd(self, (NextOf(node[self]))))
                /\ IF next'[self] = NULL
                      THEN /\ pc' = [pc EXCEPT ![self] = "n_sync"]
                           /\ node' = node
                      ELSE /\ node' = [node EXCEPT ![self] = next'[self]]
                           /\ pc' = [pc EXCEPT ![self] = "f_visit"]
                /\ UNCHANGED << mem, sb, lock, pend, cfgs, deqd, i, op, a, res, 
                                old, hd, tl, seen >>

t_ret(self) == /\ pc[self] = "t_ret"
               /\ /\ cfgs' = (IF res[self] = WB THEN LM!AfterAbort(cfgs, pend, self) ELSE LM!AfterReturn(cfgs, pend, self, res[self]))
                  /\ pend' = [pend EXCEPT ![self] = LM!NoOp]
               /\ IF op[self].op = "deq" /\ res[self] \notin {NULL, WB}
                     THEN /\ Assert(node[self] \notin deqd, 
                                    "Failure of assertion at line 187, column 57.")
                          /\ deqd' = (deqd \cup {node[self]})
                     ELSE /\ TRUE
                          /\ deqd' = deqd
               /\ i' = [i EXCEPT ![self] = i[self] + 1]
               /\ pc' = [pc EXCEPT ![self] = "t_top"]
               /\ UNCHANGED << mem, sb, lock, acc, op, a, node, next, res, old, 
                               hd, tl, seen >>

thr(self) == t_top(self) \/ t_disp(self) \/ e_mb(self) \/ e_xchg(self)
                \/ e_link(self) \/ d_lock(self) \/ d_e1(self) \/ d_e2(self)
                \/ d_sync(self) \/ d_ldn(self) \/ d_st0(self)
                \/ d_cas(self) \/ d_sn2(self) \/ d_adv(self) \/ d_mb(self)
                \/ d_undo(self) \/ d_unlock(self) \/ s_lock(self)
                \/ s_e1(self) \/ s_e2(self) \/ s_xh(self) \/ s_lt(self)
                \/ s_mb(self) \/ s_xt(self) \/ s_ax(self) \/ s_al(self)
                \/ s_unlock(self) \/ m_e1(self) \/ m_e2(self) \/ f_e1(self)
                \/ f_e2(self) \/ f_sync(self) \/ f_visit(self)
                \/ n_ld(self) \/ n_lt(self) \/ n_sync(self) \/ t_ret(self)

Next == (\E self \in Flushers: flusher(self))
           \/ (\E self \in Threads: thr(self))

Spec == /\ Init /\ [][Next]_vars
        /\ \A self \in Flushers : WF_vars(flusher(self))
        /\ \A self \in Threads : WF_vars(thr(self))

\* END TRANSLATION

AllDone == \A t \in Threads : pc[t] = "Done"
\* every enqueued node is either still queued (in every surviving linearisation) or was returned by exactly one dequeue
Conservation == AllDone => \A c \in cfgs :
                  LET left == UNION {{c.abs.q[q][j] : j \in DOMAIN c.abs.q[q]} : q \in Queues}
                  IN  left \cap deqd = {} /\ left \cup deqd = Nodes
\* deadlock freedom with an explicit notion of termination (flushers never terminate)
DeadlockFree == AllDone \/ ENABLED Next
SBBound == \A t \in Threads : Len(sb[t]) <= SBMax
=============================================================================
