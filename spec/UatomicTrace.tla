---------------------------- MODULE UatomicTrace ----------------------------
(* C20, input dimension, code -> spec: every record logged by harness/d_uatomic.c (one per executed vector: operation,
   widths and types, operands, 16-byte memory image before and after, returned value widened to 64 bits, size and
   signedness of the type of the macro's result expression, guard zones around the image) must be exactly what the
   sequential semantics of module Uatomic computes from the logged inputs.

   The log is read from the file named by the environment variable TRACE.  State graph: root -> NChunks chains that
   walk disjoint slices of the log (so TLC workers validate in parallel); RecOK is an invariant of every state, the
   first offending record number is reported through TLCSet/TLCGet(1) and by the counterexample itself. *)
EXTENDS Uatomic, Json, IOUtils, TLC, TLCExt

TraceLog == ndJsonDeserialize(IOEnv.TRACE)
NRec     == Len(TraceLog)
NChunks  == 16
ChunkLo(c) == ((c - 1) * NRec) \div NChunks + 1
ChunkHi(c) == (c * NRec) \div NChunks

VARIABLES chunk, pos
vars == <<chunk, pos>>

WellFormed(e) ==
    /\ e.op \in OpSet /\ e.w \in WidthSet /\ e.ow \in WidthSet /\ e.ts \in {0, 1} /\ e.os \in {0, 1}
    /\ Aligned(e.off, e.w)
    /\ IsValue(e.a, 8) /\ IsValue(e.b, 8) /\ IsValue(e.m0, MemSize) /\ IsValue(e.m1, MemSize) /\ IsValue(e.r, 8)

RecOK(e) ==
    /\ WellFormed(e)
    /\ LET x == Exec(e.m0, e.op, e.w, e.off, e.ts, e.ow, e.os, e.a, e.b) IN
       /\ e.m1 = x.mem                                  \* new content AND every neighbouring byte
       /\ e.op \in RetOps => e.r = x.ret                \* returned value, truncated to the width, widened as type T
       /\ e.op \in RetOps => (e.rsz = e.w /\ e.rsg = e.ts)    \* the macro's result has the location's type
       /\ e.op \notin RetOps => e.rsz = 0
    /\ e.g = 1                                          \* nothing outside the 16-byte image was written

Init == chunk = 0 /\ pos = 0
Next == \/ /\ chunk = 0 /\ chunk' \in 1..NChunks /\ pos' = ChunkLo(chunk')
           /\ pos' <= ChunkHi(chunk')
        \/ /\ chunk > 0 /\ pos < ChunkHi(chunk) /\ pos' = pos + 1 /\ chunk' = chunk
Spec == Init /\ [][Next]_vars

AllOK == pos > 0 => RecOK(TraceLog[pos])
Post == PrintT(<<"VALIDATED", NRec, TLCGet("distinct")>>)
=============================================================================
