-------------------------------- MODULE Lfq --------------------------------
(***************************************************************************)
(* cds_lfq_*_rcu (include/urcu/static/rculfqueue.h) at the granularity of  *)
(* one action per shared-memory access.  One queue "q" (locations q.head,  *)
(* q.tail, <node>.next).  User nodes are the names used by the scenario,   *)
(* dummy nodes are dm1, dm2, ... in ALLOCATION order (nalloc is part of    *)
(* the state; the driver names the blocks returned by the library's        *)
(* malloc() the same way).                                                 *)
(*                                                                         *)
(* Threads execute the operation sequences of a scenario (Prog):           *)
(*   [op |-> "enq", n]     rcu_read_lock; cds_lfq_enqueue_rcu; unlock      *)
(*   [op |-> "deq"]        rcu_read_lock; cds_lfq_dequeue_rcu; unlock      *)
(*                         (a returned node is appended to the thread's    *)
(*                         got list)                                       *)
(*   [op |-> "sync"]       synchronize_rcu()                               *)
(*   [op |-> "free"]       free every node of the got list (caller must    *)
(*                         have run "sync" since the dequeues)             *)
(*   [op |-> "reenq"]      re-initialise and enqueue the oldest node of    *)
(*                         the got list (no-op when the list is empty)     *)
(*   [op |-> "destroy"]    cds_lfq_destroy_rcu (only when no other         *)
(*                         operation is in flight: API requirement)        *)
(*   [op |-> "wait", ts]   driver-level barrier: block until the threads   *)
(*                         in the sequence ts have finished their programs *)
(*                                                                         *)
(* RCU is abstract (same semantics as harness/absrcu.h): a read-side       *)
(* critical section is the interval t_top .. t_ret of an enq/deq; a grace  *)
(* period snapshots the set of threads inside a section and may end once   *)
(* each of those sections has ended (gpw).  call_rcu callbacks are run by  *)
(* the process "rcu" after such a grace period.                            *)
(*                                                                         *)
(* Property monitors: LinMon over a FIFO sequence of node names (C12),     *)
(* alive ghost per node (every dereference of a freed node sets uaf; the   *)
(* one way the unchanged code does that -- q.head overtakes q.tail, a late *)
(* enqueuer then loads the removed node from q.tail -- is tracked apart    *)
(* as stale / NoStaleTailDeref, see known_findings.jsonl),                 *)
(* dummy nodes never returned, physical chain = abstract queue at          *)
(* quiescence, no dummy leaked, destroy result.                            *)
(*                                                                         *)
(* The algorithm performs all its shared stores with seq_cst cmpxchg, the  *)
(* only plain stores are node initialisations; sb/flusher are kept for     *)
(* uniformity with the other modules (St is never used here, so TSO and SC *)
(* coincide for this module).                                              *)
(***************************************************************************)
EXTENDS Naturals, Sequences, FiniteSets, TLC

CONSTANTS Threads,    \* set of thread ids (strings; not "rcu")
          Prog,       \* [Threads -> Seq(op record)]
          TSO,        \* TRUE: stores are buffered (x86-TSO); FALSE: sequential consistency
          Tracing,    \* TRUE: maintain acc
          SBMax,      \* bound on store-buffer length used by the state constraint
          MaxDm,      \* number of dummy-node names available (allocation beyond it is an error of the scenario)
          HelpTail    \* FALSE: the code as it is.  TRUE: repair candidate -- dequeue helps q->tail forward when it equals
                      \* head before moving q->head (d_ldt, d_help), so that head never overtakes tail

NULL == "NULL"
RCU == "rcu"
QHead == "q.head"
QTail == "q.tail"
NextOf(n) == n \o ".next"
Dm(k) == "dm" \o ToString(k)
Dummies == {Dm(k) : k \in 1..MaxDm}
OpsOf(t) == {Prog[t][j] : j \in DOMAIN Prog[t]}
AllOps == UNION {OpsOf(t) : t \in Threads}
UserNodes == {o.n : o \in {x \in AllOps : x.op = "enq"}}
Nodes == UserNodes \cup Dummies
Locs == {QHead, QTail} \cup {NextOf(n) : n \in Nodes}
FlId(t) == "F:" \o t
Flushers == {FlId(t) : t \in Threads}
FlOf == [f \in Flushers |-> CHOOSE t \in Threads : FlId(t) = f]
Waiters == Threads \cup {RCU}

\* operation actually executed for program entry o by a thread whose got list is g
EffOp(o, g) == IF o.op = "reenq" THEN (IF g = <<>> THEN [op |-> "nop"] ELSE [op |-> "enq", n |-> Head(g)]) ELSE o

\* ---- abstract object: one FIFO sequence; destroy succeeds iff it is empty ----
QApply(abs, o, stage, t) ==
  CASE o.op = "enq"     -> [abs |-> Append(abs, o.n), res |-> "ok"]
    [] o.op = "deq"     -> IF abs = <<>> THEN [abs |-> abs, res |-> NULL] ELSE [abs |-> Tail(abs), res |-> Head(abs)]
    [] o.op = "destroy" -> [abs |-> abs, res |-> IF abs = <<>> THEN "0" ELSE "-1"]
    [] OTHER            -> [abs |-> abs, res |-> "-"]
LM == INSTANCE LinMon WITH Apply <- QApply, Thr <- Threads

(* --algorithm lfq {
variables
  mem = [l \in Locs |-> IF l \in {QHead, QTail} THEN Dm(1) ELSE NULL],     \* _cds_lfq_init_rcu: head = tail = make_dummy(q, NULL)
  sb = [t \in Threads |-> <<>>],
  acc = [k |-> 0],
  pend = [t \in Threads |-> LM!NoOp],
  cfgs = LM!InitCfgs(<<>>),
  nalloc = 1,                                      \* dummies allocated so far (dm1 by init)
  alive = [n \in Nodes |-> n \in UserNodes \cup {Dm(1)}],
  uaf = FALSE,                                     \* ghost: some dereference hit a node that is not alive
  ovt = {},                                        \* ghost: nodes removed through q.head while q.tail still pointed at them
  stale = FALSE,                                   \* ghost: enqueue dereferenced, through its tail pointer, a node of ovt after it was freed or recycled
  stl = {},                                        \* ghost: threads whose tail pointer names a node of ovt that was recycled since they loaded it
  tailp = [t \in Threads |-> NULL],                \* the local variable tail of enqueue / dequeue (global only so that the ghosts can see it)
  incs = [t \in Threads |-> FALSE],                \* inside a read-side critical section
  gpw = [w \in Waiters |-> {}],                    \* sections the grace period of waiter w still waits for
  cbq = <<>>,                                      \* call_rcu queue (dummies to free)
  fin = [t \in Threads |-> Len(Prog[t]) = 0];      \* thread has returned from its last operation

define {
  LastIdx(t, loc) == LET S == {j \in DOMAIN sb[t] : sb[t][j][1] = loc} IN
                     IF S = {} THEN 0 ELSE CHOOSE j \in S : \A k \in S : k <= j
  Rd(t, loc) == IF LastIdx(t, loc) = 0 THEN mem[loc] ELSE sb[t][LastIdx(t, loc)][2]
  Drained(t) == sb[t] = <<>>
  Ev(t, op, var, a, b, r) == IF Tracing THEN [k |-> acc.k + 1, t |-> t, op |-> op, var |-> var, a |-> a, b |-> b, r |-> r] ELSE acc
  NoStaleTailDeref == ~stale               \* known finding C12-head-overtakes-tail when HelpTail = FALSE
  \* every other property is claimed for the behaviours in which that defect has not struck (all behaviours when HelpTail = TRUE,
  \* where NoStaleTailDeref is checked as an ordinary invariant)
  Linearizable == stale \/ cfgs # {}
  NoUseAfterFree == stale \/ ~uaf
  InCs == {t \in Threads : incs[t]}
}

macro Ld(dst, loc)        { dst := Rd(self, loc); acc := Ev(self, "ld", loc, "-", "-", Rd(self, loc)); }
macro St(loc, v)          { if (TSO) { sb[self] := Append(sb[self], <<loc, v>>) } else { mem[loc] := v };
                            acc := Ev(self, "st", loc, v, "-", "-"); }
\* plain (non-atomic) store: committed in program order after the thread's buffered stores (runtime L-B semantics)
macro StP(loc, v)         { await Drained(self); mem[loc] := v; acc := Ev(self, "st", loc, v, "-", "-"); }
macro Cas(dst, loc, o, n) { await Drained(self); dst := mem[loc]; if (mem[loc] = o) { mem[loc] := n };
                            acc := Ev(self, "cas", loc, o, n, dst); }
macro Mb()                { await Drained(self); acc := Ev(self, "mb", "-", "-", "-", "-"); }
\* dereference of node n (any field): the node must not have been freed
macro Deref(n)            { uaf := uaf \/ ~alive[n]; }

fair process (flusher \in Flushers) {
fl: while (TRUE) {
      await sb[FlOf[self]] # <<>>;
      mem[Head(sb[FlOf[self]])[1]] := Head(sb[FlOf[self]])[2] || sb[FlOf[self]] := Tail(sb[FlOf[self]])
      || acc := IF Tracing THEN [k |-> acc.k + 1, t |-> FlOf[self], op |-> "flush", var |-> Head(sb[FlOf[self]])[1],
                               a |-> Head(sb[FlOf[self]])[2], b |-> "-", r |-> "-"] ELSE acc;
    }
}

\* call_rcu worker (absrcu.h abs_rcu_thread): wait for callbacks, one grace period, run the batch (free_dummy_cb)
fair process (rcu \in {RCU})
variables batch = <<>>;
{
r_wait: while (TRUE) {
          await cbq # <<>>;                                      \* vrt_wait_until(abs_q_nonempty); end = abs_qt; snapshot
          batch := cbq; cbq := <<>>;
          gpw[RCU] := InCs;
          acc := Ev(RCU, "gp_begin", "-", "-", "-", "-");
r_end:    await gpw[RCU] = {};                                   \* abs_synchronize_rcu(): grace period elapsed
          acc := Ev(RCU, "gp_end", "-", "-", "-", "-");
r_cb:     alive[Head(batch)] := FALSE;                           \* free_dummy_cb(): free(dummy)
          batch := Tail(batch);
          if (batch # <<>>) { goto r_cb };
        }
}

fair process (thr \in Threads)
variables i = 1, op = LM!NoOp, a = NULL, node = NULL, next = NULL, res = NULL, hd = NULL, indq = FALSE, got = <<>>;
{
t_top:  while (i <= Len(Prog[self])) {
          \* call: the driver performs rcu_read_lock / node init / the grace-period snapshot in the same scheduled step
          op := EffOp(Prog[self][i], got); pend[self] := op;
          res := "-";
          acc := Ev(self, "call", "-", "-", "-", "-");
          if (op.op = "enq") {
            node := op.n; indq := FALSE; incs[self] := TRUE;
            mem[NextOf(op.n)] := NULL;                           \* cds_lfq_node_init_rcu(node)
            if (Prog[self][i].op = "reenq") {
              got := Tail(got);
              if (op.n \in ovt) { stl := stl \cup {t \in Threads : pc[t] \in {"e_mb", "e_cas"} /\ tailp[t] = op.n} };
              ovt := ovt \ {op.n} };
            goto e_ldt }
          else if (op.op = "deq") { incs[self] := TRUE; goto d_ldh }
          else if (op.op = "destroy") { goto x_ldh }
          else if (op.op = "sync") { gpw[self] := InCs; goto s_end }
          else if (op.op = "free") { if (got = <<>>) { goto t_ret } else { goto f_free } }
          else if (op.op = "wait") { goto w_join }
          else { goto t_ret };

        \* ---------------- _cds_lfq_enqueue_rcu(q, node)   (also reached from enqueue_dummy with indq = TRUE)
e_ldt:    Ld(tailp[self], QTail);                                      \* tail = rcu_dereference(q->tail)
e_mb:     Mb();                                                  \* cmm_emit_legacy_smp_mb()
e_cas:    Cas(next, NextOf(tailp[self]), NULL, node);            \* next = uatomic_cmpxchg(&tail->next, NULL, node)
          if (~alive[tailp[self]]) { if (tailp[self] \in ovt) { stale := TRUE } else { uaf := TRUE } }
          else if (self \in stl) { stale := TRUE };
          stl := stl \ {self};
          if (next = NULL) { goto e_adv } else { goto e_help };
e_help:   Cas(a, QTail, tailp[self], next);                            \* failure: (void) uatomic_cmpxchg(&q->tail, tail, next); continue
          goto e_ldt;
e_adv:    Cas(a, QTail, tailp[self], node);                            \* success: (void) uatomic_cmpxchg(&q->tail, tail, node); return
          if (indq) { goto d_ldn2 } else { res := "ok"; goto t_ret };

        \* ---------------- _cds_lfq_dequeue_rcu(q)
d_ldh:    Ld(hd, QHead);                                         \* head = rcu_dereference(q->head)
d_ldn:    Ld(next, NextOf(hd));                                  \* next = rcu_dereference(head->next); head->dummy
          Deref(hd);
          if (hd \in Dummies /\ next = NULL) { res := NULL; goto t_ret }        \* empty
          else if (next = NULL) {                                \* enqueue_dummy: make_dummy -> malloc (next name)
            assert nalloc < MaxDm;
            nalloc := nalloc + 1 || node := Dm(nalloc + 1) || alive[Dm(nalloc + 1)] := TRUE;
            goto d_mkd }
          else if (HelpTail) { goto d_ldt } else { goto d_cas };
d_mkd:    StP(NextOf(node), NULL);                               \* dummy->parent.next = next (NULL); dummy = 1; q = q
          indq := TRUE;
          goto e_ldt;                                            \* _cds_lfq_enqueue_rcu(q, dummy)
d_ldn2:   Ld(next, NextOf(hd));                                  \* next = rcu_dereference(head->next)
          Deref(hd);
          if (HelpTail) { goto d_ldt } else { goto d_cas };
d_ldt:    Ld(tailp[self], QTail);                                \* [HelpTail] tail = rcu_dereference(q->tail)
          if (tailp[self] # hd) { goto d_cas };
d_help:   Cas(a, QTail, hd, next);                               \* [HelpTail] if (tail == head) (void) uatomic_cmpxchg(&q->tail, head, next)
d_cas:    Cas(a, QHead, hd, next);                               \* uatomic_cmpxchg(&q->head, head, next) != head -> continue
          if (a # hd) { goto d_ldh }
          else {
            Deref(hd);                                           \* if (head->dummy)
            if (mem[QTail] = hd) { ovt := ovt \cup {hd} };       \* ghost: head has overtaken tail
            if (hd \in Dummies) { goto d_crcu } else { res := hd; goto t_ret } };
d_crcu:   cbq := Append(cbq, hd);                                \* rcu_free_dummy(head): q->queue_call_rcu(&dummy->head, free_dummy_cb)
          goto d_ldh;                                            \* continue (try again)

        \* ---------------- _cds_lfq_destroy_rcu(q)
x_ldh:    Ld(hd, QHead);                                         \* head = rcu_dereference(q->head); head->dummy
          Deref(hd);
          if (hd \notin Dummies) { res := "-1"; goto t_ret };    \* -EPERM
x_ldn:    Ld(next, NextOf(hd));                                  \* head->next == NULL (plain load)
          Deref(hd);
          if (next # NULL) { res := "-1"; goto t_ret };
x_free:   alive[hd] := FALSE;                                    \* free_dummy(head)
          res := "0";
          goto t_ret;

        \* ---------------- driver-level operations
s_end:    await gpw[self] = {};                                  \* synchronize_rcu() returns
          acc := Ev(self, "gp_end", "-", "-", "-", "-");
          goto t_ret;
f_free:   alive[Head(got)] := FALSE;                             \* free(node) for every dequeued node held
          got := Tail(got);
          if (got # <<>>) { goto f_free } else { goto t_ret };
w_join:   await \A k \in DOMAIN op.ts : fin[op.ts[k]];
          acc := Ev(self, "joined", "-", "-", "-", "-");

t_ret:    cfgs := LM!AfterReturn(cfgs, pend, self, res) || pend[self] := LM!NoOp;
          if (incs[self]) { incs[self] := FALSE; gpw := [w \in Waiters |-> gpw[w] \ {self}] };   \* rcu_read_unlock
          if (op.op = "deq" /\ res # NULL) { got := Append(got, res) };
          if (i = Len(Prog[self])) { fin[self] := TRUE };
          i := i + 1;
        }
}
} *)
\* BEGIN TRANSLATION
VARIABLES pc, mem, sb, acc, pend, cfgs, nalloc, alive, uaf, ovt, stale, stl, 
          tailp, incs, gpw, cbq, fin

(* define statement *)
LastIdx(t, loc) == LET S == {j \in DOMAIN sb[t] : sb[t][j][1] = loc} IN
                   IF S = {} THEN 0 ELSE CHOOSE j \in S : \A k \in S : k <= j
Rd(t, loc) == IF LastIdx(t, loc) = 0 THEN mem[loc] ELSE sb[t][LastIdx(t, loc)][2]
Drained(t) == sb[t] = <<>>
Ev(t, op, var, a, b, r) == IF Tracing THEN [k |-> acc.k + 1, t |-> t, op |-> op, var |-> var, a |-> a, b |-> b, r |-> r] ELSE acc
NoStaleTailDeref == ~stale


Linearizable == stale \/ cfgs # {}
NoUseAfterFree == stale \/ ~uaf
InCs == {t \in Threads : incs[t]}

VARIABLES batch, i, op, a, node, next, res, hd, indq, got

vars == << pc, mem, sb, acc, pend, cfgs, nalloc, alive, uaf, ovt, stale, stl, 
           tailp, incs, gpw, cbq, fin, batch, i, op, a, node, next, res, hd, 
           indq, got >>

ProcSet == (Flushers) \cup ({RCU}) \cup (Threads)

Init == (* Global variables *)
        /\ mem = [l \in Locs |-> IF l \in {QHead, QTail} THEN Dm(1) ELSE NULL]
        /\ sb = [t \in Threads |-> <<>>]
        /\ acc = [k |-> 0]
        /\ pend = [t \in Threads |-> LM!NoOp]
        /\ cfgs = LM!InitCfgs(<<>>)
        /\ nalloc = 1
        /\ alive = [n \in Nodes |-> n \in UserNodes \cup {Dm(1)}]
        /\ uaf = FALSE
        /\ ovt = {}
        /\ stale = FALSE
        /\ stl = {}
        /\ tailp = [t \in Threads |-> NULL]
        /\ incs = [t \in Threads |-> FALSE]
        /\ gpw = [w \in Waiters |-> {}]
        /\ cbq = <<>>
        /\ fin = [t \in Threads |-> Len(Prog[t]) = 0]
        (* Process rcu *)
        /\ batch = [self \in {RCU} |-> <<>>]
        (* Process thr *)
        /\ i = [self \in Threads |-> 1]
        /\ op = [self \in Threads |-> LM!NoOp]
        /\ a = [self \in Threads |-> NULL]
        /\ node = [self \in Threads |-> NULL]
        /\ next = [self \in Threads |-> NULL]
        /\ res = [self \in Threads |-> NULL]
        /\ hd = [self \in Threads |-> NULL]
        /\ indq = [self \in Threads |-> FALSE]
        /\ got = [self \in Threads |-> <<>>]
        /\ pc = [self \in ProcSet |-> CASE self \in Flushers -> "fl"
                                        [] self \in {RCU} -> "r_wait"
                                        [] self \in Threads -> "t_top"]

fl(self) == /\ pc[self] = "fl"
            /\ sb[FlOf[self]] # <<>>
            /\ /\ acc' = IF Tracing THEN [k |-> acc.k + 1, t |-> FlOf[self], op |-> "flush", var |-> Head(sb[FlOf[self]])[1],
                                        a |-> Head(sb[FlOf[self]])[2], b |-> "-", r |-> "-"] ELSE acc
               /\ mem' = [mem EXCEPT ![Head(sb[FlOf[self]])[1]] = Head(sb[FlOf[self]])[2]]
               /\ sb' = [sb EXCEPT ![FlOf[self]] = Tail(sb[FlOf[self]])]
            /\ pc' = [pc EXCEPT ![self] = "fl"]
            /\ UNCHANGED << pend, cfgs, nalloc, alive, uaf, ovt, stale, stl, 
                            tailp, incs, gpw, cbq, fin, batch, i, op, a, node, 
                            next, res, hd, indq, got >>

flusher(self) == fl(self)

r_wait(self) == /\ pc[self] = "r_wait"
                /\ cbq # <<>>
                /\ batch' = [batch EXCEPT ![self] = cbq]
                /\ cbq' = <<>>
                /\ gpw' = [gpw EXCEPT ![RCU] = InCs]
                /\ acc' = Ev(RCU, "gp_begin", "-", "-", "-", "-")
                /\ pc' = [pc EXCEPT ![self] = "r_end"]
                /\ UNCHANGED << mem, sb, pend, cfgs, nalloc, alive, uaf, ovt, 
                                stale, stl, tailp, incs, fin, i, op, a, node, 
                                next, res, hd, indq, got >>

r_end(self) == /\ pc[self] = "r_end"
               /\ gpw[RCU] = {}
               /\ acc' = Ev(RCU, "gp_end", "-", "-", "-", "-")
               /\ pc' = [pc EXCEPT ![self] = "r_cb"]
               /\ UNCHANGED << mem, sb, pend, cfgs, nalloc, alive, uaf, ovt, 
                               stale, stl, tailp, incs, gpw, cbq, fin, batch, 
                               i, op, a, node, next, res, hd, indq, got >>

r_cb(self) == /\ pc[self] = "r_cb"
              /\ alive' = [alive EXCEPT ![Head(batch[self])] = FALSE]
              /\ batch' = [batch EXCEPT ![self] = Tail(batch[self])]
              /\ IF batch'[self] # <<>>
                    THEN /\ pc' = [pc EXCEPT ![self] = "r_cb"]
                    ELSE /\ pc' = [pc EXCEPT ![self] = "r_wait"]
              /\ UNCHANGED << mem, sb, acc, pend, cfgs, nalloc, uaf, ovt, 
                              stale, stl, tailp, incs, gpw, cbq, fin, i, op, a, 
                              node, next, res, hd, indq, got >>

rcu(self) == r_wait(self) \/ r_end(self) \/ r_cb(self)

t_top(self) == /\ pc[self] = "t_top"
               /\ IF i[self] <= Len(Prog[self])
                     THEN /\ op' = [op EXCEPT ![self] = EffOp(Prog[self][i[self]], got[self])]
                          /\ pend' = [pend EXCEPT ![self] = op'[self]]
                          /\ res' = [res EXCEPT ![self] = "-"]
                          /\ acc' = Ev(self, "call", "-", "-", "-", "-")
                          /\ IF op'[self].op = "enq"
                                THEN /\ node' = [node EXCEPT ![self] = op'[self].n]
                                     /\ indq' = [indq EXCEPT ![self] = FALSE]
                                     /\ incs' = [incs EXCEPT ![self] = TRUE]
                                     /\ mem' = [mem EXCEPT ![NextOf(op'[self].n)] = NULL]
                                     /\ IF Prog[self][i[self]].op = "reenq"
                                           THEN /\ got' = [got EXCEPT ![self] = Tail(got[self])]
                                                /\ IF op'[self].n \in ovt
                                                      THEN /\ stl' = (stl \cup {t \in Threads : pc[t] \in {"e_mb", "e_cas"} /\ tailp[t] = op'[self].n})
                                                      ELSE /\ TRUE
                                                           /\ stl' = stl
                                                /\ ovt' = ovt \ {op'[self].n}
                                           ELSE /\ TRUE
                                                /\ UNCHANGED << ovt, stl, got >>
                                     /\ pc' = [pc EXCEPT ![self] = "e_ldt"]
                                     /\ gpw' = gpw
                                ELSE /\ IF op'[self].op = "deq"
                                           THEN /\ incs' = [incs EXCEPT ![self] = TRUE]
                                                /\ pc' = [pc EXCEPT ![self] = "d_ldh"]
                                                /\ gpw' = gpw
                                           ELSE /\ IF op'[self].op = "destroy"
                                                      THEN /\ pc' = [pc EXCEPT ![self] = "x_ldh"]
                                                           /\ gpw' = gpw
                                                      ELSE /\ IF op'[self].op = "sync"
                                                                 THEN /\ gpw' = [gpw EXCEPT ![self] = InCs]
                                                                      /\ pc' = [pc EXCEPT ![self] = "s_end"]
                                                                 ELSE /\ IF op'[self].op = "free"
                                                                            THEN /\ IF got[self] = <<>>
                                                                                       THEN /\ pc' = [pc EXCEPT ![self] = "t_ret"]
                                                                                       ELSE /\ pc' = [pc EXCEPT ![self] = "f_free"]
                                                                            ELSE /\ IF op'[self].op = "wait"
                                                                                       THEN /\ pc' = [pc EXCEPT ![self] = "w_join"]
                                                                                       ELSE /\ pc' = [pc EXCEPT ![self] = "t_ret"]
                                                                      /\ gpw' = gpw
                                                /\ incs' = incs
                                     /\ UNCHANGED << mem, ovt, stl, node, indq, 
                                                     got >>
                     ELSE /\ pc' = [pc EXCEPT ![self] = "Done"]
                          /\ UNCHANGED << mem, acc, pend, ovt, stl, incs, gpw, 
                                          op, node, res, indq, got >>
               /\ UNCHANGED << sb, cfgs, nalloc, alive, uaf, stale, tailp, cbq, 
                               fin, batch, i, a, next, hd >>

e_ldt(self) == /\ pc[self] = "e_ldt"
               /\ tailp' = [tailp EXCEPT ![self] = Rd(self, QTail)]
               /\ acc' = Ev(self, "ld", QTail, "-", "-", Rd(self, QTail))
               /\ pc' = [pc EXCEPT ![self] = "e_mb"]
               /\ UNCHANGED << mem, sb, pend, cfgs, nalloc, alive, uaf, ovt, 
                               stale, stl, incs, gpw, cbq, fin, batch, i, op, 
                               a, node, next, res, hd, indq, got >>

e_mb(self) == /\ pc[self] = "e_mb"
              /\ Drained(self)
              /\ acc' = Ev(self, "mb", "-", "-", "-", "-")
              /\ pc' = [pc EXCEPT ![self] = "e_cas"]
              /\ UNCHANGED << mem, sb, pend, cfgs, nalloc, alive, uaf, ovt, 
                              stale, stl, tailp, incs, gpw, cbq, fin, batch, i, 
                              op, a, node, next, res, hd, indq, got >>

e_cas(self) == /\ pc[self] = "e_cas"
               /\ Drained(self)
               /\ next' = [next EXCEPT ![self] = mem[(NextOf(tailp[self]))]]
               /\ IF mem[(NextOf(tailp[self]))] = NULL
                     THEN /\ mem' = [mem EXCEPT ![(NextOf(tailp[self]))] = node[self]]
                     ELSE /\ TRUE
                          /\ mem' = mem
               /\ acc' = Ev(self, "cas", (NextOf(tailp[self])), NULL, node[self], next'[self])
               /\ IF ~alive[tailp[self]]
                     THEN /\ IF tailp[self] \in ovt
                                THEN /\ stale' = TRUE
                                     /\ uaf' = uaf
                                ELSE /\ uaf' = TRUE
                                     /\ stale' = stale
                     ELSE /\ IF self \in stl
                                THEN /\ stale' = TRUE
                                ELSE /\ TRUE
                                     /\ stale' = stale
                          /\ uaf' = uaf
               /\ stl' = stl \ {self}
               /\ IF next'[self] = NULL
                     THEN /\ pc' = [pc EXCEPT ![self] = "e_adv"]
                     ELSE /\ pc' = [pc EXCEPT ![self] = "e_help"]
               /\ UNCHANGED << sb, pend, cfgs, nalloc, alive, ovt, tailp, incs, 
                               gpw, cbq, fin, batch, i, op, a, node, res, hd, 
                               indq, got >>

e_help(self) == /\ pc[self] = "e_help"
                /\ Drained(self)
                /\ a' = [a EXCEPT ![self] = mem[QTail]]
                /\ IF mem[QTail] = (tailp[self])
                      THEN /\ mem' = [mem EXCEPT ![QTail] = next[self]]
                      ELSE /\ TRUE
                           /\ mem' = mem
                /\ acc' = Ev(self, "cas", QTail, (tailp[self]), next[self], a'[self])
                /\ pc' = [pc EXCEPT ![self] = "e_ldt"]
                /\ UNCHANGED << sb, pend, cfgs, nalloc, alive, uaf, ovt, stale, 
                                stl, tailp, incs, gpw, cbq, fin, batch, i, op, 
                                node, next, res, hd, indq, got >>

e_adv(self) == /\ pc[self] = "e_adv"
               /\ Drained(self)
               /\ a' = [a EXCEPT ![self] = mem[QTail]]
               /\ IF mem[QTail] = (tailp[self])
                     THEN /\ mem' = [mem EXCEPT ![QTail] = node[self]]
                     ELSE /\ TRUE
                          /\ mem' = mem
               /\ acc' = Ev(self, "cas", QTail, (tailp[self]), node[self], a'[self])
               /\ IF indq[self]
                     THEN /\ pc' = [pc EXCEPT ![self] = "d_ldn2"]
                          /\ res' = res
                     ELSE /\ res' = [res EXCEPT ![self] = "ok"]
                          /\ pc' = [pc EXCEPT ![self] = "t_ret"]
               /\ UNCHANGED << sb, pend, cfgs, nalloc, alive, uaf, ovt, stale, 
                               stl, tailp, incs, gpw, cbq, fin, batch, i, op, 
                               node, next, hd, indq, got >>

d_ldh(self) == /\ pc[self] = "d_ldh"
               /\ hd' = [hd EXCEPT ![self] = Rd(self, QHead)]
               /\ acc' = Ev(self, "ld", QHead, "-", "-", Rd(self, QHead))
               /\ pc' = [pc EXCEPT ![self] = "d_ldn"]
               /\ UNCHANGED << mem, sb, pend, cfgs, nalloc, alive, uaf, ovt, 
                               stale, stl, tailp, incs, gpw, cbq, fin, batch, 
                               i, op, a, node, next, res, indq, got >>

d_ldn(self) == /\ pc[self] = "d_ldn"
               /\ next' = [next EXCEPT ![self] = Rd(self, (NextOf(hd[self])))]
               /\ acc' = Ev(self, "ld", (NextOf(hd[self])), "-", "-", Rd(self, (NextOf(hd[self]))))
               /\ uaf' = (uaf \/ ~alive[hd[self]])
               /\ IF hd[self] \in Dummies /\ next'[self] = NULL
                     THEN /\ res' = [res EXCEPT ![self] = NULL]
                          /\ pc' = [pc EXCEPT ![self] = "t_ret"]
                          /\ UNCHANGED << nalloc, alive, node >>
                     ELSE /\ IF next'[self] = NULL
                                THEN /\ Assert(nalloc < MaxDm, 
                                               "Failure of assertion at line 195, column 13.")
                                     /\ /\ alive' = [alive EXCEPT ![Dm(nalloc + 1)] = TRUE]
                                        /\ nalloc' = nalloc + 1
                                        /\ node' = [node EXCEPT ![self] = Dm(nalloc + 1)]
                                     /\ pc' = [pc EXCEPT ![self] = "d_mkd"]
                                ELSE /\ IF HelpTail
                                           THEN /\ pc' = [pc EXCEPT ![self] = "d_ldt"]
                                           ELSE /\ pc' = [pc EXCEPT ![self] = "d_cas"]
                                     /\ UNCHANGED << nalloc, alive, node >>
                          /\ res' = res
               /\ UNCHANGED << mem, sb, pend, cfgs, ovt, stale, stl, tailp, 
                               incs, gpw, cbq, fin, batch, i, op, a, hd, indq, 
                               got >>

d_mkd(self) == /\ pc[self] = "d_mkd"
               /\ Drained(self)
               /\ mem' = [mem EXCEPT ![(NextOf(node[self]))] = NULL]
               /\ acc' = Ev(self, "st", (NextOf(node[self])), NULL, "-", "-")
               /\ indq' = [indq EXCEPT ![self] = TRUE]
               /\ pc' = [pc EXCEPT ![self] = "e_ldt"]
               /\ UNCHANGED << sb, pend, cfgs, nalloc, alive, uaf, ovt, stale, 
                               stl, tailp, incs, gpw, cbq, fin, batch, i, op, 
                               a, node, next, res, hd, got >>

d_ldn2(self) == /\ pc[self] = "d_ldn2"
                /\ next' = [next EXCEPT ![self] = Rd(self, (NextOf(hd[self])))]
                /\ acc' = Ev(self, "ld", (NextOf(hd[self])), "-", "-", Rd(self, (NextOf(hd[self]))))
                /\ uaf' = (uaf \/ ~alive[hd[self]])
                /\ IF HelpTail
                      THEN /\ pc' = [pc EXCEPT ![self] = "d_ldt"]
                      ELSE /\ pc' = [pc EXCEPT ![self] = "d_cas"]
                /\ UNCHANGED << mem, sb, pend, cfgs, nalloc, alive, ovt, stale, 
                                stl, tailp, incs, gpw, cbq, fin, batch, i, op, 
                                a, node, res, hd, indq, got >>

d_ldt(self) == /\ pc[self] = "d_ldt"
               /\ tailp' = [tailp EXCEPT ![self] = Rd(self, QTail)]
               /\ acc' = Ev(self, "ld", QTail, "-", "-", Rd(self, QTail))
               /\ IF tailp'[self] # hd[self]
                     THEN /\ pc' = [pc EXCEPT ![self] = "d_cas"]
                     ELSE /\ pc' = [pc EXCEPT ![self] = "d_help"]
               /\ UNCHANGED << mem, sb, pend, cfgs, nalloc, alive, uaf, ovt, 
                               stale, stl, incs, gpw, cbq, fin, batch, i, op, 
                               a, node, next, res, hd, indq, got >>

d_help(self) == /\ pc[self] = "d_help"
                /\ Drained(self)
                /\ a' = [a EXCEPT ![self] = mem[QTail]]
                /\ IF mem[QTail] = hd[self]
                      THEN /\ mem' = [mem EXCEPT ![QTail] = next[self]]
                      ELSE /\ TRUE
                           /\ mem' = mem
                /\ acc' = Ev(self, "cas", QTail, hd[self], next[self], a'[self])
                /\ pc' = [pc EXCEPT ![self] = "d_cas"]
                /\ UNCHANGED << sb, pend, cfgs, nalloc, alive, uaf, ovt, stale, 
                                stl, tailp, incs, gpw, cbq, fin, batch, i, op, 
                                node, next, res, hd, indq, got >>

d_cas(self) == /\ pc[self] = "d_cas"
               /\ Drained(self)
               /\ a' = [a EXCEPT ![self] = mem[QHead]]
               /\ IF mem[QHead] = hd[self]
                     THEN /\ mem' = [mem EXCEPT ![QHead] = next[self]]
                     ELSE /\ TRUE
                          /\ mem' = mem
               /\ acc' = Ev(self, "cas", QHead, hd[self], next[self], a'[self])
               /\ IF a'[self] # hd[self]
                     THEN /\ pc' = [pc EXCEPT ![self] = "d_ldh"]
                          /\ UNCHANGED << uaf, ovt, res >>
                     ELSE /\ uaf' = (uaf \/ ~alive[hd[self]])
                          /\ IF mem'[QTail] = hd[self]
                                THEN /\ ovt' = (ovt \cup {hd[self]})
                                ELSE /\ TRUE
                                     /\ ovt' = ovt
                          /\ IF hd[self] \in Dummies
                                THEN /\ pc' = [pc EXCEPT ![self] = "d_crcu"]
                                     /\ res' = res
                                ELSE /\ res' = [res EXCEPT ![self] = hd[self]]
                                     /\ pc' = [pc EXCEPT ![self] = "t_ret"]
               /\ UNCHANGED << sb, pend, cfgs, nalloc, alive, stale, stl, 
                               tailp, incs, gpw, cbq, fin, batch, i, op, node, 
                               next, hd, indq, got >>

d_crcu(self) == /\ pc[self] = "d_crcu"
                /\ cbq' = Append(cbq, hd[self])
                /\ pc' = [pc EXCEPT ![self] = "d_ldh"]
                /\ UNCHANGED << mem, sb, acc, pend, cfgs, nalloc, alive, uaf, 
                                ovt, stale, stl, tailp, incs, gpw, fin, batch, 
                                i, op, a, node, next, res, hd, indq, got >>

x_ldh(self) == /\ pc[self] = "x_ldh"
               /\ hd' = [hd EXCEPT ![self] = Rd(self, QHead)]
               /\ acc' = Ev(self, "ld", QHead, "-", "-", Rd(self, QHead))
               /\ uaf' = (uaf \/ ~alive[hd'[self]])
               /\ IF hd'[self] \notin Dummies
                     THEN /\ res' = [res EXCEPT ![self] = "-1"]
                          /\ pc' = [pc EXCEPT ![self] = "t_ret"]
                     ELSE /\ pc' = [pc EXCEPT ![self] = "x_ldn"]
                          /\ res' = res
               /\ UNCHANGED << mem, sb, pend, cfgs, nalloc, alive, ovt, stale, 
                               stl, tailp, incs, gpw, cbq, fin, batch, i, op, 
                               a, node, next, indq, got >>

x_ldn(self) == /\ pc[self] = "x_ldn"
               /\ next' = [next EXCEPT ![self] = Rd(self, (NextOf(hd[self])))]
               /\ acc' = Ev(self, "ld", (NextOf(hd[self])), "-", "-", Rd(self, (NextOf(hd[self]))))
               /\ uaf' = (uaf \/ ~alive[hd[self]])
               /\ IF next'[self] # NULL
                     THEN /\ res' = [res EXCEPT ![self] = "-1"]
                          /\ pc' = [pc EXCEPT ![self] = "t_ret"]
                     ELSE /\ pc' = [pc EXCEPT ![self] = "x_free"]
                          /\ res' = res
               /\ UNCHANGED << mem, sb, pend, cfgs, nalloc, alive, ovt, stale, 
                               stl, tailp, incs, gpw, cbq, fin, batch, i, op, 
                               a, node, hd, indq, got >>

x_free(self) == /\ pc[self] = "x_free"
                /\ alive' = [alive EXCEPT ![hd[self]] = FALSE]
                /\ res' = [res EXCEPT ![self] = "0"]
                /\ pc' = [pc EXCEPT ![self] = "t_ret"]
                /\ UNCHANGED << mem, sb, acc, pend, cfgs, nalloc, uaf, ovt, 
                                stale, stl, tailp, incs, gpw, cbq, fin, batch, 
                                i, op, a, node, next, hd, indq, got >>

s_end(self) == /\ pc[self] = "s_end"
               /\ gpw[self] = {}
               /\ acc' = Ev(self, "gp_end", "-", "-", "-", "-")
               /\ pc' = [pc EXCEPT ![self] = "t_ret"]
               /\ UNCHANGED << mem, sb, pend, cfgs, nalloc, alive, uaf, ovt, 
                               stale, stl, tailp, incs, gpw, cbq, fin, batch, 
                               i, op, a, node, next, res, hd, indq, got >>

f_free(self) == /\ pc[self] = "f_free"
                /\ alive' = [alive EXCEPT ![Head(got[self])] = FALSE]
                /\ got' = [got EXCEPT ![self] = Tail(got[self])]
                /\ IF got'[self] # <<>>
                      THEN /\ pc' = [pc EXCEPT ![self] = "f_free"]
                      ELSE /\ pc' = [pc EXCEPT ![self] = "t_ret"]
                /\ UNCHANGED << mem, sb, acc, pend, cfgs, nalloc, uaf, ovt, 
                                stale, stl, tailp, incs, gpw, cbq, fin, batch, 
                                i, op, a, node, next, res, hd, indq >>

w_join(self) == /\ pc[self] = "w_join"
                /\ \A k \in DOMAIN op[self].ts : fin[op[self].ts[k]]
                /\ acc' = Ev(self, "joined", "-", "-", "-", "-")
                /\ pc' = [pc EXCEPT ![self] = "t_ret"]
                /\ UNCHANGED << mem, sb, pend, cfgs, nalloc, alive, uaf, ovt, 
                                stale, stl, tailp, incs, gpw, cbq, fin, batch, 
                                i, op, a, node, next, res, hd, indq, got >>

t_ret(self) == /\ pc[self] = "t_ret"
               /\ /\ cfgs' = LM!AfterReturn(cfgs, pend, self, res[self])
                  /\ pend' = [pend EXCEPT ![self] = LM!NoOp]
               /\ IF incs[self]
                     THEN /\ incs' = [incs EXCEPT ![self] = FALSE]
                          /\ gpw' = [w \in Waiters |-> gpw[w] \ {self}]
                     ELSE /\ TRUE
                          /\ UNCHANGED << incs, gpw >>
               /\ IF op[self].op = "deq" /\ res[self] # NULL
                     THEN /\ got' = [got EXCEPT ![self] = Append(got[self], res[self])]
                     ELSE /\ TRUE
                          /\ got' = got
               /\ IF i[self] = Len(Prog[self])
                     THEN /\ fin' = [fin EXCEPT ![self] = TRUE]
                     ELSE /\ TRUE
                          /\ fin' = fin
               /\ i' = [i EXCEPT ![self] = i[self] + 1]
               /\ pc' = [pc EXCEPT ![self] = "t_top"]
               /\ UNCHANGED << mem, sb, acc, nalloc, alive, uaf, ovt, stale, 
                               stl, tailp, cbq, batch, op, a, node, next, res, 
                               hd, indq >>

thr(self) == t_top(self) \/ e_ldt(self) \/ e_mb(self) \/ e_cas(self)
                \/ e_help(self) \/ e_adv(self) \/ d_ldh(self)
                \/ d_ldn(self) \/ d_mkd(self) \/ d_ldn2(self)
                \/ d_ldt(self) \/ d_help(self) \/ d_cas(self)
                \/ d_crcu(self) \/ x_ldh(self) \/ x_ldn(self)
                \/ x_free(self) \/ s_end(self) \/ f_free(self)
                \/ w_join(self) \/ t_ret(self)

Next == (\E self \in Flushers: flusher(self))
           \/ (\E self \in {RCU}: rcu(self))
           \/ (\E self \in Threads: thr(self))

Spec == /\ Init /\ [][Next]_vars
        /\ \A self \in Flushers : WF_vars(flusher(self))
        /\ \A self \in {RCU} : WF_vars(rcu(self))
        /\ \A self \in Threads : WF_vars(thr(self))

\* END TRANSLATION

AllDone == \A t \in Threads : pc[t] = "Done"
RcuIdle == pc[RCU] = "r_wait" /\ cbq = <<>>
\* nodes reachable from q.head through next (bounded walk)
RECURSIVE ChainFrom(_, _)
ChainFrom(n, fuel) == IF n = NULL \/ fuel = 0 THEN <<>> ELSE <<n>> \o ChainFrom(mem[NextOf(n)], fuel - 1)
Chain == ChainFrom(mem[QHead], Cardinality(Nodes) + 1)
UserPart(s) == SelectSeq(s, LAMBDA x : x \in UserNodes)
HasDestroy == \E o \in AllOps : o.op = "destroy"
\* at quiescence the physical queue is the abstract queue of a surviving linearisation (operations that overlapped and
\* whose order nobody observed leave several), the tail is the last node
Conservation == (AllDone /\ ~stale) => /\ \E c \in cfgs : c.abs = UserPart(Chain)
                           /\ Len(Chain) >= 1 /\ mem[QTail] = Chain[Len(Chain)]
                           /\ \A t \in Threads : sb[t] = <<>>
\* a dequeue never returns a dummy node
\* with the repair candidate head never overtakes tail
NoOvertake == HelpTail => ovt = {}
NoDummyReturned == stale \/ \A t \in Threads : (pc[t] = "t_ret" /\ op[t].op = "deq") => res[t] \notin Dummies
\* every allocated dummy is either still linked or was freed (after its grace period); linked nodes are alive unless the queue was destroyed
NoLeak == (AllDone /\ RcuIdle /\ ~stale) =>
            /\ \A k \in 1..nalloc : alive[Dm(k)] => \E j \in DOMAIN Chain : Chain[j] = Dm(k)
            /\ \A j \in DOMAIN Chain : alive[Chain[j]] \/ (HasDestroy /\ Len(Chain) = 1)
\* deadlock freedom with an explicit notion of termination (flushers and the rcu worker never terminate)
DeadlockFree == AllDone \/ ENABLED Next
SBBound == \A t \in Threads : Len(sb[t]) <= SBMax
=============================================================================
