-------------------------------- MODULE Defer --------------------------------
(***************************************************************************)
(* C13, part (b): the defer_rcu protocol of src/urcu-defer-impl.h at the   *)
(* granularity of one action per shared-memory access or blocking call,    *)
(* under SC or x86-TSO store buffers.  (Part (a), the encoder/decoder as a *)
(* sequential object over all value sequences, is module DeferCodec; the    *)
(* value operators IsBit/SetBit/ClearBit/Enc of DeferVal are used here.)   *)
(*                                                                         *)
(* Threads execute the operation sequences of a scenario (Prog):           *)
(*   [op |-> "reg"]             rcu_defer_register_thread()                *)
(*   [op |-> "unreg"]           rcu_defer_unregister_thread()              *)
(*   [op |-> "defer", f, p]     defer_rcu(f, p)                            *)
(*   [op |-> "barrier"]         rcu_defer_barrier()                        *)
(*   [op |-> "barrier_thread"]  rcu_defer_barrier_thread()                 *)
(*   [op |-> "rlock"/"runlock"] read-side critical section begin / end     *)
(*   [op |-> "waitcb"]          no API call: wait until every call this    *)
(*                              thread queued has been invoked (only the   *)
(*                              background reclaimer can make it so)       *)
(* Reclaimer threads thr_defer are processes h1, h2, ... (a new one is     *)
(* started each time the registry becomes non-empty).                      *)
(*                                                                         *)
(* The grace period is abstract (DESIGN: AbstractRcu): synchronize_rcu()   *)
(* is gp_b (snapshot of the open read-side sections) followed by gp_e, a   *)
(* blocking step enabled once all of them have ended.                      *)
(*                                                                         *)
(* Shared locations: "futex" (defer_thread_futex), "stop"                  *)
(* (defer_thread_stop), per queuing thread t: t.head, t.tail, t.q0..q(Q-1).*)
(* Data that the code accesses as plain memory under rcu_defer_mutex or    *)
(* thread-privately (registry_defer, last_fct_in/out, last_head, q         *)
(* pointer) are ordinary variables updated inside the critical sections;   *)
(* the unlocked cds_list_empty(&registry_defer) of rcu_defer_barrier() is  *)
(* its own step (b_empty).                                                 *)
(*                                                                         *)
(* acc is the "last access" ghost used by trace validation; it only        *)
(* changes when Tracing = TRUE.  Every step that corresponds to an event   *)
(* of the VSCHED runtime (hooked access, barrier, mutex, futex, thread     *)
(* start/join/exit) or of the driver (call, ret, cb, rlock, runlock, and   *)
(* gp_begin/gp_end derived from the projected grace-period internals) sets *)
(* it; all other steps are silent.                                         *)
(***************************************************************************)
EXTENDS DeferVal, Naturals, Integers, Sequences, FiniteSets, TLC

CONSTANTS Threads,    \* set of scenario thread ids (strings)
          Prog,       \* [Threads -> Seq(op record)], records [op, f, p]
          TSO,        \* TRUE: stores are buffered (x86-TSO); FALSE: sequential consistency
          Tracing,    \* TRUE: maintain acc
          SBMax,      \* capacity of a store buffer (a store waits while the buffer is full)
          Q,          \* DEFER_QUEUE_SIZE
          NRecl,      \* number of reclaimer thread incarnations available (>= number of "reg" operations)
          Spurious    \* budget of spurious / EINTR returns of FUTEX_WAIT

RName(k) == "h" \o ToString(k)
Recl == {RName(k) : k \in 1..NRecl}
Procs == Threads \cup Recl
HeadOf(t) == t \o ".head"
TailOf(t) == t \o ".tail"
Slot(t, k) == t \o ".q" \o ToString(k)
IntLocs == {"futex", "stop"} \cup {HeadOf(t) : t \in Threads} \cup {TailOf(t) : t \in Threads}
SlotLocs == {Slot(t, k) : t \in Threads, k \in 0..(Q - 1)}
Locs == IntLocs \cup SlotLocs
DM == "rcu_defer_mutex"
TM == "defer_thread_mutex"
FlId(t) == "F:" \o t
Flushers == {FlId(t) : t \in Procs}
FlOf == [f \in Flushers |-> CHOOSE t \in Procs : FlId(t) = f]
FaId(h) == "W:" \o h
Faulters == {FaId(h) : h \in Recl}
FaOf == [f \in Faulters |-> CHOOSE h \in Recl : FaId(h) = f]
NoOp == [op |-> "none", f |-> "-", p |-> "-"]
Without(s, x) == SelectSeq(s, LAMBDA y : y # x)

(* --algorithm defer {
variables
  mem = [l \in Locs |-> IF l \in IntLocs THEN 0 ELSE "JUNK"],
  sb = [t \in Procs |-> <<>>],
  lock = [m \in {DM, TM} |-> "free"],
  acc = [k |-> 0],
  fsleep = {},                              \* threads blocked in FUTEX_WAIT on defer_thread_futex
  spur = Spurious,
  fkind = [h \in Recl |-> "WAKE"],          \* how the sleeper's FUTEX_WAIT will return: WAKE, or the fault a fault agent chose
  \* plain data (under rcu_defer_mutex / defer_thread_mutex, or private to the owner)
  registry = <<>>,                          \* registry_defer, newest first (cds_list_add)
  lfi = [t \in Threads |-> NULL],           \* last_fct_in
  lfo = [t \in Threads |-> NULL],           \* last_fct_out
  lasthead = [t \in Threads |-> 0],         \* last_head
  qalloc = [t \in Threads |-> FALSE],       \* q != NULL
  tid = "none",                             \* tid_defer
  nrecl = 0,
  started = [h \in Recl |-> FALSE],
  \* ghosts of the property
  cs = [t \in Threads |-> 0],               \* id of the open read-side section of t (0: none)
  ncs = 0,
  pendq = [t \in Threads |-> <<>>],         \* calls queued by t and not yet invoked: [f, p, snap]
  err = "",                                 \* first property violation / failed assertion of the code
  \* per-process temporaries (procedures have no locals: a return restores them in the same step)
  pci = [t \in Threads |-> 1],              \* index of the next operation
  opx = [t \in Threads |-> NoOp],           \* current operation
  iv = [t \in Procs |-> 0],                 \* integer loaded
  pv = [t \in Procs |-> NULL],              \* pointer loaded (decoder's p)
  dhead = [t \in Procs |-> 0],              \* _defer_rcu: head
  dtail = [t \in Procs |-> 0],              \* _defer_rcu: tail
  enc = [t \in Procs |-> <<>>],             \* _defer_rcu: slots to write
  bhead = [t \in Procs |-> 0],              \* _rcu_defer_barrier_thread: head
  own = [t \in Procs |-> NULL],             \* rcu_defer_barrier_queue: owner of the queue
  qh = [t \in Procs |-> 0],                 \* rcu_defer_barrier_queue: head argument
  qi = [t \in Procs |-> 0],                 \* rcu_defer_barrier_queue: i
  regs = [t \in Procs |-> <<>>],            \* list traversal: the registry as seen under the mutex
  kk = [t \in Procs |-> 1],                 \* loop index
  num = [t \in Procs |-> 0],                \* num_items
  flag = [t \in Procs |-> FALSE],           \* was_empty / is_empty
  gps = [t \in Procs |-> {}];               \* synchronize_rcu: sections to wait for

define {
  LastIdx(t, loc) == LET S == {i \in DOMAIN sb[t] : sb[t][i][1] = loc} IN
                     IF S = {} THEN 0 ELSE CHOOSE i \in S : \A j \in S : j <= i
  Rd(t, loc) == IF LastIdx(t, loc) = 0 THEN mem[loc] ELSE sb[t][LastIdx(t, loc)][2]
  Drained(t) == sb[t] = <<>>
  Ev(t, op, var, a, b, r) == IF Tracing THEN [k |-> acc.k + 1, t |-> t, op |-> op, var |-> var, a |-> a, b |-> b, r |-> r] ELSE acc
  OpenNow == {cs[t] : t \in Threads} \ {0}
}

macro Ld(dst, loc)   { dst := Rd(self, loc); acc := Ev(self, "ld", loc, "-", "-", Rd(self, loc)); }
macro St(loc, v)     { if (TSO) { await Len(sb[self]) < SBMax; sb[self] := Append(sb[self], <<loc, v>>) } else { mem[loc] := v };
                       acc := Ev(self, "st", loc, v, "-", "-"); }
macro Dec(loc)       { await Drained(self); mem[loc] := mem[loc] - 1; acc := Ev(self, "dec", loc, "-", "-", mem[loc]); }
macro Mb()           { await Drained(self); acc := Ev(self, "mb", "-", "-", "-", "-"); }
macro Lock(m)        { await Drained(self) /\ lock[m] = "free"; lock[m] := self; acc := Ev(self, "lock", m, "-", "-", "-"); }
macro Unlock(m)      { await Drained(self); lock[m] := "free"; acc := Ev(self, "unlock", m, "-", "-", "-"); }
macro FWake(loc)     { await Drained(self); acc := Ev(self, "fwake", loc, "-", "-", Cardinality(fsleep)); fsleep := {}; }
macro Fail(what)     { if (err = "") { err := what } }

\* ------------------------------------------------------------------ synchronize_rcu(): abstract grace period
procedure synchronize_rcu() {
gp_b:   await Drained(self);
        gps[self] := OpenNow;
        acc := Ev(self, "gp_begin", "-", "-", "-", "-");
gp_e:   await gps[self] \cap OpenNow = {};
        acc := Ev(self, "gp_end", "-", "-", "-", "-");
        return;
}

\* ------------------------------------------------------------------ wake_up_defer()
procedure wake_up_defer() {
wk_ld:  Ld(iv[self], "futex");                                   \* if (uatomic_load(&defer_thread_futex) == -1)
        if (iv[self] # -1) { return };
wk_st:  St("futex", 0);                                          \*   uatomic_store(&defer_thread_futex, 0)
wk_fw:  FWake("futex");                                          \*   futex_noasync(&defer_thread_futex, FUTEX_WAKE, 1, ...)
        return;
}

\* ------------------------------------------------------------------ rcu_defer_barrier_queue(queue of own, qh)
procedure barrier_queue() {
q_top:  qi[self] := Rd(self, TailOf(own[self]));                   \* i = queue->tail (plain, under rcu_defer_mutex)
q_loop: while (qi[self] # qh[self]) {                            \* for (; i != head;)   (cmm_smp_rmb: no-op on x86)
q_ld1:    Ld(pv[self], Slot(own[self], qi[self] % Q));           \* p = uatomic_load(&queue->q[i++ & MASK])
          qi[self] := qi[self] + 1;
          if (IsBit(pv[self])) {                                 \* DQ_IS_FCT_BIT(p): last_fct_out = p & ~1
            lfo[own[self]] := ClearBit(pv[self]); goto q_ld2
          } else if (pv[self] = MARK) { goto q_ld3 }             \* p == DQ_FCT_MARK
          else { goto q_call };
q_ld2:    Ld(pv[self], Slot(own[self], qi[self] % Q));           \* p = uatomic_load(&queue->q[i++ & MASK])
          qi[self] := qi[self] + 1;
          goto q_call;
q_ld3:    Ld(pv[self], Slot(own[self], qi[self] % Q));           \* p = uatomic_load(...); last_fct_out = p
          qi[self] := qi[self] + 1;
          lfo[own[self]] := pv[self];
q_ld4:    Ld(pv[self], Slot(own[self], qi[self] % Q));           \* p = uatomic_load(&queue->q[i++ & MASK])
          qi[self] := qi[self] + 1;
q_call:   if (pendq[own[self]] = <<>>)                           \* fct = queue->last_fct_out; fct(p)
            { Fail("a call that is not pending was invoked (duplicated or never queued)") }
          else {
            if (Head(pendq[own[self]]).f # lfo[own[self]] \/ Head(pendq[own[self]]).p # pv[self])
              { Fail("the invoked (function, argument) is not the oldest pending call of the queue") }
            else if (Head(pendq[own[self]]).snap \cap OpenNow # {})
              { Fail("a call was invoked while a read-side section open when it was queued is still open") };
            pendq[own[self]] := Tail(pendq[own[self]])
          };
          acc := Ev(self, "cb", "-", lfo[own[self]], pv[self], "-");
        };
q_mb:   Mb();                                                    \* cmm_smp_mb(): push tail after having used q[]
q_st:   St(TailOf(own[self]), qi[self]);                           \* uatomic_store(&queue->tail, i)
        return;
}

\* ------------------------------------------------------------------ _rcu_defer_barrier_thread() (rcu_defer_mutex held)
procedure barrier_thread_locked() {
btl_top: bhead[self] := Rd(self, HeadOf(self));                    \* head = defer_queue.head; num_items = head - tail
         if (bhead[self] - Rd(self, TailOf(self)) = 0) { return };
btl_gp:  call synchronize_rcu();
btl_q:   own[self] := self; qh[self] := bhead[self];
         call barrier_queue();                                   \* rcu_defer_barrier_queue(&defer_queue, head)
btl_ret: return;
}

\* ------------------------------------------------------------------ rcu_defer_barrier_thread()
procedure barrier_thread() {
bt_lock: Lock(DM);
bt_body: call barrier_thread_locked();
bt_unl:  Unlock(DM);
         return;
}

\* ------------------------------------------------------------------ rcu_defer_barrier()
procedure barrier() {
b_empty: if (registry = <<>>) { return };                        \* cds_list_empty(&registry_defer), without the mutex
b_lock:  Lock(DM);
         regs[self] := registry; num[self] := 0; kk[self] := 1;
b_scan:  while (kk[self] <= Len(regs[self])) {                   \* cds_list_for_each_entry(index, &registry_defer, list)
           Ld(iv[self], HeadOf(regs[self][kk[self]]));             \*   index->last_head = uatomic_load(&index->head)
           lasthead[regs[self][kk[self]]] := iv[self];
           num[self] := num[self] + (iv[self] - Rd(self, TailOf(regs[self][kk[self]])));
           kk[self] := kk[self] + 1;
         };
b_chk:   if (num[self] = 0) { goto b_unl };                      \* no queued callbacks: skip the grace period
b_gp:    call synchronize_rcu();
b_q0:    kk[self] := 1;
b_q:     while (kk[self] <= Len(regs[self])) {                   \* rcu_defer_barrier_queue(index, index->last_head)
           own[self] := regs[self][kk[self]]; qh[self] := lasthead[regs[self][kk[self]]];
           kk[self] := kk[self] + 1;
           call barrier_queue();
         };
b_unl:   Unlock(DM);
         return;
}

\* ------------------------------------------------------------------ _defer_rcu(opx.f, opx.p)
procedure defer_rcu() {
e_ldt:  dhead[self] := Rd(self, HeadOf(self));                     \* head = defer_queue.head (own, plain)
        Ld(dtail[self], TailOf(self));                             \* tail = uatomic_load(&defer_queue.tail)
        if (dhead[self] - dtail[self] < Q - 2) { goto e_enc };
e_full: if (dhead[self] - dtail[self] > Q) { Fail("assertion head - tail <= DEFER_QUEUE_SIZE failed") };
        call barrier_thread();                                   \* queue full: rcu_defer_barrier_thread()
e_asrt: Ld(dtail[self], TailOf(self));                             \* assert(head - uatomic_load(&tail) == 0)
        if (dhead[self] - dtail[self] # 0) { Fail("assertion head - tail == 0 after the synchronous flush failed") };
e_enc:  enc[self] := Enc(lfi[self], opx[self].f, opx[self].p);   \* three-way encoding; last_fct_in = fct
        lfi[self] := opx[self].f;
        kk[self] := 1;
e_st:   while (kk[self] <= Len(enc[self])) {                     \* uatomic_store(&q[head++ & MASK], ...)
          St(Slot(self, dhead[self] % Q), enc[self][kk[self]]);
          dhead[self] := dhead[self] + 1;
          kk[self] := kk[self] + 1;
        };
e_sth:  St(HeadOf(self), dhead[self]);                             \* (cmm_smp_wmb) uatomic_store(&defer_queue.head, head)
e_mb:   Mb();                                                    \* cmm_smp_mb(): write queue head before read futex
e_wake: call wake_up_defer();
e_ret:  return;
}

\* ------------------------------------------------------------------ rcu_defer_register_thread()
procedure register() {
r_chk:  if (lasthead[self] # 0 \/ qalloc[self])                  \* assert(last_head == 0); assert(q == NULL); q = malloc
          { Fail("rcu_defer_register_thread: assertion last_head == 0 / q == NULL failed") };
        qalloc[self] := TRUE;
r_lk1:  Lock(TM);
r_lk2:  Lock(DM);
r_add:  flag[self] := (registry = <<>>);                         \* was_empty = cds_list_empty(); cds_list_add()
        registry := <<self>> \o registry;
r_ul2:  Unlock(DM);
r_start: if (flag[self]) {                                       \* start_defer_thread(): pthread_create(&tid_defer, thr_defer)
          if (nrecl >= NRecl) { Fail("NRecl too small for this scenario") }
          else { nrecl := nrecl + 1; tid := RName(nrecl); started[RName(nrecl)] := TRUE;
                 acc := Ev(self, "spawn", RName(nrecl), "-", "-", "-") }
        };
r_ul1:  Unlock(TM);
        return;
}

\* ------------------------------------------------------------------ rcu_defer_unregister_thread()
procedure unregister() {
u_lk1:  Lock(TM);
u_lk2:  Lock(DM);
u_del:  registry := Without(registry, self);                     \* cds_list_del(&defer_queue.list)
        call barrier_thread_locked();                            \* _rcu_defer_barrier_thread()
u_free: qalloc[self] := FALSE;                                   \* free(q); q = NULL
        lasthead[self] := 0;                                     \* last_head = 0 (commit 5c1b4a8)
        flag[self] := (registry = <<>>);                         \* is_empty = cds_list_empty()
u_ul2:  Unlock(DM);
        if (~flag[self]) { goto u_ul1 };
s_st1:  St("stop", 1);                                           \* stop_defer_thread(): uatomic_store(&defer_thread_stop, 1)
s_mb:   Mb();                                                    \* store defer_thread_stop before testing futex
s_wake: call wake_up_defer();
s_join: await pc[tid] = "Done";                                  \* pthread_join(tid_defer)
        acc := Ev(self, "join", tid, "-", "-", "-");
s_st0:  St("stop", 0);                                           \* uatomic_store(&defer_thread_stop, 0)
s_ld:   Ld(iv[self], "futex");                                   \* assert(uatomic_load(&defer_thread_futex) == 0)
        if (iv[self] # 0) { Fail("assertion defer_thread_futex == 0 after stopping the reclaimer failed") };
u_ul1:  Unlock(TM);
        return;
}

\* spurious / EINTR return of FUTEX_WAIT in two steps, as in the kernel (and the runtime): the fault takes the sleeper off the futex
\* queue at once -- a FUTEX_WAKE issued before the sleeper runs again finds nobody -- and the sleeper reports it when it next runs
process (faulter \in Faulters) {
fa: while (TRUE) {
      await FaOf[self] \in fsleep /\ spur > 0;
      spur := spur - 1; fsleep := fsleep \ {FaOf[self]};
      with (k \in {"SPURIOUS", "EINTR"}) { fkind[FaOf[self]] := k };
    }
}

fair process (flusher \in Flushers) {
fl: while (TRUE) {
      await sb[FlOf[self]] # <<>>;
      mem[Head(sb[FlOf[self]])[1]] := Head(sb[FlOf[self]])[2] || sb[FlOf[self]] := Tail(sb[FlOf[self]])
      || acc := IF Tracing THEN [k |-> acc.k + 1, t |-> FlOf[self], op |-> "flush", var |-> Head(sb[FlOf[self]])[1],
                               a |-> Head(sb[FlOf[self]])[2], b |-> "-", r |-> "-"] ELSE acc;
    }
}

\* ------------------------------------------------------------------ thr_defer(): the background reclaimer
fair process (recl \in Recl) {
h_idle: await started[self];
h_loop: while (TRUE) {
          \* wait_defer()
w_dec:    Dec("futex");                                          \* uatomic_dec(&defer_thread_futex)
w_mb:     Mb();                                                  \* write futex before read queue / defer_thread_stop
w_stop:   Ld(iv[self], "stop");                                  \* if (uatomic_load(&defer_thread_stop))
          if (iv[self] # 0) { goto w_exit };
w_lock:   Lock(DM);                                              \* rcu_defer_num_callbacks()
          regs[self] := registry; num[self] := 0; kk[self] := 1;
w_scan:   while (kk[self] <= Len(regs[self])) {
            Ld(iv[self], HeadOf(regs[self][kk[self]]));            \*   head = uatomic_load(&index->head)
            num[self] := num[self] + (iv[self] - Rd(self, TailOf(regs[self][kk[self]])));
            kk[self] := kk[self] + 1;
          };
w_unl:    Unlock(DM);
          if (num[self] = 0) { goto w_ldf };
w_mb2:    Mb();                                                  \* callbacks are queued, don't wait: read queue before write futex
w_st:     St("futex", 0);                                        \* uatomic_store(&defer_thread_futex, 0)
          goto h_bar;
w_ldf:    Ld(iv[self], "futex");                                 \* (cmm_smp_rmb) while (uatomic_load(&defer_thread_futex) == -1)
          if (iv[self] # -1) { goto h_bar };
w_fwait:  await Drained(self);                                   \* futex_noasync(&defer_thread_futex, FUTEX_WAIT, -1, ...)
          if (mem["futex"] = -1) { fsleep := fsleep \cup {self}; acc := Ev(self, "fwait", "futex", -1, "-", "SLEEP") }
          else { acc := Ev(self, "fwait", "futex", -1, "-", "EAGAIN"); goto h_bar };   \* EAGAIN: value already changed
w_fwoke:  await self \notin fsleep;                               \* woken by FUTEX_WAKE, or taken off the futex queue by a fault agent earlier
          acc := Ev(self, "fwoke", "futex", "-", "-", fkind[self]); fkind[self] := "WAKE";
          goto w_ldf;                                            \* 0 / EINTR: check the value again
h_bar:    call barrier();                                        \* (poll(NULL, 0, 100)) rcu_defer_barrier()
        };
w_exit: St("futex", 0);                                          \* uatomic_store(&defer_thread_futex, 0); pthread_exit(0)
h_exit: await Drained(self);
        acc := Ev(self, "exit", "-", "-", "-", "-");
}

\* ------------------------------------------------------------------ scenario threads
fair process (thr \in Threads) {
t_top:  while (pci[self] <= Len(Prog[self])) {
          opx[self] := Prog[self][pci[self]];
          if (opx[self].op = "rlock") {
            cs[self] := ncs + 1; ncs := ncs + 1; pci[self] := pci[self] + 1;
            acc := Ev(self, "rlock", "-", "-", "-", "-");
            goto t_top
          } else if (opx[self].op = "runlock") {
            cs[self] := 0; pci[self] := pci[self] + 1;
            acc := Ev(self, "runlock", "-", "-", "-", "-");
            goto t_top
          } else {
            if (opx[self].op = "defer")
              { pendq[self] := Append(pendq[self], [f |-> opx[self].f, p |-> opx[self].p, snap |-> OpenNow]) };
            acc := Ev(self, "call", "-", opx[self].op, opx[self].f, opx[self].p);
          };
t_disp:   if (opx[self].op = "defer") { call defer_rcu() }
          else if (opx[self].op = "reg") { call register() }
          else if (opx[self].op = "unreg") { call unregister() }
          else if (opx[self].op = "barrier") { call barrier() }
          else if (opx[self].op = "barrier_thread") { call barrier_thread() }
          else { await pendq[self] = <<>> };                     \* waitcb
t_ret:    if (opx[self].op \in {"unreg", "barrier", "barrier_thread"} /\ pendq[self] # <<>>)
            { Fail("barrier / unregister returned while calls queued before it by the caller have not run") };
          acc := Ev(self, "ret", "-", "-", "-", "-");
          pci[self] := pci[self] + 1;
        };
t_exit: await Drained(self);
        acc := Ev(self, "exit", "-", "-", "-", "-");
}
} *)
\* BEGIN TRANSLATION
VARIABLES pc, mem, sb, lock, acc, fsleep, spur, fkind, registry, lfi, lfo, 
          lasthead, qalloc, tid, nrecl, started, cs, ncs, pendq, err, pci, 
          opx, iv, pv, dhead, dtail, enc, bhead, own, qh, qi, regs, kk, num, 
          flag, gps, stack

(* define statement *)
LastIdx(t, loc) == LET S == {i \in DOMAIN sb[t] : sb[t][i][1] = loc} IN
                   IF S = {} THEN 0 ELSE CHOOSE i \in S : \A j \in S : j <= i
Rd(t, loc) == IF LastIdx(t, loc) = 0 THEN mem[loc] ELSE sb[t][LastIdx(t, loc)][2]
Drained(t) == sb[t] = <<>>
Ev(t, op, var, a, b, r) == IF Tracing THEN [k |-> acc.k + 1, t |-> t, op |-> op, var |-> var, a |-> a, b |-> b, r |-> r] ELSE acc
OpenNow == {cs[t] : t \in Threads} \ {0}


vars == << pc, mem, sb, lock, acc, fsleep, spur, fkind, registry, lfi, lfo, 
           lasthead, qalloc, tid, nrecl, started, cs, ncs, pendq, err, pci, 
           opx, iv, pv, dhead, dtail, enc, bhead, own, qh, qi, regs, kk, num, 
           flag, gps, stack >>

ProcSet == (Faulters) \cup (Flushers) \cup (Recl) \cup (Threads)

Init == (* Global variables *)
        /\ mem = [l \in Locs |-> IF l \in IntLocs THEN 0 ELSE "JUNK"]
        /\ sb = [t \in Procs |-> <<>>]
        /\ lock = [m \in {DM, TM} |-> "free"]
        /\ acc = [k |-> 0]
        /\ fsleep = {}
        /\ spur = Spurious
        /\ fkind = [h \in Recl |-> "WAKE"]
        /\ registry = <<>>
        /\ lfi = [t \in Threads |-> NULL]
        /\ lfo = [t \in Threads |-> NULL]
        /\ lasthead = [t \in Threads |-> 0]
        /\ qalloc = [t \in Threads |-> FALSE]
        /\ tid = "none"
        /\ nrecl = 0
        /\ started = [h \in Recl |-> FALSE]
        /\ cs = [t \in Threads |-> 0]
        /\ ncs = 0
        /\ pendq = [t \in Threads |-> <<>>]
        /\ err = ""
        /\ pci = [t \in Threads |-> 1]
        /\ opx = [t \in Threads |-> NoOp]
        /\ iv = [t \in Procs |-> 0]
        /\ pv = [t \in Procs |-> NULL]
        /\ dhead = [t \in Procs |-> 0]
        /\ dtail = [t \in Procs |-> 0]
        /\ enc = [t \in Procs |-> <<>>]
        /\ bhead = [t \in Procs |-> 0]
        /\ own = [t \in Procs |-> NULL]
        /\ qh = [t \in Procs |-> 0]
        /\ qi = [t \in Procs |-> 0]
        /\ regs = [t \in Procs |-> <<>>]
        /\ kk = [t \in Procs |-> 1]
        /\ num = [t \in Procs |-> 0]
        /\ flag = [t \in Procs |-> FALSE]
        /\ gps = [t \in Procs |-> {}]
        /\ stack = [self \in ProcSet |-> << >>]
        /\ pc = [self \in ProcSet |-> CASE self \in Faulters -> "fa"
                                        [] self \in Flushers -> "fl"
                                        [] self \in Recl -> "h_idle"
                                        [] self \in Threads -> "t_top"]

gp_b(self) == /\ pc[self] = "gp_b"
              /\ Drained(self)
              /\ gps' = [gps EXCEPT ![self] = OpenNow]
              /\ acc' = Ev(self, "gp_begin", "-", "-", "-", "-")
              /\ pc' = [pc EXCEPT ![self] = "gp_e"]
              /\ UNCHANGED << mem, sb, lock, fsleep, spur, fkind, registry, 
                              lfi, lfo, lasthead, qalloc, tid, nrecl, started, 
                              cs, ncs, pendq, err, pci, opx, iv, pv, dhead, 
                              dtail, enc, bhead, own, qh, qi, regs, kk, num, 
                              flag, stack >>

gp_e(self) == /\ pc[self] = "gp_e"
              /\ gps[self] \cap OpenNow = {}
              /\ acc' = Ev(self, "gp_end", "-", "-", "-", "-")
              /\ pc' = [pc EXCEPT ![self] = Head(stack[self]).pc]
              /\ stack' = [stack EXCEPT ![self] = Tail(stack[self])]
              /\ UNCHANGED << mem, sb, lock, fsleep, spur, fkind, registry, 
                              lfi, lfo, lasthead, qalloc, tid, nrecl, started, 
                              cs, ncs, pendq, err, pci, opx, iv, pv, dhead, 
                              dtail, enc, bhead, own, qh, qi, regs, kk, num, 
                              flag, gps >>

synchronize_rcu(self) == gp_b(self) \/ gp_e(self)

wk_ld(self) == /\ pc[self] = "wk_ld"
               /\ iv' = [iv EXCEPT ![self] = Rd(self, "futex")]
               /\ acc' = Ev(self, "ld", "futex", "-", "-", Rd(self, "futex"))
               /\ IF iv'[self] # -1
                     THEN /\ pc' = [pc EXCEPT ![self] = Head(stack[self]).pc]
                          /\ stack' = [stack EXCEPT ![self] = Tail(stack[self])]
                     ELSE /\ pc' = [pc EXCEPT ![self] = "wk_st"]
                          /\ stack' = stack
               /\ UNCHANGED << mem, sb, lock, fsleep, spur, fkind, registry, 
                               lfi, lfo, lasthead, qalloc, tid, nrecl, started, 
                               cs, ncs, pendq, err, pci, opx, pv, dhead, dtail, 
                               enc, bhead, own, qh, qi, regs, kk, num, flag, 
                               gps >>

wk_st(self) == /\ pc[self] = "wk_st"
               /\ IF TSO
                     THEN /\ Len(sb[self]) < SBMax
                          /\ sb' = [sb EXCEPT ![self] = Append(sb[self], <<"futex", 0>>)]
                          /\ mem' = mem
                     ELSE /\ mem' = [mem EXCEPT !["futex"] = 0]
                          /\ sb' = sb
               /\ acc' = Ev(self, "st", "futex", 0, "-", "-")
               /\ pc' = [pc EXCEPT ![self] = "wk_fw"]
               /\ UNCHANGED << lock, fsleep, spur, fkind, registry, lfi, lfo, 
                               lasthead, qalloc, tid, nrecl, started, cs, ncs, 
                               pendq, err, pci, opx, iv, pv, dhead, dtail, enc, 
                               bhead, own, qh, qi, regs, kk, num, flag, gps, 
                               stack >>

wk_fw(self) == /\ pc[self] = "wk_fw"
               /\ Drained(self)
               /\ acc' = Ev(self, "fwake", "futex", "-", "-", Cardinality(fsleep))
               /\ fsleep' = {}
               /\ pc' = [pc EXCEPT ![self] = Head(stack[self]).pc]
               /\ stack' = [stack EXCEPT ![self] = Tail(stack[self])]
               /\ UNCHANGED << mem, sb, lock, spur, fkind, registry, lfi, lfo, 
                               lasthead, qalloc, tid, nrecl, started, cs, ncs, 
                               pendq, err, pci, opx, iv, pv, dhead, dtail, enc, 
                               bhead, own, qh, qi, regs, kk, num, flag, gps >>

wake_up_defer(self) == wk_ld(self) \/ wk_st(self) \/ wk_fw(self)

q_top(self) == /\ pc[self] = "q_top"
               /\ qi' = [qi EXCEPT ![self] = Rd(self, TailOf(own[self]))]
               /\ pc' = [pc EXCEPT ![self] = "q_loop"]
               /\ UNCHANGED << mem, sb, lock, acc, fsleep, spur, fkind, 
                               registry, lfi, lfo, lasthead, qalloc, tid, 
                               nrecl, started, cs, ncs, pendq, err, pci, opx, 
                               iv, pv, dhead, dtail, enc, bhead, own, qh, regs, 
                               kk, num, flag, gps, stack >>

q_loop(self) == /\ pc[self] = "q_loop"
                /\ IF qi[self] # qh[self]
                      THEN /\ pc' = [pc EXCEPT ![self] = "q_ld1"]
                      ELSE /\ pc' = [pc EXCEPT ![self] = "q_mb"]
                /\ UNCHANGED << mem, sb, lock, acc, fsleep, spur, fkind, 
                                registry, lfi, lfo, lasthead, qalloc, tid, 
                                nrecl, started, cs, ncs, pendq, err, pci, opx, 
                                iv, pv, dhead, dtail, enc, bhead, own, qh, qi, 
                                regs, kk, num, flag, gps, stack >>

q_ld1(self) == /\ pc[self] = "q_ld1"
               /\ pv' = [pv EXCEPT ![self] = Rd(self, (Slot(own[self], qi[self] % Q)))]
               /\ acc' = Ev(self, "ld", (Slot(own[self], qi[self] % Q)), "-", "-", Rd(self, (Slot(own[self], qi[self] % Q))))
               /\ qi' = [qi EXCEPT ![self] = qi[self] + 1]
               /\ IF IsBit(pv'[self])
                     THEN /\ lfo' = [lfo EXCEPT ![own[self]] = ClearBit(pv'[self])]
                          /\ pc' = [pc EXCEPT ![self] = "q_ld2"]
                     ELSE /\ IF pv'[self] = MARK
                                THEN /\ pc' = [pc EXCEPT ![self] = "q_ld3"]
                                ELSE /\ pc' = [pc EXCEPT ![self] = "q_call"]
                          /\ lfo' = lfo
               /\ UNCHANGED << mem, sb, lock, fsleep, spur, fkind, registry, 
                               lfi, lasthead, qalloc, tid, nrecl, started, cs, 
                               ncs, pendq, err, pci, opx, iv, dhead, dtail, 
                               enc, bhead, own, qh, regs, kk, num, flag, gps, 
                               stack >>

q_ld2(self) == /\ pc[self] = "q_ld2"
               /\ pv' = [pv EXCEPT ![self] = Rd(self, (Slot(own[self], qi[self] % Q)))]
               /\ acc' = Ev(self, "ld", (Slot(own[self], qi[self] % Q)), "-", "-", Rd(self, (Slot(own[self], qi[self] % Q))))
               /\ qi' = [qi EXCEPT ![self] = qi[self] + 1]
               /\ pc' = [pc EXCEPT ![self] = "q_call"]
               /\ UNCHANGED << mem, sb, lock, fsleep, spur, fkind, registry, 
                               lfi, lfo, lasthead, qalloc, tid, nrecl, started, 
                               cs, ncs, pendq, err, pci, opx, iv, dhead, dtail, 
                               enc, bhead, own, qh, regs, kk, num, flag, gps, 
                               stack >>

q_ld3(self) == /\ pc[self] = "q_ld3"
               /\ pv' = [pv EXCEPT ![self] = Rd(self, (Slot(own[self], qi[self] % Q)))]
               /\ acc' = Ev(self, "ld", (Slot(own[self], qi[self] % Q)), "-", "-", Rd(self, (Slot(own[self], qi[self] % Q))))
               /\ qi' = [qi EXCEPT ![self] = qi[self] + 1]
               /\ lfo' = [lfo EXCEPT ![own[self]] = pv'[self]]
               /\ pc' = [pc EXCEPT ![self] = "q_ld4"]
               /\ UNCHANGED << mem, sb, lock, fsleep, spur, fkind, registry, 
                               lfi, lasthead, qalloc, tid, nrecl, started, cs, 
                               ncs, pendq, err, pci, opx, iv, dhead, dtail, 
                               enc, bhead, own, qh, regs, kk, num, flag, gps, 
                               stack >>

q_ld4(self) == /\ pc[self] = "q_ld4"
               /\ pv' = [pv EXCEPT ![self] = Rd(self, (Slot(own[self], qi[self] % Q)))]
               /\ acc' = Ev(self, "ld", (Slot(own[self], qi[self] % Q)), "-", "-", Rd(self, (Slot(own[self], qi[self] % Q))))
               /\ qi' = [qi EXCEPT ![self] = qi[self] + 1]
               /\ pc' = [pc EXCEPT ![self] = "q_call"]
               /\ UNCHANGED << mem, sb, lock, fsleep, spur, fkind, registry, 
                               lfi, lfo, lasthead, qalloc, tid, nrecl, started, 
                               cs, ncs, pendq, err, pci, opx, iv, dhead, dtail, 
                               enc, bhead, own, qh, regs, kk, num, flag, gps, 
                               stack >>

q_call(self) == /\ pc[self] = "q_call"
                /\ IF pendq[own[self]] = <<>>
                      THEN /\ IF err = ""
                                 THEN /\ err' = "a call that is not pending was invoked (duplicated or never queued)"
                                 ELSE /\ TRUE
                                      /\ err' = err
                           /\ pendq' = pendq
                      ELSE /\ IF Head(pendq[own[self]]).f # lfo[own[self]] \/ Head(pendq[own[self]]).p # pv[self]
                                 THEN /\ IF err = ""
                                            THEN /\ err' = "the invoked (function, argument) is not the oldest pending call of the queue"
                                            ELSE /\ TRUE
                                                 /\ err' = err
                                 ELSE /\ IF Head(pendq[own[self]]).snap \cap OpenNow # {}
                                            THEN /\ IF err = ""
                                                       THEN /\ err' = "a call was invoked while a read-side section open when it was queued is still open"
                                                       ELSE /\ TRUE
                                                            /\ err' = err
                                            ELSE /\ TRUE
                                                 /\ err' = err
                           /\ pendq' = [pendq EXCEPT ![own[self]] = Tail(pendq[own[self]])]
                /\ acc' = Ev(self, "cb", "-", lfo[own[self]], pv[self], "-")
                /\ pc' = [pc EXCEPT ![self] = "q_loop"]
                /\ UNCHANGED << mem, sb, lock, fsleep, spur, fkind, registry, 
                                lfi, lfo, lasthead, qalloc, tid, nrecl, 
                                started, cs, ncs, pci, opx, iv, pv, dhead, 
                                dtail, enc, bhead, own, qh, qi, regs, kk, num, 
                                flag, gps, stack >>

q_mb(self) == /\ pc[self] = "q_mb"
              /\ Drained(self)
              /\ acc' = Ev(self, "mb", "-", "-", "-", "-")
              /\ pc' = [pc EXCEPT ![self] = "q_st"]
              /\ UNCHANGED << mem, sb, lock, fsleep, spur, fkind, registry, 
                              lfi, lfo, lasthead, qalloc, tid, nrecl, started, 
                              cs, ncs, pendq, err, pci, opx, iv, pv, dhead, 
                              dtail, enc, bhead, own, qh, qi, regs, kk, num, 
                              flag, gps, stack >>

q_st(self) == /\ pc[self] = "q_st"
              /\ IF TSO
                    THEN /\ Len(sb[self]) < SBMax
                         /\ sb' = [sb EXCEPT ![self] = Append(sb[self], <<(TailOf(own[self])), (qi[self])>>)]
                         /\ mem' = mem
                    ELSE /\ mem' = [mem EXCEPT ![(TailOf(own[self]))] = qi[self]]
                         /\ sb' = sb
              /\ acc' = Ev(self, "st", (TailOf(own[self])), (qi[self]), "-", "-")
              /\ pc' = [pc EXCEPT ![self] = Head(stack[self]).pc]
              /\ stack' = [stack EXCEPT ![self] = Tail(stack[self])]
              /\ UNCHANGED << lock, fsleep, spur, fkind, registry, lfi, lfo, 
                              lasthead, qalloc, tid, nrecl, started, cs, ncs, 
                              pendq, err, pci, opx, iv, pv, dhead, dtail, enc, 
                              bhead, own, qh, qi, regs, kk, num, flag, gps >>

barrier_queue(self) == q_top(self) \/ q_loop(self) \/ q_ld1(self)
                          \/ q_ld2(self) \/ q_ld3(self) \/ q_ld4(self)
                          \/ q_call(self) \/ q_mb(self) \/ q_st(self)

btl_top(self) == /\ pc[self] = "btl_top"
                 /\ bhead' = [bhead EXCEPT ![self] = Rd(self, HeadOf(self))]
                 /\ IF bhead'[self] - Rd(self, TailOf(self)) = 0
                       THEN /\ pc' = [pc EXCEPT ![self] = Head(stack[self]).pc]
                            /\ stack' = [stack EXCEPT ![self] = Tail(stack[self])]
                       ELSE /\ pc' = [pc EXCEPT ![self] = "btl_gp"]
                            /\ stack' = stack
                 /\ UNCHANGED << mem, sb, lock, acc, fsleep, spur, fkind, 
                                 registry, lfi, lfo, lasthead, qalloc, tid, 
                                 nrecl, started, cs, ncs, pendq, err, pci, opx, 
                                 iv, pv, dhead, dtail, enc, own, qh, qi, regs, 
                                 kk, num, flag, gps >>

btl_gp(self) == /\ pc[self] = "btl_gp"
                /\ stack' = [stack EXCEPT ![self] = << [ procedure |->  "synchronize_rcu",
                                                         pc        |->  "btl_q" ] >>
                                                     \o stack[self]]
                /\ pc' = [pc EXCEPT ![self] = "gp_b"]
                /\ UNCHANGED << mem, sb, lock, acc, fsleep, spur, fkind, 
                                registry, lfi, lfo, lasthead, qalloc, tid, 
                                nrecl, started, cs, ncs, pendq, err, pci, opx, 
                                iv, pv, dhead, dtail, enc, bhead, own, qh, qi, 
                                regs, kk, num, flag, gps >>

btl_q(self) == /\ pc[self] = "btl_q"
               /\ own' = [own EXCEPT ![self] = self]
               /\ qh' = [qh EXCEPT ![self] = bhead[self]]
               /\ stack' = [stack EXCEPT ![self] = << [ procedure |->  "barrier_queue",
                                                        pc        |->  "btl_ret" ] >>
                                                    \o stack[self]]
               /\ pc' = [pc EXCEPT ![self] = "q_top"]
               /\ UNCHANGED << mem, sb, lock, acc, fsleep, spur, fkind, 
                               registry, lfi, lfo, lasthead, qalloc, tid, 
                               nrecl, started, cs, ncs, pendq, err, pci, opx, 
                               iv, pv, dhead, dtail, enc, bhead, qi, regs, kk, 
                               num, flag, gps >>

btl_ret(self) == /\ pc[self] = "btl_ret"
                 /\ pc' = [pc EXCEPT ![self] = Head(stack[self]).pc]
                 /\ stack' = [stack EXCEPT ![self] = Tail(stack[self])]
                 /\ UNCHANGED << mem, sb, lock, acc, fsleep, spur, fkind, 
                                 registry, lfi, lfo, lasthead, qalloc, tid, 
                                 nrecl, started, cs, ncs, pendq, err, pci, opx, 
                                 iv, pv, dhead, dtail, enc, bhead, own, qh, qi, 
                                 regs, kk, num, flag, gps >>

barrier_thread_locked(self) == btl_top(self) \/ btl_gp(self) \/ btl_q(self)
                                  \/ btl_ret(self)

bt_lock(self) == /\ pc[self] = "bt_lock"
                 /\ Drained(self) /\ lock[DM] = "free"
                 /\ lock' = [lock EXCEPT ![DM] = self]
                 /\ acc' = Ev(self, "lock", DM, "-", "-", "-")
                 /\ pc' = [pc EXCEPT ![self] = "bt_body"]
                 /\ UNCHANGED << mem, sb, fsleep, spur, fkind, registry, lfi, 
                                 lfo, lasthead, qalloc, tid, nrecl, started, 
                                 cs, ncs, pendq, err, pci, opx, iv, pv, dhead, 
                                 dtail, enc, bhead, own, qh, qi, regs, kk, num, 
                                 flag, gps, stack >>

bt_body(self) == /\ pc[self] = "bt_body"
                 /\ stack' = [stack EXCEPT ![self] = << [ procedure |->  "barrier_thread_locked",
                                                          pc        |->  "bt_unl" ] >>
                                                      \o stack[self]]
                 /\ pc' = [pc EXCEPT ![self] = "btl_top"]
                 /\ UNCHANGED << mem, sb, lock, acc, fsleep, spur, fkind, 
                                 registry, lfi, lfo, lasthead, qalloc, tid, 
                                 nrecl, started, cs, ncs, pendq, err, pci, opx, 
                                 iv, pv, dhead, dtail, enc, bhead, own, qh, qi, 
                                 regs, kk, num, flag, gps >>

bt_unl(self) == /\ pc[self] = "bt_unl"
                /\ Drained(self)
                /\ lock' = [lock EXCEPT ![DM] = "free"]
                /\ acc' = Ev(self, "unlock", DM, "-", "-", "-")
                /\ pc' = [pc EXCEPT ![self] = Head(stack[self]).pc]
                /\ stack' = [stack EXCEPT ![self] = Tail(stack[self])]
                /\ UNCHANGED << mem, sb, fsleep, spur, fkind, registry, lfi, 
                                lfo, lasthead, qalloc, tid, nrecl, started, cs, 
                                ncs, pendq, err, pci, opx, iv, pv, dhead, 
                                dtail, enc, bhead, own, qh, qi, regs, kk, num, 
                                flag, gps >>

barrier_thread(self) == bt_lock(self) \/ bt_body(self) \/ bt_unl(self)

b_empty(self) == /\ pc[self] = "b_empty"
                 /\ IF registry = <<>>
                       THEN /\ pc' = [pc EXCEPT ![self] = Head(stack[self]).pc]
                            /\ stack' = [stack EXCEPT ![self] = Tail(stack[self])]
                       ELSE /\ pc' = [pc EXCEPT ![self] = "b_lock"]
                            /\ stack' = stack
                 /\ UNCHANGED << mem, sb, lock, acc, fsleep, spur, fkind, 
                                 registry, lfi, lfo, lasthead, qalloc, tid, 
                                 nrecl, started, cs, ncs, pendq, err, pci, opx, 
                                 iv, pv, dhead, dtail, enc, bhead, own, qh, qi, 
                                 regs, kk, num, flag, gps >>

b_lock(self) == /\ pc[self] = "b_lock"
                /\ Drained(self) /\ lock[DM] = "free"
                /\ lock' = [lock EXCEPT ![DM] = self]
                /\ acc' = Ev(self, "lock", DM, "-", "-", "-")
                /\ regs' = [regs EXCEPT ![self] = registry]
                /\ num' = [num EXCEPT ![self] = 0]
                /\ kk' = [kk EXCEPT ![self] = 1]
                /\ pc' = [pc EXCEPT ![self] = "b_scan"]
                /\ UNCHANGED << mem, sb, fsleep, spur, fkind, registry, lfi, 
                                lfo, lasthead, qalloc, tid, nrecl, started, cs, 
                                ncs, pendq, err, pci, opx, iv, pv, dhead, 
                                dtail, enc, bhead, own, qh, qi, flag, gps, 
                                stack >>

b_scan(self) == /\ pc[self] = "b_scan"
                /\ IF kk[self] <= Len(regs[self])
                      THEN /\ iv' = [iv EXCEPT ![self] = Rd(self, (HeadOf(regs[self][kk[self]])))]
                           /\ acc' = Ev(self, "ld", (HeadOf(regs[self][kk[self]])), "-", "-", Rd(self, (HeadOf(regs[self][kk[self]]))))
                           /\ lasthead' = [lasthead EXCEPT ![regs[self][kk[self]]] = iv'[self]]
                           /\ num' = [num EXCEPT ![self] = num[self] + (iv'[self] - Rd(self, TailOf(regs[self][kk[self]])))]
                           /\ kk' = [kk EXCEPT ![self] = kk[self] + 1]
                           /\ pc' = [pc EXCEPT ![self] = "b_scan"]
                      ELSE /\ pc' = [pc EXCEPT ![self] = "b_chk"]
                           /\ UNCHANGED << acc, lasthead, iv, kk, num >>
                /\ UNCHANGED << mem, sb, lock, fsleep, spur, fkind, registry, 
                                lfi, lfo, qalloc, tid, nrecl, started, cs, ncs, 
                                pendq, err, pci, opx, pv, dhead, dtail, enc, 
                                bhead, own, qh, qi, regs, flag, gps, stack >>

b_chk(self) == /\ pc[self] = "b_chk"
               /\ IF num[self] = 0
                     THEN /\ pc' = [pc EXCEPT ![self] = "b_unl"]
                     ELSE /\ pc' = [pc EXCEPT ![self] = "b_gp"]
               /\ UNCHANGED << mem, sb, lock, acc, fsleep, spur, fkind, 
                               registry, lfi, lfo, lasthead, qalloc, tid, 
                               nrecl, started, cs, ncs, pendq, err, pci, opx, 
                               iv, pv, dhead, dtail, enc, bhead, own, qh, qi, 
                               regs, kk, num, flag, gps, stack >>

b_gp(self) == /\ pc[self] = "b_gp"
              /\ stack' = [stack EXCEPT ![self] = << [ procedure |->  "synchronize_rcu",
                                                       pc        |->  "b_q0" ] >>
                                                   \o stack[self]]
              /\ pc' = [pc EXCEPT ![self] = "gp_b"]
              /\ UNCHANGED << mem, sb, lock, acc, fsleep, spur, fkind, 
                              registry, lfi, lfo, lasthead, qalloc, tid, nrecl, 
                              started, cs, ncs, pendq, err, pci, opx, iv, pv, 
                              dhead, dtail, enc, bhead, own, qh, qi, regs, kk, 
                              num, flag, gps >>

b_q0(self) == /\ pc[self] = "b_q0"
              /\ kk' = [kk EXCEPT ![self] = 1]
              /\ pc' = [pc EXCEPT ![self] = "b_q"]
              /\ UNCHANGED << mem, sb, lock, acc, fsleep, spur, fkind, 
                              registry, lfi, lfo, lasthead, qalloc, tid, nrecl, 
                              started, cs, ncs, pendq, err, pci, opx, iv, pv, 
                              dhead, dtail, enc, bhead, own, qh, qi, regs, num, 
                              flag, gps, stack >>

b_q(self) == /\ pc[self] = "b_q"
             /\ IF kk[self] <= Len(regs[self])
                   THEN /\ own' = [own EXCEPT ![self] = regs[self][kk[self]]]
                        /\ qh' = [qh EXCEPT ![self] = lasthead[regs[self][kk[self]]]]
                        /\ kk' = [kk EXCEPT ![self] = kk[self] + 1]
                        /\ stack' = [stack EXCEPT ![self] = << [ procedure |->  "barrier_queue",
                                                                 pc        |->  "b_q" ] >>
                                                             \o stack[self]]
                        /\ pc' = [pc EXCEPT ![self] = "q_top"]
                   ELSE /\ pc' = [pc EXCEPT ![self] = "b_unl"]
                        /\ UNCHANGED << own, qh, kk, stack >>
             /\ UNCHANGED << mem, sb, lock, acc, fsleep, spur, fkind, registry, 
                             lfi, lfo, lasthead, qalloc, tid, nrecl, started, 
                             cs, ncs, pendq, err, pci, opx, iv, pv, dhead, 
                             dtail, enc, bhead, qi, regs, num, flag, gps >>

b_unl(self) == /\ pc[self] = "b_unl"
               /\ Drained(self)
               /\ lock' = [lock EXCEPT ![DM] = "free"]
               /\ acc' = Ev(self, "unlock", DM, "-", "-", "-")
               /\ pc' = [pc EXCEPT ![self] = Head(stack[self]).pc]
               /\ stack' = [stack EXCEPT ![self] = Tail(stack[self])]
               /\ UNCHANGED << mem, sb, fsleep, spur, fkind, registry, lfi, 
                               lfo, lasthead, qalloc, tid, nrecl, started, cs, 
                               ncs, pendq, err, pci, opx, iv, pv, dhead, dtail, 
                               enc, bhead, own, qh, qi, regs, kk, num, flag, 
                               gps >>

barrier(self) == b_empty(self) \/ b_lock(self) \/ b_scan(self)
                    \/ b_chk(self) \/ b_gp(self) \/ b_q0(self) \/ b_q(self)
                    \/ b_unl(self)

e_ldt(self) == /\ pc[self] = "e_ldt"
               /\ dhead' = [dhead EXCEPT ![self] = Rd(self, HeadOf(self))]
               /\ dtail' = [dtail EXCEPT ![self] = Rd(self, (TailOf(self)))]
               /\ acc' = Ev(self, "ld", (TailOf(self)), "-", "-", Rd(self, (TailOf(self))))
               /\ IF dhead'[self] - dtail'[self] < Q - 2
                     THEN /\ pc' = [pc EXCEPT ![self] = "e_enc"]
                     ELSE /\ pc' = [pc EXCEPT ![self] = "e_full"]
               /\ UNCHANGED << mem, sb, lock, fsleep, spur, fkind, registry, 
                               lfi, lfo, lasthead, qalloc, tid, nrecl, started, 
                               cs, ncs, pendq, err, pci, opx, iv, pv, enc, 
                               bhead, own, qh, qi, regs, kk, num, flag, gps, 
                               stack >>

e_full(self) == /\ pc[self] = "e_full"
                /\ IF dhead[self] - dtail[self] > Q
                      THEN /\ IF err = ""
                                 THEN /\ err' = "assertion head - tail <= DEFER_QUEUE_SIZE failed"
                                 ELSE /\ TRUE
                                      /\ err' = err
                      ELSE /\ TRUE
                           /\ err' = err
                /\ stack' = [stack EXCEPT ![self] = << [ procedure |->  "barrier_thread",
                                                         pc        |->  "e_asrt" ] >>
                                                     \o stack[self]]
                /\ pc' = [pc EXCEPT ![self] = "bt_lock"]
                /\ UNCHANGED << mem, sb, lock, acc, fsleep, spur, fkind, 
                                registry, lfi, lfo, lasthead, qalloc, tid, 
                                nrecl, started, cs, ncs, pendq, pci, opx, iv, 
                                pv, dhead, dtail, enc, bhead, own, qh, qi, 
                                regs, kk, num, flag, gps >>

e_asrt(self) == /\ pc[self] = "e_asrt"
                /\ dtail' = [dtail EXCEPT ![self] = Rd(self, (TailOf(self)))]
                /\ acc' = Ev(self, "ld", (TailOf(self)), "-", "-", Rd(self, (TailOf(self))))
                /\ IF dhead[self] - dtail'[self] # 0
                      THEN /\ IF err = ""
                                 THEN /\ err' = "assertion head - tail == 0 after the synchronous flush failed"
                                 ELSE /\ TRUE
                                      /\ err' = err
                      ELSE /\ TRUE
                           /\ err' = err
                /\ pc' = [pc EXCEPT ![self] = "e_enc"]
                /\ UNCHANGED << mem, sb, lock, fsleep, spur, fkind, registry, 
                                lfi, lfo, lasthead, qalloc, tid, nrecl, 
                                started, cs, ncs, pendq, pci, opx, iv, pv, 
                                dhead, enc, bhead, own, qh, qi, regs, kk, num, 
                                flag, gps, stack >>

e_enc(self) == /\ pc[self] = "e_enc"
               /\ enc' = [enc EXCEPT ![self] = Enc(lfi[self], opx[self].f, opx[self].p)]
               /\ lfi' = [lfi EXCEPT ![self] = opx[self].f]
               /\ kk' = [kk EXCEPT ![self] = 1]
               /\ pc' = [pc EXCEPT ![self] = "e_st"]
               /\ UNCHANGED << mem, sb, lock, acc, fsleep, spur, fkind, 
                               registry, lfo, lasthead, qalloc, tid, nrecl, 
                               started, cs, ncs, pendq, err, pci, opx, iv, pv, 
                               dhead, dtail, bhead, own, qh, qi, regs, num, 
                               flag, gps, stack >>

e_st(self) == /\ pc[self] = "e_st"
              /\ IF kk[self] <= Len(enc[self])
                    THEN /\ IF TSO
                               THEN /\ Len(sb[self]) < SBMax
                                    /\ sb' = [sb EXCEPT ![self] = Append(sb[self], <<(Slot(self, dhead[self] % Q)), (enc[self][kk[self]])>>)]
                                    /\ mem' = mem
                               ELSE /\ mem' = [mem EXCEPT ![(Slot(self, dhead[self] % Q))] = enc[self][kk[self]]]
                                    /\ sb' = sb
                         /\ acc' = Ev(self, "st", (Slot(self, dhead[self] % Q)), (enc[self][kk[self]]), "-", "-")
                         /\ dhead' = [dhead EXCEPT ![self] = dhead[self] + 1]
                         /\ kk' = [kk EXCEPT ![self] = kk[self] + 1]
                         /\ pc' = [pc EXCEPT ![self] = "e_st"]
                    ELSE /\ pc' = [pc EXCEPT ![self] = "e_sth"]
                         /\ UNCHANGED << mem, sb, acc, dhead, kk >>
              /\ UNCHANGED << lock, fsleep, spur, fkind, registry, lfi, lfo, 
                              lasthead, qalloc, tid, nrecl, started, cs, ncs, 
                              pendq, err, pci, opx, iv, pv, dtail, enc, bhead, 
                              own, qh, qi, regs, num, flag, gps, stack >>

e_sth(self) == /\ pc[self] = "e_sth"
               /\ IF TSO
                     THEN /\ Len(sb[self]) < SBMax
                          /\ sb' = [sb EXCEPT ![self] = Append(sb[self], <<(HeadOf(self)), (dhead[self])>>)]
                          /\ mem' = mem
                     ELSE /\ mem' = [mem EXCEPT ![(HeadOf(self))] = dhead[self]]
                          /\ sb' = sb
               /\ acc' = Ev(self, "st", (HeadOf(self)), (dhead[self]), "-", "-")
               /\ pc' = [pc EXCEPT ![self] = "e_mb"]
               /\ UNCHANGED << lock, fsleep, spur, fkind, registry, lfi, lfo, 
                               lasthead, qalloc, tid, nrecl, started, cs, ncs, 
                               pendq, err, pci, opx, iv, pv, dhead, dtail, enc, 
                               bhead, own, qh, qi, regs, kk, num, flag, gps, 
                               stack >>

e_mb(self) == /\ pc[self] = "e_mb"
              /\ Drained(self)
              /\ acc' = Ev(self, "mb", "-", "-", "-", "-")
              /\ pc' = [pc EXCEPT ![self] = "e_wake"]
              /\ UNCHANGED << mem, sb, lock, fsleep, spur, fkind, registry, 
                              lfi, lfo, lasthead, qalloc, tid, nrecl, started, 
                              cs, ncs, pendq, err, pci, opx, iv, pv, dhead, 
                              dtail, enc, bhead, own, qh, qi, regs, kk, num, 
                              flag, gps, stack >>

e_wake(self) == /\ pc[self] = "e_wake"
                /\ stack' = [stack EXCEPT ![self] = << [ procedure |->  "wake_up_defer",
                                                         pc        |->  "e_ret" ] >>
                                                     \o stack[self]]
                /\ pc' = [pc EXCEPT ![self] = "wk_ld"]
                /\ UNCHANGED << mem, sb, lock, acc, fsleep, spur, fkind, 
                                registry, lfi, lfo, lasthead, qalloc, tid, 
                                nrecl, started, cs, ncs, pendq, err, pci, opx, 
                                iv, pv, dhead, dtail, enc, bhead, own, qh, qi, 
                                regs, kk, num, flag, gps >>

e_ret(self) == /\ pc[self] = "e_ret"
               /\ pc' = [pc EXCEPT ![self] = Head(stack[self]).pc]
               /\ stack' = [stack EXCEPT ![self] = Tail(stack[self])]
               /\ UNCHANGED << mem, sb, lock, acc, fsleep, spur, fkind, 
                               registry, lfi, lfo, lasthead, qalloc, tid, 
                               nrecl, started, cs, ncs, pendq, err, pci, opx, 
                               iv, pv, dhead, dtail, enc, bhead, own, qh, qi, 
                               regs, kk, num, flag, gps >>

defer_rcu(self) == e_ldt(self) \/ e_full(self) \/ e_asrt(self)
                      \/ e_enc(self) \/ e_st(self) \/ e_sth(self)
                      \/ e_mb(self) \/ e_wake(self) \/ e_ret(self)

r_chk(self) == /\ pc[self] = "r_chk"
               /\ IF lasthead[self] # 0 \/ qalloc[self]
                     THEN /\ IF err = ""
                                THEN /\ err' = "rcu_defer_register_thread: assertion last_head == 0 / q == NULL failed"
                                ELSE /\ TRUE
                                     /\ err' = err
                     ELSE /\ TRUE
                          /\ err' = err
               /\ qalloc' = [qalloc EXCEPT ![self] = TRUE]
               /\ pc' = [pc EXCEPT ![self] = "r_lk1"]
               /\ UNCHANGED << mem, sb, lock, acc, fsleep, spur, fkind, 
                               registry, lfi, lfo, lasthead, tid, nrecl, 
                               started, cs, ncs, pendq, pci, opx, iv, pv, 
                               dhead, dtail, enc, bhead, own, qh, qi, regs, kk, 
                               num, flag, gps, stack >>

r_lk1(self) == /\ pc[self] = "r_lk1"
               /\ Drained(self) /\ lock[TM] = "free"
               /\ lock' = [lock EXCEPT ![TM] = self]
               /\ acc' = Ev(self, "lock", TM, "-", "-", "-")
               /\ pc' = [pc EXCEPT ![self] = "r_lk2"]
               /\ UNCHANGED << mem, sb, fsleep, spur, fkind, registry, lfi, 
                               lfo, lasthead, qalloc, tid, nrecl, started, cs, 
                               ncs, pendq, err, pci, opx, iv, pv, dhead, dtail, 
                               enc, bhead, own, qh, qi, regs, kk, num, flag, 
                               gps, stack >>

r_lk2(self) == /\ pc[self] = "r_lk2"
               /\ Drained(self) /\ lock[DM] = "free"
               /\ lock' = [lock EXCEPT ![DM] = self]
               /\ acc' = Ev(self, "lock", DM, "-", "-", "-")
               /\ pc' = [pc EXCEPT ![self] = "r_add"]
               /\ UNCHANGED << mem, sb, fsleep, spur, fkind, registry, lfi, 
                               lfo, lasthead, qalloc, tid, nrecl, started, cs, 
                               ncs, pendq, err, pci, opx, iv, pv, dhead, dtail, 
                               enc, bhead, own, qh, qi, regs, kk, num, flag, 
                               gps, stack >>

r_add(self) == /\ pc[self] = "r_add"
               /\ flag' = [flag EXCEPT ![self] = (registry = <<>>)]
               /\ registry' = <<self>> \o registry
               /\ pc' = [pc EXCEPT ![self] = "r_ul2"]
               /\ UNCHANGED << mem, sb, lock, acc, fsleep, spur, fkind, lfi, 
                               lfo, lasthead, qalloc, tid, nrecl, started, cs, 
                               ncs, pendq, err, pci, opx, iv, pv, dhead, dtail, 
                               enc, bhead, own, qh, qi, regs, kk, num, gps, 
                               stack >>

r_ul2(self) == /\ pc[self] = "r_ul2"
               /\ Drained(self)
               /\ lock' = [lock EXCEPT ![DM] = "free"]
               /\ acc' = Ev(self, "unlock", DM, "-", "-", "-")
               /\ pc' = [pc EXCEPT ![self] = "r_start"]
               /\ UNCHANGED << mem, sb, fsleep, spur, fkind, registry, lfi, 
                               lfo, lasthead, qalloc, tid, nrecl, started, cs, 
                               ncs, pendq, err, pci, opx, iv, pv, dhead, dtail, 
                               enc, bhead, own, qh, qi, regs, kk, num, flag, 
                               gps, stack >>

r_start(self) == /\ pc[self] = "r_start"
                 /\ IF flag[self]
                       THEN /\ IF nrecl >= NRecl
                                  THEN /\ IF err = ""
                                             THEN /\ err' = "NRecl too small for this scenario"
                                             ELSE /\ TRUE
                                                  /\ err' = err
                                       /\ UNCHANGED << acc, tid, nrecl, 
                                                       started >>
                                  ELSE /\ nrecl' = nrecl + 1
                                       /\ tid' = RName(nrecl')
                                       /\ started' = [started EXCEPT ![RName(nrecl')] = TRUE]
                                       /\ acc' = Ev(self, "spawn", RName(nrecl'), "-", "-", "-")
                                       /\ err' = err
                       ELSE /\ TRUE
                            /\ UNCHANGED << acc, tid, nrecl, started, err >>
                 /\ pc' = [pc EXCEPT ![self] = "r_ul1"]
                 /\ UNCHANGED << mem, sb, lock, fsleep, spur, fkind, registry, 
                                 lfi, lfo, lasthead, qalloc, cs, ncs, pendq, 
                                 pci, opx, iv, pv, dhead, dtail, enc, bhead, 
                                 own, qh, qi, regs, kk, num, flag, gps, stack >>

r_ul1(self) == /\ pc[self] = "r_ul1"
               /\ Drained(self)
               /\ lock' = [lock EXCEPT ![TM] = "free"]
               /\ acc' = Ev(self, "unlock", TM, "-", "-", "-")
               /\ pc' = [pc EXCEPT ![self] = Head(stack[self]).pc]
               /\ stack' = [stack EXCEPT ![self] = Tail(stack[self])]
               /\ UNCHANGED << mem, sb, fsleep, spur, fkind, registry, lfi, 
                               lfo, lasthead, qalloc, tid, nrecl, started, cs, 
                               ncs, pendq, err, pci, opx, iv, pv, dhead, dtail, 
                               enc, bhead, own, qh, qi, regs, kk, num, flag, 
                               gps >>

register(self) == r_chk(self) \/ r_lk1(self) \/ r_lk2(self) \/ r_add(self)
                     \/ r_ul2(self) \/ r_start(self) \/ r_ul1(self)

u_lk1(self) == /\ pc[self] = "u_lk1"
               /\ Drained(self) /\ lock[TM] = "free"
               /\ lock' = [lock EXCEPT ![TM] = self]
               /\ acc' = Ev(self, "lock", TM, "-", "-", "-")
               /\ pc' = [pc EXCEPT ![self] = "u_lk2"]
               /\ UNCHANGED << mem, sb, fsleep, spur, fkind, registry, lfi, 
                               lfo, lasthead, qalloc, tid, nrecl, started, cs, 
                               ncs, pendq, err, pci, opx, iv, pv, dhead, dtail, 
                               enc, bhead, own, qh, qi, regs, kk, num, flag, 
                               gps, stack >>

u_lk2(self) == /\ pc[self] = "u_lk2"
               /\ Drained(self) /\ lock[DM] = "free"
               /\ lock' = [lock EXCEPT ![DM] = self]
               /\ acc' = Ev(self, "lock", DM, "-", "-", "-")
               /\ pc' = [pc EXCEPT ![self] = "u_del"]
               /\ UNCHANGED << mem, sb, fsleep, spur, fkind, registry, lfi, 
                               lfo, lasthead, qalloc, tid, nrecl, started, cs, 
                               ncs, pendq, err, pci, opx, iv, pv, dhead, dtail, 
                               enc, bhead, own, qh, qi, regs, kk, num, flag, 
                               gps, stack >>

u_del(self) == /\ pc[self] = "u_del"
               /\ registry' = Without(registry, self)
               /\ stack' = [stack EXCEPT ![self] = << [ procedure |->  "barrier_thread_locked",
                                                        pc        |->  "u_free" ] >>
                                                    \o stack[self]]
               /\ pc' = [pc EXCEPT ![self] = "btl_top"]
               /\ UNCHANGED << mem, sb, lock, acc, fsleep, spur, fkind, lfi, 
                               lfo, lasthead, qalloc, tid, nrecl, started, cs, 
                               ncs, pendq, err, pci, opx, iv, pv, dhead, dtail, 
                               enc, bhead, own, qh, qi, regs, kk, num, flag, 
                               gps >>

u_free(self) == /\ pc[self] = "u_free"
                /\ qalloc' = [qalloc EXCEPT ![self] = FALSE]
                /\ lasthead' = [lasthead EXCEPT ![self] = 0]
                /\ flag' = [flag EXCEPT ![self] = (registry = <<>>)]
                /\ pc' = [pc EXCEPT ![self] = "u_ul2"]
                /\ UNCHANGED << mem, sb, lock, acc, fsleep, spur, fkind, 
                                registry, lfi, lfo, tid, nrecl, started, cs, 
                                ncs, pendq, err, pci, opx, iv, pv, dhead, 
                                dtail, enc, bhead, own, qh, qi, regs, kk, num, 
                                gps, stack >>

u_ul2(self) == /\ pc[self] = "u_ul2"
               /\ Drained(self)
               /\ lock' = [lock EXCEPT ![DM] = "free"]
               /\ acc' = Ev(self, "unlock", DM, "-", "-", "-")
               /\ IF ~flag[self]
                     THEN /\ pc' = [pc EXCEPT ![self] = "u_ul1"]
                     ELSE /\ pc' = [pc EXCEPT ![self] = "s_st1"]
               /\ UNCHANGED << mem, sb, fsleep, spur, fkind, registry, lfi, 
                               lfo, lasthead, qalloc, tid, nrecl, started, cs, 
                               ncs, pendq, err, pci, opx, iv, pv, dhead, dtail, 
                               enc, bhead, own, qh, qi, regs, kk, num, flag, 
                               gps, stack >>

s_st1(self) == /\ pc[self] = "s_st1"
               /\ IF TSO
                     THEN /\ Len(sb[self]) < SBMax
                          /\ sb' = [sb EXCEPT ![self] = Append(sb[self], <<"stop", 1>>)]
                          /\ mem' = mem
                     ELSE /\ mem' = [mem EXCEPT !["stop"] = 1]
                          /\ sb' = sb
               /\ acc' = Ev(self, "st", "stop", 1, "-", "-")
               /\ pc' = [pc EXCEPT ![self] = "s_mb"]
               /\ UNCHANGED << lock, fsleep, spur, fkind, registry, lfi, lfo, 
                               lasthead, qalloc, tid, nrecl, started, cs, ncs, 
                               pendq, err, pci, opx, iv, pv, dhead, dtail, enc, 
                               bhead, own, qh, qi, regs, kk, num, flag, gps, 
                               stack >>

s_mb(self) == /\ pc[self] = "s_mb"
              /\ Drained(self)
              /\ acc' = Ev(self, "mb", "-", "-", "-", "-")
              /\ pc' = [pc EXCEPT ![self] = "s_wake"]
              /\ UNCHANGED << mem, sb, lock, fsleep, spur, fkind, registry, 
                              lfi, lfo, lasthead, qalloc, tid, nrecl, started, 
                              cs, ncs, pendq, err, pci, opx, iv, pv, dhead, 
                              dtail, enc, bhead, own, qh, qi, regs, kk, num, 
                              flag, gps, stack >>

s_wake(self) == /\ pc[self] = "s_wake"
                /\ stack' = [stack EXCEPT ![self] = << [ procedure |->  "wake_up_defer",
                                                         pc        |->  "s_join" ] >>
                                                     \o stack[self]]
                /\ pc' = [pc EXCEPT ![self] = "wk_ld"]
                /\ UNCHANGED << mem, sb, lock, acc, fsleep, spur, fkind, 
                                registry, lfi, lfo, lasthead, qalloc, tid, 
                                nrecl, started, cs, ncs, pendq, err, pci, opx, 
                                iv, pv, dhead, dtail, enc, bhead, own, qh, qi, 
                                regs, kk, num, flag, gps >>

s_join(self) == /\ pc[self] = "s_join"
                /\ pc[tid] = "Done"
                /\ acc' = Ev(self, "join", tid, "-", "-", "-")
                /\ pc' = [pc EXCEPT ![self] = "s_st0"]
                /\ UNCHANGED << mem, sb, lock, fsleep, spur, fkind, registry, 
                                lfi, lfo, lasthead, qalloc, tid, nrecl, 
                                started, cs, ncs, pendq, err, pci, opx, iv, pv, 
                                dhead, dtail, enc, bhead, own, qh, qi, regs, 
                                kk, num, flag, gps, stack >>

s_st0(self) == /\ pc[self] = "s_st0"
               /\ IF TSO
                     THEN /\ Len(sb[self]) < SBMax
                          /\ sb' = [sb EXCEPT ![self] = Append(sb[self], <<"stop", 0>>)]
                          /\ mem' = mem
                     ELSE /\ mem' = [mem EXCEPT !["stop"] = 0]
                          /\ sb' = sb
               /\ acc' = Ev(self, "st", "stop", 0, "-", "-")
               /\ pc' = [pc EXCEPT ![self] = "s_ld"]
               /\ UNCHANGED << lock, fsleep, spur, fkind, registry, lfi, lfo, 
                               lasthead, qalloc, tid, nrecl, started, cs, ncs, 
                               pendq, err, pci, opx, iv, pv, dhead, dtail, enc, 
                               bhead, own, qh, qi, regs, kk, num, flag, gps, 
                               stack >>

s_ld(self) == /\ pc[self] = "s_ld"
              /\ iv' = [iv EXCEPT ![self] = Rd(self, "futex")]
              /\ acc' = Ev(self, "ld", "futex", "-", "-", Rd(self, "futex"))
              /\ IF iv'[self] # 0
                    THEN /\ IF err = ""
                               THEN /\ err' = "assertion defer_thread_futex == 0 after stopping the reclaimer failed"
                               ELSE /\ TRUE
                                    /\ err' = err
                    ELSE /\ TRUE
                         /\ err' = err
              /\ pc' = [pc EXCEPT ![self] = "u_ul1"]
              /\ UNCHANGED << mem, sb, lock, fsleep, spur, fkind, registry, 
                              lfi, lfo, lasthead, qalloc, tid, nrecl, started, 
                              cs, ncs, pendq, pci, opx, pv, dhead, dtail, enc, 
                              bhead, own, qh, qi, regs, kk, num, flag, gps, 
                              stack >>

u_ul1(self) == /\ pc[self] = "u_ul1"
               /\ Drained(self)
               /\ lock' = [lock EXCEPT ![TM] = "free"]
               /\ acc' = Ev(self, "unlock", TM, "-", "-", "-")
               /\ pc' = [pc EXCEPT ![self] = Head(stack[self]).pc]
               /\ stack' = [stack EXCEPT ![self] = Tail(stack[self])]
               /\ UNCHANGED << mem, sb, fsleep, spur, fkind, registry, lfi, 
                               lfo, lasthead, qalloc, tid, nrecl, started, cs, 
                               ncs, pendq, err, pci, opx, iv, pv, dhead, dtail, 
                               enc, bhead, own, qh, qi, regs, kk, num, flag, 
                               gps >>

unregister(self) == u_lk1(self) \/ u_lk2(self) \/ u_del(self)
                       \/ u_free(self) \/ u_ul2(self) \/ s_st1(self)
                       \/ s_mb(self) \/ s_wake(self) \/ s_join(self)
                       \/ s_st0(self) \/ s_ld(self) \/ u_ul1(self)

fa(self) == /\ pc[self] = "fa"
            /\ FaOf[self] \in fsleep /\ spur > 0
            /\ spur' = spur - 1
            /\ fsleep' = fsleep \ {FaOf[self]}
            /\ \E k \in {"SPURIOUS", "EINTR"}:
                 fkind' = [fkind EXCEPT ![FaOf[self]] = k]
            /\ pc' = [pc EXCEPT ![self] = "fa"]
            /\ UNCHANGED << mem, sb, lock, acc, registry, lfi, lfo, lasthead, 
                            qalloc, tid, nrecl, started, cs, ncs, pendq, err, 
                            pci, opx, iv, pv, dhead, dtail, enc, bhead, own, 
                            qh, qi, regs, kk, num, flag, gps, stack >>

faulter(self) == fa(self)

fl(self) == /\ pc[self] = "fl"
            /\ sb[FlOf[self]] # <<>>
            /\ /\ acc' = IF Tracing THEN [k |-> acc.k + 1, t |-> FlOf[self], op |-> "flush", var |-> Head(sb[FlOf[self]])[1],
                                        a |-> Head(sb[FlOf[self]])[2], b |-> "-", r |-> "-"] ELSE acc
               /\ mem' = [mem EXCEPT ![Head(sb[FlOf[self]])[1]] = Head(sb[FlOf[self]])[2]]
               /\ sb' = [sb EXCEPT ![FlOf[self]] = Tail(sb[FlOf[self]])]
            /\ pc' = [pc EXCEPT ![self] = "fl"]
            /\ UNCHANGED << lock, fsleep, spur, fkind, registry, lfi, lfo, 
                            lasthead, qalloc, tid, nrecl, started, cs, ncs, 
                            pendq, err, pci, opx, iv, pv, dhead, dtail, enc, 
                            bhead, own, qh, qi, regs, kk, num, flag, gps, 
                            stack >>

flusher(self) == fl(self)

h_idle(self) == /\ pc[self] = "h_idle"
                /\ started[self]
                /\ pc' = [pc EXCEPT ![self] = "h_loop"]
                /\ UNCHANGED << mem, sb, lock, acc, fsleep, spur, fkind, 
                                registry, lfi, lfo, lasthead, qalloc, tid, 
                                nrecl, started, cs, ncs, pendq, err, pci, opx, 
                                iv, pv, dhead, dtail, enc, bhead, own, qh, qi, 
                                regs, kk, num, flag, gps, stack >>

h_loop(self) == /\ pc[self] = "h_loop"
                /\ pc' = [pc EXCEPT ![self] = "w_dec"]
                /\ UNCHANGED << mem, sb, lock, acc, fsleep, spur, fkind, 
                                registry, lfi, lfo, lasthead, qalloc, tid, 
                                nrecl, started, cs, ncs, pendq, err, pci, opx, 
                                iv, pv, dhead, dtail, enc, bhead, own, qh, qi, 
                                regs, kk, num, flag, gps, stack >>

w_dec(self) == /\ pc[self] = "w_dec"
               /\ Drained(self)
               /\ mem' = [mem EXCEPT !["futex"] = mem["futex"] - 1]
               /\ acc' = Ev(self, "dec", "futex", "-", "-", mem'["futex"])
               /\ pc' = [pc EXCEPT ![self] = "w_mb"]
               /\ UNCHANGED << sb, lock, fsleep, spur, fkind, registry, lfi, 
                               lfo, lasthead, qalloc, tid, nrecl, started, cs, 
                               ncs, pendq, err, pci, opx, iv, pv, dhead, dtail, 
                               enc, bhead, own, qh, qi, regs, kk, num, flag, 
                               gps, stack >>

w_mb(self) == /\ pc[self] = "w_mb"
              /\ Drained(self)
              /\ acc' = Ev(self, "mb", "-", "-", "-", "-")
              /\ pc' = [pc EXCEPT ![self] = "w_stop"]
              /\ UNCHANGED << mem, sb, lock, fsleep, spur, fkind, registry, 
                              lfi, lfo, lasthead, qalloc, tid, nrecl, started, 
                              cs, ncs, pendq, err, pci, opx, iv, pv, dhead, 
                              dtail, enc, bhead, own, qh, qi, regs, kk, num, 
                              flag, gps, stack >>

w_stop(self) == /\ pc[self] = "w_stop"
                /\ iv' = [iv EXCEPT ![self] = Rd(self, "stop")]
                /\ acc' = Ev(self, "ld", "stop", "-", "-", Rd(self, "stop"))
                /\ IF iv'[self] # 0
                      THEN /\ pc' = [pc EXCEPT ![self] = "w_exit"]
                      ELSE /\ pc' = [pc EXCEPT ![self] = "w_lock"]
                /\ UNCHANGED << mem, sb, lock, fsleep, spur, fkind, registry, 
                                lfi, lfo, lasthead, qalloc, tid, nrecl, 
                                started, cs, ncs, pendq, err, pci, opx, pv, 
                                dhead, dtail, enc, bhead, own, qh, qi, regs, 
                                kk, num, flag, gps, stack >>

w_lock(self) == /\ pc[self] = "w_lock"
                /\ Drained(self) /\ lock[DM] = "free"
                /\ lock' = [lock EXCEPT ![DM] = self]
                /\ acc' = Ev(self, "lock", DM, "-", "-", "-")
                /\ regs' = [regs EXCEPT ![self] = registry]
                /\ num' = [num EXCEPT ![self] = 0]
                /\ kk' = [kk EXCEPT ![self] = 1]
                /\ pc' = [pc EXCEPT ![self] = "w_scan"]
                /\ UNCHANGED << mem, sb, fsleep, spur, fkind, registry, lfi, 
                                lfo, lasthead, qalloc, tid, nrecl, started, cs, 
                                ncs, pendq, err, pci, opx, iv, pv, dhead, 
                                dtail, enc, bhead, own, qh, qi, flag, gps, 
                                stack >>

w_scan(self) == /\ pc[self] = "w_scan"
                /\ IF kk[self] <= Len(regs[self])
                      THEN /\ iv' = [iv EXCEPT ![self] = Rd(self, (HeadOf(regs[self][kk[self]])))]
                           /\ acc' = Ev(self, "ld", (HeadOf(regs[self][kk[self]])), "-", "-", Rd(self, (HeadOf(regs[self][kk[self]]))))
                           /\ num' = [num EXCEPT ![self] = num[self] + (iv'[self] - Rd(self, TailOf(regs[self][kk[self]])))]
                           /\ kk' = [kk EXCEPT ![self] = kk[self] + 1]
                           /\ pc' = [pc EXCEPT ![self] = "w_scan"]
                      ELSE /\ pc' = [pc EXCEPT ![self] = "w_unl"]
                           /\ UNCHANGED << acc, iv, kk, num >>
                /\ UNCHANGED << mem, sb, lock, fsleep, spur, fkind, registry, 
                                lfi, lfo, lasthead, qalloc, tid, nrecl, 
                                started, cs, ncs, pendq, err, pci, opx, pv, 
                                dhead, dtail, enc, bhead, own, qh, qi, regs, 
                                flag, gps, stack >>

w_unl(self) == /\ pc[self] = "w_unl"
               /\ Drained(self)
               /\ lock' = [lock EXCEPT ![DM] = "free"]
               /\ acc' = Ev(self, "unlock", DM, "-", "-", "-")
               /\ IF num[self] = 0
                     THEN /\ pc' = [pc EXCEPT ![self] = "w_ldf"]
                     ELSE /\ pc' = [pc EXCEPT ![self] = "w_mb2"]
               /\ UNCHANGED << mem, sb, fsleep, spur, fkind, registry, lfi, 
                               lfo, lasthead, qalloc, tid, nrecl, started, cs, 
                               ncs, pendq, err, pci, opx, iv, pv, dhead, dtail, 
                               enc, bhead, own, qh, qi, regs, kk, num, flag, 
                               gps, stack >>

w_mb2(self) == /\ pc[self] = "w_mb2"
               /\ Drained(self)
               /\ acc' = Ev(self, "mb", "-", "-", "-", "-")
               /\ pc' = [pc EXCEPT ![self] = "w_st"]
               /\ UNCHANGED << mem, sb, lock, fsleep, spur, fkind, registry, 
                               lfi, lfo, lasthead, qalloc, tid, nrecl, started, 
                               cs, ncs, pendq, err, pci, opx, iv, pv, dhead, 
                               dtail, enc, bhead, own, qh, qi, regs, kk, num, 
                               flag, gps, stack >>

w_st(self) == /\ pc[self] = "w_st"
              /\ IF TSO
                    THEN /\ Len(sb[self]) < SBMax
                         /\ sb' = [sb EXCEPT ![self] = Append(sb[self], <<"futex", 0>>)]
                         /\ mem' = mem
                    ELSE /\ mem' = [mem EXCEPT !["futex"] = 0]
                         /\ sb' = sb
              /\ acc' = Ev(self, "st", "futex", 0, "-", "-")
              /\ pc' = [pc EXCEPT ![self] = "h_bar"]
              /\ UNCHANGED << lock, fsleep, spur, fkind, registry, lfi, lfo, 
                              lasthead, qalloc, tid, nrecl, started, cs, ncs, 
                              pendq, err, pci, opx, iv, pv, dhead, dtail, enc, 
                              bhead, own, qh, qi, regs, kk, num, flag, gps, 
                              stack >>

w_ldf(self) == /\ pc[self] = "w_ldf"
               /\ iv' = [iv EXCEPT ![self] = Rd(self, "futex")]
               /\ acc' = Ev(self, "ld", "futex", "-", "-", Rd(self, "futex"))
               /\ IF iv'[self] # -1
                     THEN /\ pc' = [pc EXCEPT ![self] = "h_bar"]
                     ELSE /\ pc' = [pc EXCEPT ![self] = "w_fwait"]
               /\ UNCHANGED << mem, sb, lock, fsleep, spur, fkind, registry, 
                               lfi, lfo, lasthead, qalloc, tid, nrecl, started, 
                               cs, ncs, pendq, err, pci, opx, pv, dhead, dtail, 
                               enc, bhead, own, qh, qi, regs, kk, num, flag, 
                               gps, stack >>

w_fwait(self) == /\ pc[self] = "w_fwait"
                 /\ Drained(self)
                 /\ IF mem["futex"] = -1
                       THEN /\ fsleep' = (fsleep \cup {self})
                            /\ acc' = Ev(self, "fwait", "futex", -1, "-", "SLEEP")
                            /\ pc' = [pc EXCEPT ![self] = "w_fwoke"]
                       ELSE /\ acc' = Ev(self, "fwait", "futex", -1, "-", "EAGAIN")
                            /\ pc' = [pc EXCEPT ![self] = "h_bar"]
                            /\ UNCHANGED fsleep
                 /\ UNCHANGED << mem, sb, lock, spur, fkind, registry, lfi, 
                                 lfo, lasthead, qalloc, tid, nrecl, started, 
                                 cs, ncs, pendq, err, pci, opx, iv, pv, dhead, 
                                 dtail, enc, bhead, own, qh, qi, regs, kk, num, 
                                 flag, gps, stack >>

w_fwoke(self) == /\ pc[self] = "w_fwoke"
                 /\ self \notin fsleep
                 /\ acc' = Ev(self, "fwoke", "futex", "-", "-", fkind[self])
                 /\ fkind' = [fkind EXCEPT ![self] = "WAKE"]
                 /\ pc' = [pc EXCEPT ![self] = "w_ldf"]
                 /\ UNCHANGED << mem, sb, lock, fsleep, spur, registry, lfi, 
                                 lfo, lasthead, qalloc, tid, nrecl, started, 
                                 cs, ncs, pendq, err, pci, opx, iv, pv, dhead, 
                                 dtail, enc, bhead, own, qh, qi, regs, kk, num, 
                                 flag, gps, stack >>

h_bar(self) == /\ pc[self] = "h_bar"
               /\ stack' = [stack EXCEPT ![self] = << [ procedure |->  "barrier",
                                                        pc        |->  "h_loop" ] >>
                                                    \o stack[self]]
               /\ pc' = [pc EXCEPT ![self] = "b_empty"]
               /\ UNCHANGED << mem, sb, lock, acc, fsleep, spur, fkind, 
                               registry, lfi, lfo, lasthead, qalloc, tid, 
                               nrecl, started, cs, ncs, pendq, err, pci, opx, 
                               iv, pv, dhead, dtail, enc, bhead, own, qh, qi, 
                               regs, kk, num, flag, gps >>

w_exit(self) == /\ pc[self] = "w_exit"
                /\ IF TSO
                      THEN /\ Len(sb[self]) < SBMax
                           /\ sb' = [sb EXCEPT ![self] = Append(sb[self], <<"futex", 0>>)]
                           /\ mem' = mem
                      ELSE /\ mem' = [mem EXCEPT !["futex"] = 0]
                           /\ sb' = sb
                /\ acc' = Ev(self, "st", "futex", 0, "-", "-")
                /\ pc' = [pc EXCEPT ![self] = "h_exit"]
                /\ UNCHANGED << lock, fsleep, spur, fkind, registry, lfi, lfo, 
                                lasthead, qalloc, tid, nrecl, started, cs, ncs, 
                                pendq, err, pci, opx, iv, pv, dhead, dtail, 
                                enc, bhead, own, qh, qi, regs, kk, num, flag, 
                                gps, stack >>

h_exit(self) == /\ pc[self] = "h_exit"
                /\ Drained(self)
                /\ acc' = Ev(self, "exit", "-", "-", "-", "-")
                /\ pc' = [pc EXCEPT ![self] = "Done"]
                /\ UNCHANGED << mem, sb, lock, fsleep, spur, fkind, registry, 
                                lfi, lfo, lasthead, qalloc, tid, nrecl, 
                                started, cs, ncs, pendq, err, pci, opx, iv, pv, 
                                dhead, dtail, enc, bhead, own, qh, qi, regs, 
                                kk, num, flag, gps, stack >>

recl(self) == h_idle(self) \/ h_loop(self) \/ w_dec(self) \/ w_mb(self)
                 \/ w_stop(self) \/ w_lock(self) \/ w_scan(self)
                 \/ w_unl(self) \/ w_mb2(self) \/ w_st(self) \/ w_ldf(self)
                 \/ w_fwait(self) \/ w_fwoke(self) \/ h_bar(self)
                 \/ w_exit(self) \/ h_exit(self)

t_top(self) == /\ pc[self] = "t_top"
               /\ IF pci[self] <= Len(Prog[self])
                     THEN /\ opx' = [opx EXCEPT ![self] = Prog[self][pci[self]]]
                          /\ IF opx'[self].op = "rlock"
                                THEN /\ cs' = [cs EXCEPT ![self] = ncs + 1]
                                     /\ ncs' = ncs + 1
                                     /\ pci' = [pci EXCEPT ![self] = pci[self] + 1]
                                     /\ acc' = Ev(self, "rlock", "-", "-", "-", "-")
                                     /\ pc' = [pc EXCEPT ![self] = "t_top"]
                                     /\ pendq' = pendq
                                ELSE /\ IF opx'[self].op = "runlock"
                                           THEN /\ cs' = [cs EXCEPT ![self] = 0]
                                                /\ pci' = [pci EXCEPT ![self] = pci[self] + 1]
                                                /\ acc' = Ev(self, "runlock", "-", "-", "-", "-")
                                                /\ pc' = [pc EXCEPT ![self] = "t_top"]
                                                /\ pendq' = pendq
                                           ELSE /\ IF opx'[self].op = "defer"
                                                      THEN /\ pendq' = [pendq EXCEPT ![self] = Append(pendq[self], [f |-> opx'[self].f, p |-> opx'[self].p, snap |-> OpenNow])]
                                                      ELSE /\ TRUE
                                                           /\ pendq' = pendq
                                                /\ acc' = Ev(self, "call", "-", opx'[self].op, opx'[self].f, opx'[self].p)
                                                /\ pc' = [pc EXCEPT ![self] = "t_disp"]
                                                /\ UNCHANGED << cs, pci >>
                                     /\ ncs' = ncs
                     ELSE /\ pc' = [pc EXCEPT ![self] = "t_exit"]
                          /\ UNCHANGED << acc, cs, ncs, pendq, pci, opx >>
               /\ UNCHANGED << mem, sb, lock, fsleep, spur, fkind, registry, 
                               lfi, lfo, lasthead, qalloc, tid, nrecl, started, 
                               err, iv, pv, dhead, dtail, enc, bhead, own, qh, 
                               qi, regs, kk, num, flag, gps, stack >>

t_disp(self) == /\ pc[self] = "t_disp"
                /\ IF opx[self].op = "defer"
                      THEN /\ stack' = [stack EXCEPT ![self] = << [ procedure |->  "defer_rcu",
                                                                    pc        |->  "t_ret" ] >>
                                                                \o stack[self]]
                           /\ pc' = [pc EXCEPT ![self] = "e_ldt"]
                      ELSE /\ IF opx[self].op = "reg"
                                 THEN /\ stack' = [stack EXCEPT ![self] = << [ procedure |->  "register",
                                                                               pc        |->  "t_ret" ] >>
                                                                           \o stack[self]]
                                      /\ pc' = [pc EXCEPT ![self] = "r_chk"]
                                 ELSE /\ IF opx[self].op = "unreg"
                                            THEN /\ stack' = [stack EXCEPT ![self] = << [ procedure |->  "unregister",
                                                                                          pc        |->  "t_ret" ] >>
                                                                                      \o stack[self]]
                                                 /\ pc' = [pc EXCEPT ![self] = "u_lk1"]
                                            ELSE /\ IF opx[self].op = "barrier"
                                                       THEN /\ stack' = [stack EXCEPT ![self] = << [ procedure |->  "barrier",
                                                                                                     pc        |->  "t_ret" ] >>
                                                                                                 \o stack[self]]
                                                            /\ pc' = [pc EXCEPT ![self] = "b_empty"]
                                                       ELSE /\ IF opx[self].op = "barrier_thread"
                                                                  THEN /\ stack' = [stack EXCEPT ![self] = << [ procedure |->  "barrier_thread",
                                                                                                                pc        |->  "t_ret" ] >>
                                                                                                            \o stack[self]]
                                                                       /\ pc' = [pc EXCEPT ![self] = "bt_lock"]
                                                                  ELSE /\ pendq[self] = <<>>
                                                                       /\ pc' = [pc EXCEPT ![self] = "t_ret"]
                                                                       /\ stack' = stack
                /\ UNCHANGED << mem, sb, lock, acc, fsleep, spur, fkind, 
                                registry, lfi, lfo, lasthead, qalloc, tid, 
                                nrecl, started, cs, ncs, pendq, err, pci, opx, 
                                iv, pv, dhead, dtail, enc, bhead, own, qh, qi, 
                                regs, kk, num, flag, gps >>

t_ret(self) == /\ pc[self] = "t_ret"
               /\ IF opx[self].op \in {"unreg", "barrier", "barrier_thread"} /\ pendq[self] # <<>>
                     THEN /\ IF err = ""
                                THEN /\ err' = "barrier / unregister returned while calls queued before it by the caller have not run"
                                ELSE /\ TRUE
                                     /\ err' = err
                     ELSE /\ TRUE
                          /\ err' = err
               /\ acc' = Ev(self, "ret", "-", "-", "-", "-")
               /\ pci' = [pci EXCEPT ![self] = pci[self] + 1]
               /\ pc' = [pc EXCEPT ![self] = "t_top"]
               /\ UNCHANGED << mem, sb, lock, fsleep, spur, fkind, registry, 
                               lfi, lfo, lasthead, qalloc, tid, nrecl, started, 
                               cs, ncs, pendq, opx, iv, pv, dhead, dtail, enc, 
                               bhead, own, qh, qi, regs, kk, num, flag, gps, 
                               stack >>

t_exit(self) == /\ pc[self] = "t_exit"
                /\ Drained(self)
                /\ acc' = Ev(self, "exit", "-", "-", "-", "-")
                /\ pc' = [pc EXCEPT ![self] = "Done"]
                /\ UNCHANGED << mem, sb, lock, fsleep, spur, fkind, registry, 
                                lfi, lfo, lasthead, qalloc, tid, nrecl, 
                                started, cs, ncs, pendq, err, pci, opx, iv, pv, 
                                dhead, dtail, enc, bhead, own, qh, qi, regs, 
                                kk, num, flag, gps, stack >>

thr(self) == t_top(self) \/ t_disp(self) \/ t_ret(self) \/ t_exit(self)

Next == (\E self \in ProcSet:  \/ synchronize_rcu(self)
                               \/ wake_up_defer(self) \/ barrier_queue(self)
                               \/ barrier_thread_locked(self)
                               \/ barrier_thread(self) \/ barrier(self)
                               \/ defer_rcu(self) \/ register(self)
                               \/ unregister(self))
           \/ (\E self \in Faulters: faulter(self))
           \/ (\E self \in Flushers: flusher(self))
           \/ (\E self \in Recl: recl(self))
           \/ (\E self \in Threads: thr(self))

Spec == /\ Init /\ [][Next]_vars
        /\ \A self \in Flushers : WF_vars(flusher(self))
        /\ \A self \in Recl : /\ WF_vars(recl(self))
                              /\ WF_vars(barrier(self))
                              /\ WF_vars(synchronize_rcu(self))
                              /\ WF_vars(barrier_queue(self))
        /\ \A self \in Threads : /\ WF_vars(thr(self))
                                 /\ WF_vars(defer_rcu(self))
                                 /\ WF_vars(register(self))
                                 /\ WF_vars(unregister(self))
                                 /\ WF_vars(barrier(self))
                                 /\ WF_vars(barrier_thread(self))
                                 /\ WF_vars(synchronize_rcu(self))
                                 /\ WF_vars(wake_up_defer(self))
                                 /\ WF_vars(barrier_queue(self))
                                 /\ WF_vars(barrier_thread_locked(self))

\* END TRANSLATION

AllDone == \A t \in Threads : pc[t] = "Done"
\* C13 safety: exactly once, in order, exact arguments, after the sections open at queue time, barrier completeness,
\* and the code's own assertions
NoErr == err = ""
\* deadlock freedom with an explicit notion of termination (flushers never terminate, reclaimers may stay parked)
DeadlockFree == AllDone \/ ENABLED Next
\* nothing is left queued once nothing can move any more ("callback never ran at quiescence")
QuiescentDone == (AllDone /\ ~ENABLED Next) => \A t \in Threads : pendq[t] = <<>>
SBBound == \A t \in Procs : Len(sb[t]) <= SBMax
\* liveness (under the fairness of Spec): a queued call is eventually invoked -- by the reclaimer if no API call follows
FairSpec == Spec
EventuallyRun == \A t \in Threads : (pendq[t] # <<>>) ~> (pendq[t] = <<>>)
=============================================================================
