-------------------------------- MODULE Lfs --------------------------------
(***************************************************************************)
(* cds_lfs (include/urcu/static/lfstack.h) and the legacy cds_lfs_rcu      *)
(* (include/urcu/static/rculfstack.h, same algorithm: Legacy = TRUE limits *)
(* the operations to push / pop under RCU) at the granularity of one       *)
(* action per shared-memory access, under SC or x86-TSO store buffers.     *)
(*                                                                         *)
(* One stack "s1" (head word "s1.head", NULL when empty, pop mutex         *)
(* "s1.lock").  Threads execute the operation sequences of a scenario:     *)
(*   [op |-> "push",   n]          cds_lfs_push / cds_lfs_push_rcu; n is a *)
(*                                 node name or "@k": the node returned by *)
(*                                 the k-th pop of this thread (recycling; *)
(*                                 nothing is pushed if that pop got NULL) *)
(*   [op |-> "pop",    lck, rcu]   lck: cds_lfs_pop_blocking (pop mutex);  *)
(*                                 rcu: rcu_read_lock; __cds_lfs_pop /     *)
(*                                 cds_lfs_pop_rcu; rcu_read_unlock;       *)
(*                                 neither: __cds_lfs_pop (single consumer)*)
(*   [op |-> "popall", lck]        (__)cds_lfs_pop_all(_blocking) and      *)
(*                                 cds_lfs_for_each over the popped list   *)
(*   [op |-> "empty"]              cds_lfs_empty                           *)
(*   [op |-> "sync",   gp]         gp: synchronize_rcu (abstract: returns  *)
(*                                 once every read-side critical section   *)
(*                                 open at its start has ended); gp = FALSE*)
(*                                 does nothing (NEGATIVE CONTROL: reuse   *)
(*                                 without waiting for the grace period)   *)
(* The three synchronisation schemes of the API (pop mutex, single         *)
(* consumer, RCU + grace period before reuse) are scenario choices.        *)
(* Property monitors (C11): LinMon over an abstract LIFO sequence (top     *)
(* first), node conservation and concrete shape = abstract stack at        *)
(* quiescence, no node returned while another thread still holds it (ABA). *)
(*                                                                         *)
(* PlainBuf: the plain store node->next = head of push enters the store    *)
(* buffer (as on the hardware).  With PlainBuf = FALSE it is written       *)
(* through, which is what the VSCHED runtime does with plain stores; the   *)
(* thread performs no access between that store and the full barrier /     *)
(* locked cmpxchg that follows, so write-through is the TSO behaviour in   *)
(* which the flush comes first.  TLC checks PlainBuf = TRUE, recorded      *)
(* executions are validated with PlainBuf = FALSE.                         *)
(*                                                                         *)
(* acc is the "last access" ghost used by trace validation and by          *)
(* schedule generation; it only changes when Tracing = TRUE.               *)
(***************************************************************************)
EXTENDS Naturals, Sequences, FiniteSets, TLC

CONSTANTS Threads,    \* set of thread ids (strings)
          Prog,       \* [Threads -> Seq(op record)]
          TSO,        \* TRUE: stores are buffered (x86-TSO); FALSE: sequential consistency
          Tracing,    \* TRUE: maintain acc
          SBMax,      \* bound on store-buffer length used by the state constraint
          Legacy,     \* TRUE: rculfstack.h (push_rcu / pop_rcu only)
          PlainBuf    \* TRUE: the plain store of push goes through the store buffer

NULL == "NULL"
HeadLoc == "s1.head"
LockName == "s1.lock"
NextOf(n) == n \o ".next"
OpsOf(t) == {Prog[t][i] : i \in DOMAIN Prog[t]}
AllOps == UNION {OpsOf(t) : t \in Threads}
Regs == {"@1", "@2", "@3"}
RegIdx(r) == CASE r = "@1" -> 1 [] r = "@2" -> 2 [] OTHER -> 3
Nodes == {o.n : o \in {x \in AllOps : x.op = "push" /\ x.n \notin Regs}}
Locs == {HeadLoc} \cup {NextOf(n) : n \in Nodes}
FlId(t) == "F:" \o t
Flushers == {FlId(t) : t \in Threads}
FlOf == [f \in Flushers |-> CHOOSE t \in Threads : FlId(t) = f]
\* node pushed by operation o of a thread whose pops returned g so far (NULL: nothing to push)
Resolve(o, g) == IF o.op # "push" THEN NULL
                 ELSE IF o.n \in Regs THEN (IF RegIdx(o.n) <= Len(g) THEN g[RegIdx(o.n)] ELSE NULL)
                 ELSE o.n
ASSUME Legacy => \A o \in AllOps : o.op \in {"push", "sync"} \/ (o.op = "pop" /\ o.rcu /\ ~o.lck)

\* ---- abstract object: one LIFO sequence, top first ----
RECURSIVE Join(_)
Join(s) == IF s = <<>> THEN "" ELSE IF Len(s) = 1 THEN s[1] ELSE s[1] \o "," \o Join(Tail(s))
Elems(s) == {s[j] : j \in DOMAIN s}
SApply(abs, o, stage, t) ==
  CASE o.op = "push"   -> IF o.n = NULL THEN [abs |-> abs, res |-> "SKIP"]
                          ELSE [abs |-> <<o.n>> \o abs, res |-> IF abs = <<>> THEN "wasEmpty" ELSE "nonEmpty"]
    [] o.op = "pop"    -> IF abs = <<>> THEN [abs |-> abs, res |-> NULL] ELSE [abs |-> Tail(abs), res |-> Head(abs)]
    [] o.op = "popall" -> [abs |-> <<>>, res |-> Join(abs)]
    [] o.op = "empty"  -> [abs |-> abs, res |-> IF abs = <<>> THEN "TRUE" ELSE "FALSE"]
    [] o.op = "sync"   -> [abs |-> abs, res |-> "ok"]
LM == INSTANCE LinMon WITH Apply <- SApply, Thr <- Threads

(* --algorithm lfs {
variables
  mem = [l \in Locs |-> NULL],
  sb = [t \in Threads |-> <<>>],
  lock = "free",
  incs = [t \in Threads |-> FALSE],         \* abstract RCU: thread is inside a read-side critical section
  gpwait = [t \in Threads |-> {}],          \* abstract RCU: critical sections the grace period of t still waits for
  acc = [k |-> 0],
  pend = [t \in Threads |-> LM!NoOp],
  cfgs = LM!InitCfgs(<<>>),
  held = {};                                \* ghost: nodes returned by pop / pop_all and not pushed again

define {
  LastIdx(t, loc) == LET S == {i \in DOMAIN sb[t] : sb[t][i][1] = loc} IN
                     IF S = {} THEN 0 ELSE CHOOSE i \in S : \A j \in S : j <= i
  Rd(t, loc) == IF LastIdx(t, loc) = 0 THEN mem[loc] ELSE sb[t][LastIdx(t, loc)][2]
  Drained(t) == sb[t] = <<>>
  Ev(t, op, var, a, b, r) == IF Tracing THEN [k |-> acc.k + 1, t |-> t, op |-> op, var |-> var, a |-> a, b |-> b, r |-> r] ELSE acc
  Linearizable == cfgs # {}
}

macro Ld(dst, loc)        { dst := Rd(self, loc); acc := Ev(self, "ld", loc, "-", "-", Rd(self, loc)); }
macro St(loc, v)          { if (TSO) { sb[self] := Append(sb[self], <<loc, v>>) } else { mem[loc] := v };
                            acc := Ev(self, "st", loc, v, "-", "-"); }
\* plain (non-atomic) store; see PlainBuf above
macro StPlain(loc, v)     { if (TSO /\ PlainBuf) { sb[self] := Append(sb[self], <<loc, v>>) }
                            else { await Drained(self); mem[loc] := v };
                            acc := Ev(self, "st", loc, v, "-", "-"); }
macro Xchg(dst, loc, v)   { await Drained(self); dst := mem[loc]; mem[loc] := v; acc := Ev(self, "xchg", loc, v, "-", dst); }
macro Cas(dst, loc, o, n) { await Drained(self); dst := mem[loc]; if (mem[loc] = o) { mem[loc] := n };
                            acc := Ev(self, "cas", loc, o, n, dst); }
macro Mb()                { await Drained(self); acc := Ev(self, "mb", "-", "-", "-", "-"); }
macro Lock()              { await Drained(self) /\ lock = "free"; lock := self; acc := Ev(self, "lock", LockName, "-", "-", "-"); }
macro Unlock()            { await Drained(self); lock := "free"; acc := Ev(self, "unlock", LockName, "-", "-", "-"); }

fair process (flusher \in Flushers) {
fl: while (TRUE) {
      await sb[FlOf[self]] # <<>>;
      mem[Head(sb[FlOf[self]])[1]] := Head(sb[FlOf[self]])[2] || sb[FlOf[self]] := Tail(sb[FlOf[self]])
      || acc := IF Tracing THEN [k |-> acc.k + 1, t |-> FlOf[self], op |-> "flush", var |-> Head(sb[FlOf[self]])[1],
                               a |-> Head(sb[FlOf[self]])[2], b |-> "-", r |-> "-"] ELSE acc;
    }
}

fair process (thr \in Threads)
variables i = 1, op = LM!NoOp, a = NULL, hd = NULL, node = NULL, next = NULL, res = NULL, pn = NULL, seen = <<>>, got = <<>>;
{
t_top:  while (i <= Len(Prog[self])) {
          op := Prog[self][i];
          pn := Resolve(Prog[self][i], got);                      \* node to push ("@k": the node this thread popped k-th)
          pend[self] := IF Prog[self][i].op = "push" THEN [op |-> "push", n |-> Resolve(Prog[self][i], got)] ELSE Prog[self][i];
          held := held \ {Resolve(Prog[self][i], got)};           \* the pusher gives the node up when it calls push
          res := NULL; seen := <<>>;
t_disp:   if (op.op = "push") { if (pn = NULL) { res := "SKIP"; goto t_ret } else { hd := NULL; goto p_st } }
          else if (op.op = "pop") { if (op.rcu) { goto q_rl } else { goto q_lock } }
          else if (op.op = "popall") { goto x_lock }
          else if (op.op = "sync") { if (op.gp) { goto g_begin } else { res := "ok"; goto t_ret } }
          else { goto m_ld };

        \* ---------------- _cds_lfs_push / _cds_lfs_push_rcu      (head = NULL on entry)
p_st:     StPlain(NextOf(pn), hd);                               \* node->next = &head->node          (plain store)
p_mb:     Mb();                                                  \* cmm_emit_legacy_smp_mb()
p_cas:    Cas(a, HeadLoc, hd, pn);                               \* head = uatomic_cmpxchg(&s->head, old_head, new_head)
          if (a = hd) { res := IF a = NULL THEN "wasEmpty" ELSE "nonEmpty"; goto t_ret }   \* old_head == head: done
          else { hd := a; goto p_st };                           \* retry with the value read by the cmpxchg

        \* ---------------- ___cds_lfs_pop / _cds_lfs_pop_rcu, with the caller's synchronisation
q_rl:     incs[self] := TRUE;                                    \* rcu_read_lock()   (abstract RCU)
          acc := Ev(self, "rlock", "-", "-", "-", "-");
          goto q_ldh;
q_lock:   if (op.lck) { Lock() };                                \* _cds_lfs_pop_lock
q_ldh:    Ld(hd, HeadLoc);                                       \* head = uatomic_load(&s->head, CONSUME) / rcu_dereference(s->head)
          if (hd = NULL) { res := NULL; goto q_done };           \* empty stack
q_ldn:    Ld(next, NextOf(hd));                                  \* next = uatomic_load(&head->node.next) / rcu_dereference(head->next)
q_cas:    Cas(a, HeadLoc, hd, next);                             \* uatomic_cmpxchg(&s->head, head, next_head) == head ?
          if (a # hd) { goto q_ldh } else { res := hd };         \* busy-loop if head changed under us
q_mb:     Mb();                                                  \* cmm_emit_legacy_smp_mb()
q_done:   if (op.rcu) { goto q_ru } else { goto q_unlock };
q_ru:     incs[self] := FALSE;                                   \* rcu_read_unlock()
          gpwait := [u \in Threads |-> gpwait[u] \ {self}];
          acc := Ev(self, "runlock", "-", "-", "-", "-");
          goto t_ret;
q_unlock: if (op.lck) { Unlock() };                              \* _cds_lfs_pop_unlock
          goto t_ret;

        \* ---------------- (_)__cds_lfs_pop_all(_blocking), then cds_lfs_for_each over the popped list
x_lock:   if (op.lck) { Lock() };
x_xchg:   Xchg(hd, HeadLoc, NULL);                               \* head = uatomic_xchg(&s->head, NULL)
x_mb:     Mb();                                                  \* cmm_emit_legacy_smp_mb()
x_unlock: if (op.lck) { Unlock() };
          if (hd = NULL) { res := ""; goto t_ret }               \* cds_lfs_for_each: __node = &__head->node; __node != NULL
          else { node := hd; seen := <<hd>> };
y_next:   Ld(next, NextOf(node));                                \* __node = __node->next                  (plain load)
          if (next = NULL) { res := Join(seen); goto t_ret }
          else if (Len(seen) > Cardinality(Nodes)) { res := Join(seen) \o ",..."; goto t_ret }   \* cyclic list (corruption)
          else { node := next; seen := Append(seen, next); goto y_next };

        \* ---------------- synchronize_rcu (abstract)
g_begin:  gpwait[self] := {t \in Threads \ {self} : incs[t]};    \* critical sections open now
          acc := Ev(self, "gp_begin", "-", "-", "-", "-");
g_wait:   await Drained(self) /\ gpwait[self] = {};              \* ... have all ended
          acc := Ev(self, "gp_end", "-", "-", "-", "-");
          res := "ok";
          goto t_ret;

        \* ---------------- _cds_lfs_empty
m_ld:     Ld(a, HeadLoc);                                        \* ___cds_lfs_empty_head(uatomic_load(&s->head))
          res := IF a = NULL THEN "TRUE" ELSE "FALSE";

t_ret:    cfgs := LM!AfterReturn(cfgs, pend, self, res) || pend[self] := LM!NoOp;
          if (op.op = "pop") { got := Append(got, res);
                               if (res # NULL) { assert res \notin held; held := held \cup {res} } }
          else if (op.op = "popall") { assert Elems(seen) \cap held = {} /\ Cardinality(Elems(seen)) = Len(seen);
                                       held := held \cup Elems(seen) };
          i := i + 1;
        }
}
} *)
\* BEGIN TRANSLATION
\* END TRANSLATION

AllDone == \A t \in Threads : pc[t] = "Done"
\* every node is either stacked (in every surviving linearisation) or held by exactly one thread
Conservation == AllDone => \A c \in cfgs : Elems(c.abs) \cap held = {} /\ Elems(c.abs) \cup held = Nodes
\* at quiescence the concrete list reachable from head is the abstract stack of one of the surviving linearisations
RECURSIVE Walk(_, _, _)
Walk(m, n, fuel) == IF n = NULL THEN <<>> ELSE IF fuel = 0 THEN <<"?">> ELSE <<n>> \o Walk(m, m[NextOf(n)], fuel - 1)
Shape == (AllDone /\ \A t \in Threads : sb[t] = <<>>) => \E c \in cfgs : Walk(mem, mem[HeadLoc], Cardinality(Nodes) + 1) = c.abs
\* deadlock freedom with an explicit notion of termination (flushers never terminate)
DeadlockFree == AllDone \/ ENABLED Next
SBBound == \A t \in Threads : Len(sb[t]) <= SBMax
=============================================================================
