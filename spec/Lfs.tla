-------------------------------- MODULE Lfs --------------------------------
(***************************************************************************)
(* cds_lfs (include/urcu/static/lfstack.h) and the legacy cds_lfs_rcu      *)
(* (include/urcu/static/rculfstack.h, same algorithm: Legacy = TRUE limits *)
(* the operations to push / pop under RCU) at the granularity of one       *)
(* action per shared-memory access, under SC or x86-TSO store buffers.     *)
(*                                                                         *)
(* One stack "s1" (head word "s1.head", NULL when empty, pop mutex         *)
(* "s1.lock").  Threads execute the operation sequences of a scenario:     *)
(*   [op |-> "push",   n]          cds_lfs_push / cds_lfs_push_rcu; n is a *)
(*                                 node name or "@k": the node returned by *)
(*                                 the k-th pop of this thread (recycling; *)
(*                                 nothing is pushed if that pop got NULL) *)
(*   [op |-> "pop",    lck, rcu]   lck: cds_lfs_pop_blocking (pop mutex);  *)
(*                                 rcu: rcu_read_lock; __cds_lfs_pop /     *)
(*                                 cds_lfs_pop_rcu; rcu_read_unlock;       *)
(*                                 neither: __cds_lfs_pop (single consumer)*)
(*   [op |-> "popall", lck]        (__)cds_lfs_pop_all(_blocking) and      *)
(*                                 cds_lfs_for_each over the popped list   *)
(*   [op |-> "empty"]              cds_lfs_empty                           *)
(*   [op |-> "free",   n]          the node "@k" popped earlier is         *)
(*                                 reclaimed (free()): any later access to *)
(*                                 it is a use after free                  *)
(*   [op |-> "sync",   gp]         gp: synchronize_rcu (abstract: returns  *)
(*                                 once every read-side critical section   *)
(*                                 open at its start has ended); gp = FALSE*)
(*                                 does nothing (NEGATIVE CONTROL: reuse   *)
(*                                 without waiting for the grace period)   *)
(* The three synchronisation schemes of the API (pop mutex, single         *)
(* consumer, RCU + grace period before reuse) are scenario choices.        *)
(* Property monitors (C11): LinMon over an abstract LIFO sequence (top     *)
(* first), node conservation and concrete shape = abstract stack at        *)
(* quiescence, no node returned while another thread still holds it (ABA), *)
(* no access to a reclaimed node.                                          *)
(*                                                                         *)
(* PlainBuf: the plain store node->next = head of push enters the store    *)
(* buffer (as on the hardware).  With PlainBuf = FALSE it is written       *)
(* through, which is what the VSCHED runtime does with plain stores; the   *)
(* thread performs no access between that store and the full barrier /     *)
(* locked cmpxchg that follows, so write-through is the TSO behaviour in   *)
(* which the flush comes first.  TLC checks PlainBuf = TRUE, recorded      *)
(* executions are validated with PlainBuf = FALSE.                         *)
(*                                                                         *)
(* acc is the "last access" ghost used by trace validation and by          *)
(* schedule generation; it only changes when Tracing = TRUE.               *)
(***************************************************************************)
EXTENDS Naturals, Sequences, FiniteSets, TLC

CONSTANTS Threads,    \* set of thread ids (strings)
          Prog,       \* [Threads -> Seq(op record)]
          TSO,        \* TRUE: stores are buffered (x86-TSO); FALSE: sequential consistency
          Tracing,    \* TRUE: maintain acc
          SBMax,      \* bound on store-buffer length used by the state constraint
          Legacy,     \* TRUE: rculfstack.h (push_rcu / pop_rcu only)
          PlainBuf    \* TRUE: the plain store of push goes through the store buffer

NULL == "NULL"
HeadLoc == "s1.head"
LockName == "s1.lock"
NextOf(n) == n \o ".next"
OpsOf(t) == {Prog[t][i] : i \in DOMAIN Prog[t]}
AllOps == UNION {OpsOf(t) : t \in Threads}
Regs == {"@1", "@2", "@3"}
RegIdx(r) == CASE r = "@1" -> 1 [] r = "@2" -> 2 [] OTHER -> 3
Nodes == {o.n : o \in {x \in AllOps : x.op = "push" /\ x.n \notin Regs}}
Named == {"push", "free"}               \* operations that name a node
Locs == {HeadLoc} \cup {NextOf(n) : n \in Nodes}
FlId(t) == "F:" \o t
Flushers == {FlId(t) : t \in Threads}
FlOf == [f \in Flushers |-> CHOOSE t \in Threads : FlId(t) = f]
\* node pushed / freed by operation o of a thread whose pops returned g so far (NULL: nothing to push / free)
Resolve(o, g) == IF o.op \notin Named THEN NULL
                 ELSE IF o.n \in Regs THEN (IF RegIdx(o.n) <= Len(g) THEN g[RegIdx(o.n)] ELSE NULL)
                 ELSE o.n
ASSUME Legacy => \A o \in AllOps : o.op \in {"push", "sync", "free"} \/ (o.op = "pop" /\ o.rcu /\ ~o.lck)

\* ---- abstract object: one LIFO sequence, top first ----
RECURSIVE Join(_)
Join(s) == IF s = <<>> THEN "" ELSE IF Len(s) = 1 THEN s[1] ELSE s[1] \o "," \o Join(Tail(s))
Elems(s) == {s[j] : j \in DOMAIN s}
SApply(abs, o, stage, t) ==
  CASE o.op = "push"   -> IF o.n = NULL THEN [abs |-> abs, res |-> "SKIP"]
                          ELSE [abs |-> <<o.n>> \o abs, res |-> IF abs = <<>> THEN "wasEmpty" ELSE "nonEmpty"]
    [] o.op = "pop"    -> IF abs = <<>> THEN [abs |-> abs, res |-> NULL] ELSE [abs |-> Tail(abs), res |-> Head(abs)]
    [] o.op = "popall" -> [abs |-> <<>>, res |-> Join(abs)]
    [] o.op = "empty"  -> [abs |-> abs, res |-> IF abs = <<>> THEN "TRUE" ELSE "FALSE"]
    [] o.op = "sync"   -> [abs |-> abs, res |-> "ok"]
    [] o.op = "free"   -> [abs |-> abs, res |-> IF o.n = NULL THEN "SKIP" ELSE "ok"]
LM == INSTANCE LinMon WITH Apply <- SApply, Thr <- Threads

(* --algorithm lfs {
variables
  mem = [l \in Locs |-> NULL],
  sb = [t \in Threads |-> <<>>],
  lock = "free",
  incs = [t \in Threads |-> FALSE],         \* abstract RCU: thread is inside a read-side critical section
  gpwait = [t \in Threads |-> {}],          \* abstract RCU: critical sections the grace period of t still waits for
  acc = [k |-> 0],
  pend = [t \in Threads |-> LM!NoOp],
  cfgs = LM!InitCfgs(<<>>),
  held = {},                                \* ghost: nodes returned by pop / pop_all and not pushed again
  freed = {},                               \* ghost: reclaimed nodes
  uaf = FALSE;                              \* ghost: a reclaimed node was accessed

define {
  LastIdx(t, loc) == LET S == {i \in DOMAIN sb[t] : sb[t][i][1] = loc} IN
                     IF S = {} THEN 0 ELSE CHOOSE i \in S : \A j \in S : j <= i
  Rd(t, loc) == IF LastIdx(t, loc) = 0 THEN mem[loc] ELSE sb[t][LastIdx(t, loc)][2]
  Drained(t) == sb[t] = <<>>
  Ev(t, op, var, a, b, r) == IF Tracing THEN [k |-> acc.k + 1, t |-> t, op |-> op, var |-> var, a |-> a, b |-> b, r |-> r] ELSE acc
  Linearizable == cfgs # {}
}

macro Ld(dst, loc)        { dst := Rd(self, loc); acc := Ev(self, "ld", loc, "-", "-", Rd(self, loc)); }
macro St(loc, v)          { if (TSO) { sb[self] := Append(sb[self], <<loc, v>>) } else { mem[loc] := v };
                            acc := Ev(self, "st", loc, v, "-", "-"); }
\* plain (non-atomic) store; see PlainBuf above
macro StPlain(loc, v)     { if (TSO /\ PlainBuf) { sb[self] := Append(sb[self], <<loc, v>>) }
                            else { await Drained(self); mem[loc] := v };
                            acc := Ev(self, "st", loc, v, "-", "-"); }
macro Xchg(dst, loc, v)   { await Drained(self); dst := mem[loc]; mem[loc] := v; acc := Ev(self, "xchg", loc, v, "-", dst); }
macro Cas(dst, loc, o, n) { await Drained(self); dst := mem[loc]; if (mem[loc] = o) { mem[loc] := n };
                            acc := Ev(self, "cas", loc, o, n, dst); }
macro Mb()                { await Drained(self); acc := Ev(self, "mb", "-", "-", "-", "-"); }
macro Lock()              { await Drained(self) /\ lock = "free"; lock := self; acc := Ev(self, "lock", LockName, "-", "-", "-"); }
macro Unlock()            { await Drained(self); lock := "free"; acc := Ev(self, "unlock", LockName, "-", "-", "-"); }

fair process (flusher \in Flushers) {
fl: while (TRUE) {
      await sb[FlOf[self]] # <<>>;
      mem[Head(sb[FlOf[self]])[1]] := Head(sb[FlOf[self]])[2] || sb[FlOf[self]] := Tail(sb[FlOf[self]])
      || acc := IF Tracing THEN [k |-> acc.k + 1, t |-> FlOf[self], op |-> "flush", var |-> Head(sb[FlOf[self]])[1],
                               a |-> Head(sb[FlOf[self]])[2], b |-> "-", r |-> "-"] ELSE acc;
    }
}

fair process (thr \in Threads)
variables i = 1, op = LM!NoOp, a = NULL, hd = NULL, node = NULL, next = NULL, res = NULL, pn = NULL, seen = <<>>, got = <<>>;
{
t_top:  while (i <= Len(Prog[self])) {
          op := Prog[self][i];
          pn := Resolve(Prog[self][i], got);                      \* node to push ("@k": the node this thread popped k-th)
          pend[self] := IF Prog[self][i].op \in Named THEN [op |-> Prog[self][i].op, n |-> Resolve(Prog[self][i], got)] ELSE Prog[self][i];
          if (Prog[self][i].op = "push") { held := held \ {Resolve(Prog[self][i], got)} };   \* the pusher gives the node up when it calls push
          res := NULL; seen := <<>>;
t_disp:   if (op.op = "push") { if (pn = NULL) { res := "SKIP"; goto t_ret } else { hd := NULL; goto p_st } }
          else if (op.op = "pop") { if (op.rcu) { goto q_rl } else { goto q_lock } }
          else if (op.op = "popall") { goto x_lock }
          else if (op.op = "sync") { if (op.gp) { goto g_begin } else { res := "ok"; goto t_ret } }
          else if (op.op = "free") { if (pn = NULL) { res := "SKIP" } else { freed := freed \cup {pn}; res := "ok" }; goto t_ret }
          else { goto m_ld };

        \* ---------------- _cds_lfs_push / _cds_lfs_push_rcu      (head = NULL on entry)
p_st:     StPlain(NextOf(pn), hd);                               \* node->next = &head->node          (plain store)
          if (pn \in freed) { uaf := TRUE };
p_mb:     Mb();                                                  \* cmm_emit_legacy_smp_mb()
p_cas:    Cas(a, HeadLoc, hd, pn);                               \* head = uatomic_cmpxchg(&s->head, old_head, new_head)
          if (a = hd) { res := IF a = NULL THEN "wasEmpty" ELSE "nonEmpty"; goto t_ret }   \* old_head == head: done
          else { hd := a; goto p_st };                           \* retry with the value read by the cmpxchg

        \* ---------------- ___cds_lfs_pop / _cds_lfs_pop_rcu, with the caller's synchronisation
q_rl:     incs[self] := TRUE;                                    \* rcu_read_lock()   (abstract RCU)
          acc := Ev(self, "rlock", "-", "-", "-", "-");
          goto q_ldh;
q_lock:   if (op.lck) { Lock() };                                \* _cds_lfs_pop_lock
q_ldh:    Ld(hd, HeadLoc);                                       \* head = uatomic_load(&s->head, CONSUME) / rcu_dereference(s->head)
          if (hd = NULL) { res := NULL; goto q_done };           \* empty stack
q_ldn:    Ld(next, NextOf(hd));                                  \* next = uatomic_load(&head->node.next) / rcu_dereference(head->next)
          if (hd \in freed) { uaf := TRUE };
q_cas:    Cas(a, HeadLoc, hd, next);                             \* uatomic_cmpxchg(&s->head, head, next_head) == head ?
          if (a # hd) { goto q_ldh } else { res := hd };         \* busy-loop if head changed under us
q_mb:     Mb();                                                  \* cmm_emit_legacy_smp_mb()
q_done:   if (op.rcu) { goto q_ru } else { goto q_unlock };
q_ru:     incs[self] := FALSE;                                   \* rcu_read_unlock()
          gpwait := [u \in Threads |-> gpwait[u] \ {self}];
          acc := Ev(self, "runlock", "-", "-", "-", "-");
          goto t_ret;
q_unlock: if (op.lck) { Unlock() };                              \* _cds_lfs_pop_unlock
          goto t_ret;

        \* ---------------- (_)__cds_lfs_pop_all(_blocking), then cds_lfs_for_each over the popped list
x_lock:   if (op.lck) { Lock() };
x_xchg:   Xchg(hd, HeadLoc, NULL);                               \* head = uatomic_xchg(&s->head, NULL)
x_mb:     Mb();                                                  \* cmm_emit_legacy_smp_mb()
x_unlock: if (op.lck) { Unlock() };
          if (hd = NULL) { res := ""; goto t_ret }               \* cds_lfs_for_each: __node = &__head->node; __node != NULL
          else { node := hd; seen := <<hd>> };
y_next:   Ld(next, NextOf(node));                                \* __node = __node->next                  (plain load)
          if (node \in freed) { uaf := TRUE };
          if (next = NULL) { res := Join(seen); goto t_ret }
          else if (Len(seen) > Cardinality(Nodes)) { res := Join(seen) \o ",..."; goto t_ret }   \* cyclic list (corruption)
          else { node := next; seen := Append(seen, next); goto y_next };

        \* ---------------- synchronize_rcu (abstract)
g_begin:  gpwait[self] := {t \in Threads \ {self} : incs[t]};    \* critical sections open now
          acc := Ev(self, "gp_begin", "-", "-", "-", "-");
g_wait:   await Drained(self) /\ gpwait[self] = {};              \* ... have all ended
          acc := Ev(self, "gp_end", "-", "-", "-", "-");
          res := "ok";
          goto t_ret;

        \* ---------------- _cds_lfs_empty
m_ld:     Ld(a, HeadLoc);                                        \* ___cds_lfs_empty_head(uatomic_load(&s->head))
          res := IF a = NULL THEN "TRUE" ELSE "FALSE";

t_ret:    cfgs := LM!AfterReturn(cfgs, pend, self, res) || pend[self] := LM!NoOp;
          if (op.op = "pop") { got := Append(got, res);
                               if (res # NULL) { assert res \notin held; held := held \cup {res} } }
          else if (op.op = "popall") { assert Elems(seen) \cap held = {} /\ Cardinality(Elems(seen)) = Len(seen);
                                       held := held \cup Elems(seen) };
          i := i + 1;
        }
}
} *)
\* BEGIN TRANSLATION
VARIABLES pc, mem, sb, lock, incs, gpwait, acc, pend, cfgs, held, freed, uaf

(* define statement *)
LastIdx(t, loc) == LET S == {i \in DOMAIN sb[t] : sb[t][i][1] = loc} IN
                   IF S = {} THEN 0 ELSE CHOOSE i \in S : \A j \in S : j <= i
Rd(t, loc) == IF LastIdx(t, loc) = 0 THEN mem[loc] ELSE sb[t][LastIdx(t, loc)][2]
Drained(t) == sb[t] = <<>>
Ev(t, op, var, a, b, r) == IF Tracing THEN [k |-> acc.k + 1, t |-> t, op |-> op, var |-> var, a |-> a, b |-> b, r |-> r] ELSE acc
Linearizable == cfgs # {}

VARIABLES i, op, a, hd, node, next, res, pn, seen, got

vars == << pc, mem, sb, lock, incs, gpwait, acc, pend, cfgs, held, freed, uaf, 
           i, op, a, hd, node, next, res, pn, seen, got >>

ProcSet == (Flushers) \cup (Threads)

Init == (* Global variables *)
        /\ mem = [l \in Locs |-> NULL]
        /\ sb = [t \in Threads |-> <<>>]
        /\ lock = "free"
        /\ incs = [t \in Threads |-> FALSE]
        /\ gpwait = [t \in Threads |-> {}]
        /\ acc = [k |-> 0]
        /\ pend = [t \in Threads |-> LM!NoOp]
        /\ cfgs = LM!InitCfgs(<<>>)
        /\ held = {}
        /\ freed = {}
        /\ uaf = FALSE
        (* Process thr *)
        /\ i = [self \in Threads |-> 1]
        /\ op = [self \in Threads |-> LM!NoOp]
        /\ a = [self \in Threads |-> NULL]
        /\ hd = [self \in Threads |-> NULL]
        /\ node = [self \in Threads |-> NULL]
        /\ next = [self \in Threads |-> NULL]
        /\ res = [self \in Threads |-> NULL]
        /\ pn = [self \in Threads |-> NULL]
        /\ seen = [self \in Threads |-> <<>>]
        /\ got = [self \in Threads |-> <<>>]
        /\ pc = [self \in ProcSet |-> CASE self \in Flushers -> "fl"
                                        [] self \in Threads -> "t_top"]

fl(self) == /\ pc[self] = "fl"
            /\ sb[FlOf[self]] # <<>>
            /\ /\ acc' = IF Tracing THEN [k |-> acc.k + 1, t |-> FlOf[self], op |-> "flush", var |-> Head(sb[FlOf[self]])[1],
                                        a |-> Head(sb[FlOf[self]])[2], b |-> "-", r |-> "-"] ELSE acc
               /\ mem' = [mem EXCEPT ![Head(sb[FlOf[self]])[1]] = Head(sb[FlOf[self]])[2]]
               /\ sb' = [sb EXCEPT ![FlOf[self]] = Tail(sb[FlOf[self]])]
            /\ pc' = [pc EXCEPT ![self] = "fl"]
            /\ UNCHANGED << lock, incs, gpwait, pend, cfgs, held, freed, uaf, 
                            i, op, a, hd, node, next, res, pn, seen, got >>

flusher(self) == fl(self)

t_top(self) == /\ pc[self] = "t_top"
               /\ IF i[self] <= Len(Prog[self])
                     THEN /\ op' = [op EXCEPT ![self] = Prog[self][i[self]]]
                          /\ pn' = [pn EXCEPT ![self] = Resolve(Prog[self][i[self]], got[self])]
                          /\ pend' = [pend EXCEPT ![self] = IF Prog[self][i[self]].op \in Named THEN [op |-> Prog[self][i[self]].op, n |-> Resolve(Prog[self][i[self]], got[self])] ELSE Prog[self][i[self]]]
                          /\ IF Prog[self][i[self]].op = "push"
                                THEN /\ held' = held \ {Resolve(Prog[self][i[self]], got[self])}
                                ELSE /\ TRUE
                                     /\ held' = held
                          /\ res' = [res EXCEPT ![self] = NULL]
                          /\ seen' = [seen EXCEPT ![self] = <<>>]
                          /\ pc' = [pc EXCEPT ![self] = "t_disp"]
                     ELSE /\ pc' = [pc EXCEPT ![self] = "Done"]
                          /\ UNCHANGED << pend, held, op, res, pn, seen >>
               /\ UNCHANGED << mem, sb, lock, incs, gpwait, acc, cfgs, freed, 
                               uaf, i, a, hd, node, next, got >>

t_disp(self) == /\ pc[self] = "t_disp"
                /\ IF op[self].op = "push"
                      THEN /\ IF pn[self] = NULL
                                 THEN /\ res' = [res EXCEPT ![self] = "SKIP"]
                                      /\ pc' = [pc EXCEPT ![self] = "t_ret"]
                                      /\ hd' = hd
                                 ELSE /\ hd' = [hd EXCEPT ![self] = NULL]
                                      /\ pc' = [pc EXCEPT ![self] = "p_st"]
                                      /\ res' = res
                           /\ freed' = freed
                      ELSE /\ IF op[self].op = "pop"
                                 THEN /\ IF op[self].rcu
                                            THEN /\ pc' = [pc EXCEPT ![self] = "q_rl"]
                                            ELSE /\ pc' = [pc EXCEPT ![self] = "q_lock"]
                                      /\ UNCHANGED << freed, res >>
                                 ELSE /\ IF op[self].op = "popall"
                                            THEN /\ pc' = [pc EXCEPT ![self] = "x_lock"]
                                                 /\ UNCHANGED << freed, res >>
                                            ELSE /\ IF op[self].op = "sync"
                                                       THEN /\ IF op[self].gp
                                                                  THEN /\ pc' = [pc EXCEPT ![self] = "g_begin"]
                                                                       /\ res' = res
                                                                  ELSE /\ res' = [res EXCEPT ![self] = "ok"]
                                                                       /\ pc' = [pc EXCEPT ![self] = "t_ret"]
                                                            /\ freed' = freed
                                                       ELSE /\ IF op[self].op = "free"
                                                                  THEN /\ IF pn[self] = NULL
                                                                             THEN /\ res' = [res EXCEPT ![self] = "SKIP"]
                                                                                  /\ freed' = freed
                                                                             ELSE /\ freed' = (freed \cup {pn[self]})
                                                                                  /\ res' = [res EXCEPT ![self] = "ok"]
                                                                       /\ pc' = [pc EXCEPT ![self] = "t_ret"]
                                                                  ELSE /\ pc' = [pc EXCEPT ![self] = "m_ld"]
                                                                       /\ UNCHANGED << freed, 
                                                                                       res >>
                           /\ hd' = hd
                /\ UNCHANGED << mem, sb, lock, incs, gpwait, acc, pend, cfgs, 
                                held, uaf, i, op, a, node, next, pn, seen, got >>

p_st(self) == /\ pc[self] = "p_st"
              /\ IF TSO /\ PlainBuf
                    THEN /\ sb' = [sb EXCEPT ![self] = Append(sb[self], <<(NextOf(pn[self])), hd[self]>>)]
                         /\ mem' = mem
                    ELSE /\ Drained(self)
                         /\ mem' = [mem EXCEPT ![(NextOf(pn[self]))] = hd[self]]
                         /\ sb' = sb
              /\ acc' = Ev(self, "st", (NextOf(pn[self])), hd[self], "-", "-")
              /\ IF pn[self] \in freed
                    THEN /\ uaf' = TRUE
                    ELSE /\ TRUE
                         /\ uaf' = uaf
              /\ pc' = [pc EXCEPT ![self] = "p_mb"]
              /\ UNCHANGED << lock, incs, gpwait, pend, cfgs, held, freed, i, 
                              op, a, hd, node, next, res, pn, seen, got >>

p_mb(self) == /\ pc[self] = "p_mb"
              /\ Drained(self)
              /\ acc' = Ev(self, "mb", "-", "-", "-", "-")
              /\ pc' = [pc EXCEPT ![self] = "p_cas"]
              /\ UNCHANGED << mem, sb, lock, incs, gpwait, pend, cfgs, held, 
                              freed, uaf, i, op, a, hd, node, next, res, pn, 
                              seen, got >>

p_cas(self) == /\ pc[self] = "p_cas"
               /\ Drained(self)
               /\ a' = [a EXCEPT ![self] = mem[HeadLoc]]
               /\ IF mem[HeadLoc] = hd[self]
                     THEN /\ mem' = [mem EXCEPT ![HeadLoc] = pn[self]]
                     ELSE /\ TRUE
                          /\ mem' = mem
               /\ acc' = Ev(self, "cas", HeadLoc, hd[self], pn[self], a'[self])
               /\ IF a'[self] = hd[self]
                     THEN /\ res' = [res EXCEPT ![self] = IF a'[self] = NULL THEN "wasEmpty" ELSE "nonEmpty"]
                          /\ pc' = [pc EXCEPT ![self] = "t_ret"]
                          /\ hd' = hd
                     ELSE /\ hd' = [hd EXCEPT ![self] = a'[self]]
                          /\ pc' = [pc EXCEPT ![self] = "p_st"]
                          /\ res' = res
               /\ UNCHANGED << sb, lock, incs, gpwait, pend, cfgs, held, freed, 
                               uaf, i, op, node, next, pn, seen, got >>

q_rl(self) == /\ pc[self] = "q_rl"
              /\ incs' = [incs EXCEPT ![self] = TRUE]
              /\ acc' = Ev(self, "rlock", "-", "-", "-", "-")
              /\ pc' = [pc EXCEPT ![self] = "q_ldh"]
              /\ UNCHANGED << mem, sb, lock, gpwait, pend, cfgs, held, freed, 
                              uaf, i, op, a, hd, node, next, res, pn, seen, 
                              got >>

q_lock(self) == /\ pc[self] = "q_lock"
                /\ IF op[self].lck
                      THEN /\ Drained(self) /\ lock = "free"
                           /\ lock' = self
                           /\ acc' = Ev(self, "lock", LockName, "-", "-", "-")
                      ELSE /\ TRUE
                           /\ UNCHANGED << lock, acc >>
                /\ pc' = [pc EXCEPT ![self] = "q_ldh"]
                /\ UNCHANGED << mem, sb, incs, gpwait, pend, cfgs, held, freed, 
                                uaf, i, op, a, hd, node, next, res, pn, seen, 
                                got >>

q_ldh(self) == /\ pc[self] = "q_ldh"
               /\ hd' = [hd EXCEPT ![self] = Rd(self, HeadLoc)]
               /\ acc' = Ev(self, "ld", HeadLoc, "-", "-", Rd(self, HeadLoc))
               /\ IF hd'[self] = NULL
                     THEN /\ res' = [res EXCEPT ![self] = NULL]
                          /\ pc' = [pc EXCEPT ![self] = "q_done"]
                     ELSE /\ pc' = [pc EXCEPT ![self] = "q_ldn"]
                          /\ res' = res
               /\ UNCHANGED << mem, sb, lock, incs, gpwait, pend, cfgs, held, 
                               freed, uaf, i, op, a, node, next, pn, seen, got >>

q_ldn(self) == /\ pc[self] = "q_ldn"
               /\ next' = [next EXCEPT ![self] = Rd(self, (NextOf(hd[self])))]
               /\ acc' = Ev(self, "ld", (NextOf(hd[self])), "-", "-", Rd(self, (NextOf(hd[self]))))
               /\ IF hd[self] \in freed
                     THEN /\ uaf' = TRUE
                     ELSE /\ TRUE
                          /\ uaf' = uaf
               /\ pc' = [pc EXCEPT ![self] = "q_cas"]
               /\ UNCHANGED << mem, sb, lock, incs, gpwait, pend, cfgs, held, 
                               freed, i, op, a, hd, node, res, pn, seen, got >>

q_cas(self) == /\ pc[self] = "q_cas"
               /\ Drained(self)
               /\ a' = [a EXCEPT ![self] = mem[HeadLoc]]
               /\ IF mem[HeadLoc] = hd[self]
                     THEN /\ mem' = [mem EXCEPT ![HeadLoc] = next[self]]
                     ELSE /\ TRUE
                          /\ mem' = mem
               /\ acc' = Ev(self, "cas", HeadLoc, hd[self], next[self], a'[self])
               /\ IF a'[self] # hd[self]
                     THEN /\ pc' = [pc EXCEPT ![self] = "q_ldh"]
                          /\ res' = res
                     ELSE /\ res' = [res EXCEPT ![self] = hd[self]]
                          /\ pc' = [pc EXCEPT ![self] = "q_mb"]
               /\ UNCHANGED << sb, lock, incs, gpwait, pend, cfgs, held, freed, 
                               uaf, i, op, hd, node, next, pn, seen, got >>

q_mb(self) == /\ pc[self] = "q_mb"
              /\ Drained(self)
              /\ acc' = Ev(self, "mb", "-", "-", "-", "-")
              /\ pc' = [pc EXCEPT ![self] = "q_done"]
              /\ UNCHANGED << mem, sb, lock, incs, gpwait, pend, cfgs, held, 
                              freed, uaf, i, op, a, hd, node, next, res, pn, 
                              seen, got >>

q_done(self) == /\ pc[self] = "q_done"
                /\ IF op[self].rcu
                      THEN /\ pc' = [pc EXCEPT ![self] = "q_ru"]
                      ELSE /\ pc' = [pc EXCEPT ![self] = "q_unlock"]
                /\ UNCHANGED << mem, sb, lock, incs, gpwait, acc, pend, cfgs, 
                                held, freed, uaf, i, op, a, hd, node, next, 
                                res, pn, seen, got >>

q_ru(self) == /\ pc[self] = "q_ru"
              /\ incs' = [incs EXCEPT ![self] = FALSE]
              /\ gpwait' = [u \in Threads |-> gpwait[u] \ {self}]
              /\ acc' = Ev(self, "runlock", "-", "-", "-", "-")
              /\ pc' = [pc EXCEPT ![self] = "t_ret"]
              /\ UNCHANGED << mem, sb, lock, pend, cfgs, held, freed, uaf, i, 
                              op, a, hd, node, next, res, pn, seen, got >>

q_unlock(self) == /\ pc[self] = "q_unlock"
                  /\ IF op[self].lck
                        THEN /\ Drained(self)
                             /\ lock' = "free"
                             /\ acc' = Ev(self, "unlock", LockName, "-", "-", "-")
                        ELSE /\ TRUE
                             /\ UNCHANGED << lock, acc >>
                  /\ pc' = [pc EXCEPT ![self] = "t_ret"]
                  /\ UNCHANGED << mem, sb, incs, gpwait, pend, cfgs, held, 
                                  freed, uaf, i, op, a, hd, node, next, res, 
                                  pn, seen, got >>

x_lock(self) == /\ pc[self] = "x_lock"
                /\ IF op[self].lck
                      THEN /\ Drained(self) /\ lock = "free"
                           /\ lock' = self
                           /\ acc' = Ev(self, "lock", LockName, "-", "-", "-")
                      ELSE /\ TRUE
                           /\ UNCHANGED << lock, acc >>
                /\ pc' = [pc EXCEPT ![self] = "x_xchg"]
                /\ UNCHANGED << mem, sb, incs, gpwait, pend, cfgs, held, freed, 
                                uaf, i, op, a, hd, node, next, res, pn, seen, 
                                got >>

x_xchg(self) == /\ pc[self] = "x_xchg"
                /\ Drained(self)
                /\ hd' = [hd EXCEPT ![self] = mem[HeadLoc]]
                /\ mem' = [mem EXCEPT ![HeadLoc] = NULL]
                /\ acc' = Ev(self, "xchg", HeadLoc, NULL, "-", hd'[self])
                /\ pc' = [pc EXCEPT ![self] = "x_mb"]
                /\ UNCHANGED << sb, lock, incs, gpwait, pend, cfgs, held, 
                                freed, uaf, i, op, a, node, next, res, pn, 
                                seen, got >>

x_mb(self) == /\ pc[self] = "x_mb"
              /\ Drained(self)
              /\ acc' = Ev(self, "mb", "-", "-", "-", "-")
              /\ pc' = [pc EXCEPT ![self] = "x_unlock"]
              /\ UNCHANGED << mem, sb, lock, incs, gpwait, pend, cfgs, held, 
                              freed, uaf, i, op, a, hd, node, next, res, pn, 
                              seen, got >>

x_unlock(self) == /\ pc[self] = "x_unlock"
                  /\ IF op[self].lck
                        THEN /\ Drained(self)
                             /\ lock' = "free"
                             /\ acc' = Ev(self, "unlock", LockName, "-", "-", "-")
                        ELSE /\ TRUE
                             /\ UNCHANGED << lock, acc >>
                  /\ IF hd[self] = NULL
                        THEN /\ res' = [res EXCEPT ![self] = ""]
                             /\ pc' = [pc EXCEPT ![self] = "t_ret"]
                             /\ UNCHANGED << node, seen >>
                        ELSE /\ node' = [node EXCEPT ![self] = hd[self]]
                             /\ seen' = [seen EXCEPT ![self] = <<hd[self]>>]
                             /\ pc' = [pc EXCEPT ![self] = "y_next"]
                             /\ res' = res
                  /\ UNCHANGED << mem, sb, incs, gpwait, pend, cfgs, held, 
                                  freed, uaf, i, op, a, hd, next, pn, got >>

y_next(self) == /\ pc[self] = "y_next"
                /\ next' = [next EXCEPT ![self] = Rd(self, (NextOf(node[self])))]
                /\ acc' = Ev(self, "ld", (NextOf(node[self])), "-", "-", Rd(self, (NextOf(node[self]))))
                /\ IF node[self] \in freed
                      THEN /\ uaf' = TRUE
                      ELSE /\ TRUE
                           /\ uaf' = uaf
                /\ IF next'[self] = NULL
                      THEN /\ res' = [res EXCEPT ![self] = Join(seen[self])]
                           /\ pc' = [pc EXCEPT ![self] = "t_ret"]
                           /\ UNCHANGED << node, seen >>
                      ELSE /\ IF Len(seen[self]) > Cardinality(Nodes)
                                 THEN /\ res' = [res EXCEPT ![self] = Join(seen[self]) \o ",..."]
                                      /\ pc' = [pc EXCEPT ![self] = "t_ret"]
                                      /\ UNCHANGED << node, seen >>
                                 ELSE /\ node' = [node EXCEPT ![self] = next'[self]]
                                      /\ seen' = [seen EXCEPT ![self] = Append(seen[self], next'[self])]
                                      /\ pc' = [pc EXCEPT ![self] = "y_next"]
                                      /\ res' = res
                /\ UNCHANGED << mem, sb, lock, incs, gpwait, pend, cfgs, held, 
                                freed, i, op, a, hd, pn, got >>

g_begin(self) == /\ pc[self] = "g_begin"
                 /\ gpwait' = [gpwait EXCEPT ![self] = {t \in Threads \ {self} : incs[t]}]
                 /\ acc' = Ev(self, "gp_begin", "-", "-", "-", "-")
                 /\ pc' = [pc EXCEPT ![self] = "g_wait"]
                 /\ UNCHANGED << mem, sb, lock, incs, pend, cfgs, held, freed, 
                                 uaf, i, op, a, hd, node, next, res, pn, seen, 
                                 got >>

g_wait(self) == /\ pc[self] = "g_wait"
                /\ Drained(self) /\ gpwait[self] = {}
                /\ acc' = Ev(self, "gp_end", "-", "-", "-", "-")
                /\ res' = [res EXCEPT ![self] = "ok"]
                /\ pc' = [pc EXCEPT ![self] = "t_ret"]
                /\ UNCHANGED << mem, sb, lock, incs, gpwait, pend, cfgs, held, 
                                freed, uaf, i, op, a, hd, node, next, pn, seen, 
                                got >>

m_ld(self) == /\ pc[self] = "m_ld"
              /\ a' = [a EXCEPT ![self] = Rd(self, HeadLoc)]
              /\ acc' = Ev(self, "ld", HeadLoc, "-", "-", Rd(self, HeadLoc))
              /\ res' = [res EXCEPT ![self] = IF a'[self] = NULL THEN "TRUE" ELSE "FALSE"]
              /\ pc' = [pc EXCEPT ![self] = "t_ret"]
              /\ UNCHANGED << mem, sb, lock, incs, gpwait, pend, cfgs, held, 
                              freed, uaf, i, op, hd, node, next, pn, seen, got >>

t_ret(self) == /\ pc[self] = "t_ret"
               /\ /\ cfgs' = LM!AfterReturn(cfgs, pend, self, res[self])
                  /\ pend' = [pend EXCEPT ![self] = LM!NoOp]
               /\ IF op[self].op = "pop"
                     THEN /\ got' = [got EXCEPT ![self] = Append(got[self], res[self])]
                          /\ IF res[self] # NULL
                                THEN /\ Assert(res[self] \notin held, 
                                               "Failure of assertion at line 208, column 50.")
                                     /\ held' = (held \cup {res[self]})
                                ELSE /\ TRUE
                                     /\ held' = held
                     ELSE /\ IF op[self].op = "popall"
                                THEN /\ Assert(Elems(seen[self]) \cap held = {} /\ Cardinality(Elems(seen[self])) = Len(seen[self]), 
                                               "Failure of assertion at line 209, column 40.")
                                     /\ held' = (held \cup Elems(seen[self]))
                                ELSE /\ TRUE
                                     /\ held' = held
                          /\ got' = got
               /\ i' = [i EXCEPT ![self] = i[self] + 1]
               /\ pc' = [pc EXCEPT ![self] = "t_top"]
               /\ UNCHANGED << mem, sb, lock, incs, gpwait, acc, freed, uaf, 
                               op, a, hd, node, next, res, pn, seen >>

thr(self) == t_top(self) \/ t_disp(self) \/ p_st(self) \/ p_mb(self)
                \/ p_cas(self) \/ q_rl(self) \/ q_lock(self) \/ q_ldh(self)
                \/ q_ldn(self) \/ q_cas(self) \/ q_mb(self) \/ q_done(self)
                \/ q_ru(self) \/ q_unlock(self) \/ x_lock(self)
                \/ x_xchg(self) \/ x_mb(self) \/ x_unlock(self)
                \/ y_next(self) \/ g_begin(self) \/ g_wait(self)
                \/ m_ld(self) \/ t_ret(self)

Next == (\E self \in Flushers: flusher(self))
           \/ (\E self \in Threads: thr(self))

Spec == /\ Init /\ [][Next]_vars
        /\ \A self \in Flushers : WF_vars(flusher(self))
        /\ \A self \in Threads : WF_vars(thr(self))

\* END TRANSLATION

AllDone == \A t \in Threads : pc[t] = "Done"
\* every node is either stacked (in every surviving linearisation) or held by exactly one thread
Conservation == AllDone => \A c \in cfgs : Elems(c.abs) \cap held = {} /\ Elems(c.abs) \cup held = Nodes
\* at quiescence the concrete list reachable from head is the abstract stack of one of the surviving linearisations
RECURSIVE Walk(_, _, _)
Walk(m, n, fuel) == IF n = NULL THEN <<>> ELSE IF fuel = 0 THEN <<"?">> ELSE <<n>> \o Walk(m, m[NextOf(n)], fuel - 1)
Shape == (AllDone /\ \A t \in Threads : sb[t] = <<>>) => \E c \in cfgs : Walk(mem, mem[HeadLoc], Cardinality(Nodes) + 1) = c.abs
\* no thread touches the next field of a node after it was reclaimed
NoUAF == ~uaf
\* deadlock freedom with an explicit notion of termination (flushers never terminate)
DeadlockFree == AllDone \/ ENABLED Next
SBBound == \A t \in Threads : Len(sb[t]) <= SBMax
=============================================================================
