---- MODULE LfhtGen ----
(* C08 input generation.  TLC enumerates (a) operation sequences of the sequential hash-table object LfhtAbs
   (exhaustively up to MaxLen, or by -simulate), (b) the grid of creation parameters with the expected outcome of
   LfhtNew!Norm, sweeping every table size of each accepted configuration through the allocator model LfhtMm.
   Every reachable state is checked against LfhtAbs!AbsInv (object-level properties); finished sequences /
   configurations are printed as JSON ("SEQ" / "CFG") and executed on the real table by harness/d_lfht_seq.c.  *)
EXTENDS LfhtAbs, Json

CONSTANTS GenCfg,        \* [init, min, max, flags, mm]: table the sequences are generated on
          Plat,          \* platform constants [pbo, mto, sco, nsplit]
          MaxLen,        \* operations per sequence
          GenKeys,       \* keys used by generated operations
          GenOps,        \* names of the operations to generate
          ResizeOrders,  \* orders for explicit cds_lfht_resize (-1: size 0)
          GridVals, GridFlags, GridMms, SweepFlags, SweepOrders

VARIABLES hist, raw
gvars == <<avars, hist, raw>>

H(op, n, k, s) == [op |-> op, n |-> n, k |-> k, s |-> s]
Log(op, n, k, s) == hist' = Append(hist, H(op, n, k, s)) /\ UNCHANGED raw
Usable == {n \in Nodes : st[n] \in {"fresh", "initdel"}}
FreshNode == MinS(Usable)                     \* symmetry: nodes are taken from the pool in order
On(op) == op \in GenOps

\* ---------------------------------------------------------------- (a) operation sequences
SInit == InitWith(GenCfg.init, GenCfg.min, GenCfg.max, GenCfg.flags, GenCfg.mm, Plat) /\ hist = <<>> /\ raw = GenCfg

Op == \/ On("add") /\ Usable # {} /\ \E k \in GenKeys : Add(FreshNode, k) /\ Log("add", FreshNode, k, 0)
      \/ On("addu") /\ Usable # {} /\ \E k \in GenKeys : AddUnique(FreshNode, k) /\ Log("addu", FreshNode, k, 0)
      \/ On("addr") /\ Usable # {} /\ \E k \in GenKeys : AddReplace(FreshNode, k) /\ Log("addr", FreshNode, k, 0)
      \/ On("repl") /\ Usable # {} /\ \E k \in GenKeys : Replace(FreshNode, k) /\ Log("repl", FreshNode, k, 0)
      \/ On("del") /\ \E n \in Nodes : Del(n) /\ Log("del", n, 0, 0)
      \/ On("deli") /\ DelIter /\ Log("deli", 0, 0, 0)
      \/ On("delx") /\ Usable # {} /\ st[FreshNode] = "fresh" /\ DelInit(FreshNode) /\ Log("delx", FreshNode, 0, 0)
      \/ On("isdel") /\ \E n \in Nodes : IsDeleted(n) /\ Log("isdel", n, 0, 0)
      \/ On("lookup") /\ \E k \in GenKeys : Lookup(k, k) /\ Log("lookup", 0, k, k)
      \/ On("lookupx") /\ \E hk, k \in GenKeys : hk # k /\ Lookup(hk, k) /\ Log("lookup", 0, k, hk)
      \/ On("ndup") /\ iter.valid /\ iter.node # NULL /\ NextDup(nkey[iter.node]) /\ Log("ndup", 0, nkey[iter.node], 0)
      \/ On("ndupx") /\ \E k \in GenKeys : iter.valid /\ iter.node # NULL /\ k # nkey[iter.node] /\ NextDup(k) /\ Log("ndup", 0, k, 0)
      \/ On("first") /\ First /\ Log("first", 0, 0, 0)
      \/ On("next") /\ Next /\ Log("next", 0, 0, 0)
      \/ On("count") /\ Count /\ Log("count", 0, 0, 0)
      \/ On("resize") /\ \E so \in ResizeOrders : Resize(so) /\ Log("resize", 0, 0, so)
      \/ On("destroy") /\ Destroy /\ Log("destroy", 0, 0, 0)

SNext == \/ DoWork /\ UNCHANGED <<hist, raw>>
         \/ Len(hist) < MaxLen /\ Op
SSpec == SInit /\ [][SNext]_gvars
Finished == work = -1 /\ (Len(hist) = MaxLen \/ ~alive)
EmitSeq == Finished => PrintT(<<"SEQ", ToJson(hist)>>)

\* ---------------------------------------------------------------- (b) configuration grid
Grid == [init : GridVals, min : GridVals, max : GridVals, flags : GridFlags, mm : GridMms]
CfgOut(g) == LET c == Norm(g.init, g.min, g.max, g.mm, Plat) IN
  [init |-> g.init, min |-> g.min, max |-> g.max, flags |-> g.flags, mm |-> g.mm,
   ok |-> c.ok, rmm |-> c.mm, sizeo |-> c.sizeo, mino |-> c.mino, maxo |-> c.maxo]
CInit == \E g \in Grid : /\ InitWith(g.init, g.min, g.max, g.flags, g.mm, Plat) /\ hist = <<>> /\ raw = g
                         /\ PrintT(<<"CFG", ToJson(CfgOut(g))>>)
\* every size of an accepted configuration, then destruction (the table is empty)
CNext == /\ alive /\ raw.flags \in SweepFlags /\ UNCHANGED <<hist, raw>>
         /\ \/ \E so \in SweepOrders : Resize(so)
            \/ Destroy
CSpec == CInit /\ [][CNext]_gvars
NormOK == NormSane(Norm(raw.init, raw.min, raw.max, raw.mm, Plat))
          /\ (alive => cfg.mino <= cfg.maxo /\ sizeo <= cfg.maxo)
====
