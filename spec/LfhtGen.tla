---- MODULE LfhtGen ----
(* C08 input generation.  TLC enumerates (a) operation sequences of the sequential hash-table object LfhtAbs
   (exhaustively up to MaxLen, or by -simulate), (b) the grid of creation parameters with the expected outcome of
   LfhtNew!Norm, sweeping every table size of each accepted configuration through the allocator model LfhtMm.
   Every reachable state is checked against LfhtAbs!AbsInv (object-level properties); finished sequences /
   configurations are printed as JSON ("SEQ" / "CFG") and executed on the real table by harness/d_lfht_seq.c.  *)
EXTENDS LfhtAbs, Json

CONSTANTS GenCfg,        \* [init, min, max, flags, mm]: table the sequences are generated on
          Plat,          \* platform constants [pbo, mto, sco, nsplit]
          MaxLen,        \* operations per sequence
          GenKeys,       \* keys used by generated operations
          GenOps,        \* names of the operations to generate
          ResizeOrders,  \* orders for explicit cds_lfht_resize (-1: size 0)
          DestroyAfter,  \* destroying an EMPTY table (which ends the sequence) only from this length on
          TwoLevel, KindSeq,
          PrefixLen, PrefixKinds,   \* simulation: the first PrefixLen operations are additions (populated tables)
          GridVals, GridFlags, GridMms, SweepVals, SweepFlags, SweepOrders,
          SweepAll       \* TRUE: resize between every pair of sizes; FALSE: single steps, to size 0 and beyond the maximum

VARIABLES hist, raw, pick
gvars == <<avars, hist, raw, pick>>

H(op, n, k, s) == [op |-> op, n |-> n, k |-> k, s |-> s]
Log(op, n, k, s) == hist' = Append(hist, H(op, n, k, s)) /\ UNCHANGED raw
Usable == {n \in Nodes : st[n] \in {"fresh", "initdel"}}
FreshNode == MinS(Usable)                     \* symmetry: nodes are taken from the pool in order

\* ---------------------------------------------------------------- (a) operation sequences
SInit == InitWith(GenCfg.init, GenCfg.min, GenCfg.max, GenCfg.flags, GenCfg.mm, Plat) /\ hist = <<>> /\ raw = GenCfg /\ pick = ""

OpK(kd) ==                                    \* one operation of kind kd with any of its arguments
      \/ kd = "add" /\ Usable # {} /\ \E k \in GenKeys : Add(FreshNode, k) /\ Log("add", FreshNode, k, 0)
      \/ kd = "addu" /\ Usable # {} /\ \E k \in GenKeys : AddUnique(FreshNode, k) /\ Log("addu", FreshNode, k, 0)
      \/ kd = "addr" /\ Usable # {} /\ \E k \in GenKeys : AddReplace(FreshNode, k) /\ Log("addr", FreshNode, k, 0)
      \/ kd = "repl" /\ Usable # {} /\ \E k \in GenKeys : Replace(FreshNode, k) /\ Log("repl", FreshNode, k, 0)
      \/ kd = "del" /\ \E n \in Nodes : Del(n) /\ Log("del", n, 0, 0)
      \/ kd = "deli" /\ DelIter /\ Log("deli", 0, 0, 0)
      \/ kd = "delx" /\ Usable # {} /\ st[FreshNode] = "fresh" /\ DelInit(FreshNode) /\ Log("delx", FreshNode, 0, 0)
      \/ kd = "isdel" /\ \E n \in Nodes : IsDeleted(n) /\ Log("isdel", n, 0, 0)
      \/ kd = "lookup" /\ \E k \in GenKeys : Lookup(k, k) /\ Log("lookup", 0, k, k)
      \/ kd = "lookupx" /\ \E hk, k \in GenKeys : hk # k /\ Lookup(hk, k) /\ Log("lookup", 0, k, hk)
      \/ kd = "ndup" /\ iter.valid /\ iter.node # NULL /\ NextDup(nkey[iter.node]) /\ Log("ndup", 0, nkey[iter.node], 0)
      \/ kd = "ndupx" /\ \E k \in GenKeys : iter.valid /\ iter.node # NULL /\ k # nkey[iter.node] /\ NextDup(k) /\ Log("ndup", 0, k, 0)
      \/ kd = "first" /\ First /\ Log("first", 0, 0, 0)
      \/ kd = "next" /\ Next /\ Log("next", 0, 0, 0)
      \/ kd = "count" /\ Count /\ Log("count", 0, 0, 0)
      \/ kd = "resize" /\ \E so \in ResizeOrders : Resize(so) /\ Log("resize", 0, 0, so)
      \/ kd = "destroy" /\ (chain # <<>> \/ Len(hist) >= DestroyAfter) /\ Destroy /\ Log("destroy", 0, 0, 0)
KindOK(kd) ==                                 \* some operation of kind kd is possible in this state
  CASE kd \in {"add", "addu", "addr"} -> Usable # {}
    [] kd = "repl" -> Usable # {} /\ iter.valid
    [] kd = "del" -> \E n \in Nodes : st[n] \in {"live", "dead"}
    [] kd \in {"deli", "next"} -> iter.valid
    [] kd = "delx" -> Usable # {} /\ st[FreshNode] = "fresh"
    [] kd = "isdel" -> \E n \in Nodes : st[n] # "fresh"
    [] kd = "lookupx" -> Cardinality(GenKeys) >= 2
    [] kd = "ndup" -> iter.valid /\ iter.node # NULL
    [] kd = "ndupx" -> iter.valid /\ iter.node # NULL /\ Cardinality(GenKeys) >= 2
    [] kd = "destroy" -> chain # <<>> \/ Len(hist) >= DestroyAfter
    [] OTHER -> TRUE

Finished == work = -1 /\ pick = "" /\ (Len(hist) = MaxLen \/ ~alive)
(* exhaustive mode: any operation of GenOps.  Simulation (TwoLevel): first the kind, drawn from KindSeq (repetitions =
   weights; TLC picks successors uniformly), then its arguments; a finished sequence is printed by its own final step,
   so that -simulate emits exactly the behaviours it walked *)
SNext == \/ DoWork /\ UNCHANGED <<hist, raw, pick>>
         \/ /\ Idle /\ pick # "end" /\ Len(hist) < MaxLen
            /\ IF TwoLevel
               THEN IF pick = "" THEN \E i \in DOMAIN KindSeq : /\ KindOK(KindSeq[i]) /\ (Len(hist) < PrefixLen => KindSeq[i] \in PrefixKinds)
                                                              /\ pick' = KindSeq[i] /\ UNCHANGED <<avars, hist, raw>>
                    ELSE OpK(pick) /\ pick' = ""
               ELSE (\E kd \in GenOps : OpK(kd)) /\ pick' = ""
         \/ Finished /\ pick' = "end" /\ PrintT(<<"SEQ", ToJson(hist)>>) /\ UNCHANGED <<avars, hist, raw>>
SSpec == SInit /\ [][SNext]_gvars

\* ---------------------------------------------------------------- (b) configuration grid
Grid == [init : GridVals, min : GridVals, max : GridVals, flags : GridFlags, mm : GridMms]
CfgOut(g) == LET c == Norm(g.init, g.min, g.max, g.mm, Plat) IN
  [init |-> g.init, min |-> g.min, max |-> g.max, flags |-> g.flags, mm |-> g.mm,
   ok |-> c.ok, rmm |-> c.mm, sizeo |-> c.sizeo, mino |-> c.mino, maxo |-> c.maxo]
(* every tuple of the grid with the outcome of LfhtNew!Norm: one initial state per tuple (the table variables are not
   used here), NormOK checked on each *)
CInit == \E g \in Grid : /\ InitWith(0, 0, 0, 0, "order", Plat) /\ hist = <<>> /\ raw = g /\ pick = ""
                         /\ PrintT(<<"CFG", ToJson(CfgOut(g))>>)
CSpec == CInit /\ [][FALSE]_gvars
NormOK == NormSane(Norm(raw.init, raw.min, raw.max, raw.mm, Plat))

(* (c) allocator model: every table size of every configuration of the (smaller) sweep grid, reached by growing and
   shrinking in every possible step, then destruction; AbsInv (MmValid) on every state *)
MGrid == [init : SweepVals, min : SweepVals, max : SweepVals, flags : SweepFlags, mm : GridMms]
MInit == \E g \in MGrid : InitWith(g.init, g.min, g.max, g.flags, g.mm, Plat) /\ hist = <<>> /\ raw = g /\ pick = "" /\ pick = ""
MNext == /\ UNCHANGED <<hist, raw, pick>>
         /\ \/ \E so \in SweepOrders : alive /\ so <= cfg.maxo + 1 /\ (SweepAll \/ so \in {-1, sizeo - 1, sizeo + 1, cfg.maxo + 1}) /\ Resize(so)
            \/ Destroy
            \/ DoWork
MSpec == MInit /\ [][MNext]_gvars
MmOK == alive => cfg.mino <= cfg.maxo /\ sizeo <= cfg.maxo
====
