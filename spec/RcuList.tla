------------------------------- MODULE RcuList -------------------------------
(***************************************************************************)
(* RCU-protected lists: include/urcu/rculist.h and rcuhlist.h (with        *)
(* list.h / hlist.h), property C18.                                        *)
(*                                                                         *)
(* One action per memory access of the list code: every pointer store of   *)
(* cds_list_add_rcu, cds_list_add_tail_rcu, cds_list_del_rcu,              *)
(* cds_list_replace_rcu, cds_hlist_add_head_rcu and cds_hlist_del_rcu in    *)
(* program order (plain stores and the rcu_assign_pointer / uatomic_store   *)
(* publication alike; on x86 the release store emits no fence instruction), *)
(* every pointer load those primitives perform, and every rcu_dereference   *)
(* load of ->next plus the payload load of a reader traversal               *)
(* (cds_list_for_each_entry_rcu, cds_hlist_for_each_entry_rcu).  The load / *)
(* store sequences are those of the instrumented build the driver           *)
(* harness/d_rculist.c executes (gcc -O1 reuses head->next, head->prev,     *)
(* elem->prev and _new->prev where noted; the hooked store evaluates its    *)
(* address before its value).  Every recorded execution is checked against  *)
(* these sequences, so a change of compiler behaviour shows up as a         *)
(* rejected trace, never silently.                                          *)
(*                                                                         *)
(* Threads execute the operation sequences of a scenario (Prog).  One       *)
(* thread (the updater) executes update operations, the others traversals.  *)
(* Operation records [op, n, m]:                                            *)
(*   "add" n    cds_list_add_rcu(n, L)         "addt" n  cds_list_add_tail_rcu *)
(*   "del" n    cds_list_del_rcu(n)            "repl" n m  cds_list_replace_rcu(old n, new m) *)
(*   "hadd" n   cds_hlist_add_head_rcu(n, L)   "hdel" n  cds_hlist_del_rcu(n) *)
(*   "free" n   full barrier; abstract grace period; n is freed           *)
(*   "trav"     rcu_read_lock; cds_list_for_each_entry_rcu; rcu_read_unlock *)
(*   "travp"    the same with cds_list_for_each_rcu                         *)
(*   "htrav" "htrav2" "htravp"  the same with cds_hlist_for_each_entry_rcu, *)
(*              cds_hlist_for_each_entry_rcu_2, cds_hlist_for_each_rcu      *)
(* Payload: n.key, written (plain store) before the node is published.      *)
(*                                                                         *)
(* Memory model: TSO = TRUE gives every thread a FIFO store buffer.  With   *)
(* PlainBuf = TRUE ALL stores of the updater go through it (x86-TSO; this   *)
(* is what TLC explores).  PlainBuf = FALSE is the refinement executed by   *)
(* the VSCHED runtime, which cannot delay compiler-generated plain stores:  *)
(* a plain store waits for the buffer to drain and goes straight to memory; *)
(* only the hooked publication stores are buffered.                         *)
(*                                                                         *)
(* Abstract RCU: a read-side critical section is an interval (r_lock ..     *)
(* r_unlock); a grace period (g_mb .. g_end) is a blocking step enabled     *)
(* once every section open at its beginning has ended.                      *)
(*                                                                         *)
(* Ghost monitors (bad collects the names of violated clauses):             *)
(*   member             the nodes logically in the list: a node enters      *)
(*                      (leaves) at the instant the publication (unlink)    *)
(*                      store of its operation reaches shared memory -- the *)
(*                      store-buffer entry of that store carries a ghost    *)
(*                      tag which is applied when the entry is committed    *)
(*   ord                all nodes ever inserted, in list-position order;    *)
(*                      AbsSeq = ord restricted to member is the abstract   *)
(*                      list; MemConsistent: the ->next chain in shared     *)
(*                      memory spells exactly AbsSeq at every instant       *)
(*   pres[r] / ever[r]  nodes that were members at EVERY / at SOME instant  *)
(*                      since the first load of r's current traversal       *)
(*   alive              FALSE once a node is freed                          *)
(***************************************************************************)
EXTENDS Naturals, Sequences, FiniteSets, TLC

CONSTANTS Threads,    \* set of thread ids (strings)
          Prog,       \* [Threads -> Seq(op record)]
          TSO,        \* TRUE: stores are buffered (x86-TSO); FALSE: sequential consistency
          Tracing,    \* TRUE: maintain acc
          SBMax,      \* bound on store-buffer length used by the state constraint
          Kind,       \* "list" (cds_list, circular through the head) or "hlist" (cds_hlist, NULL-terminated)
          InitList,   \* sequence of the nodes initially in the list, head first
          PlainBuf    \* TRUE: plain stores are buffered like any other store; FALSE: they drain the buffer (VSCHED)

NULL == "NULL"
LH == "L"                              \* symbolic address of the list head (cast to a node for hlist ->prev)
NextOf(n) == n \o ".next"
PrevOf(n) == n \o ".prev"
KeyOf(n) == n \o ".key"
KeyVal(n) == "K" \o n                  \* the payload value the updater gives node n
End == IF Kind = "list" THEN LH ELSE NULL    \* what terminates a traversal
OpsOf(t) == {Prog[t][j] : j \in DOMAIN Prog[t]}
AllOps == UNION {OpsOf(t) : t \in Threads}
Nodes == ({o.n : o \in AllOps} \cup {o.m : o \in AllOps} \cup {InitList[j] : j \in DOMAIN InitList}) \ {"-"}
Locs == {NextOf(LH), PrevOf(LH)} \cup {NextOf(n) : n \in Nodes} \cup {PrevOf(n) : n \in Nodes} \cup {KeyOf(n) : n \in Nodes}
FlId(t) == "F:" \o t
Flushers == {FlId(t) : t \in Threads}
FlOf == [f \in Flushers |-> CHOOSE t \in Threads : FlId(t) = f]
UpdOps == {"add", "addt", "del", "repl", "hadd", "hdel", "free"}

ASSUME Kind \in {"list", "hlist"}
\* traversal macros: all of them are "rcu_dereference(head->next), then rcu_dereference(pos->next) until the end marker"
ListTravs == {"trav", "travp"}               \* cds_list_for_each_entry_rcu, cds_list_for_each_rcu
HlistTravs == {"htrav", "htrav2", "htravp"}  \* cds_hlist_for_each_entry_rcu, cds_hlist_for_each_entry_rcu_2, cds_hlist_for_each_rcu
ASSUME \A o \in AllOps : (Kind = "list" => o.op \in {"add", "addt", "del", "repl", "free"} \cup ListTravs)
                      /\ (Kind = "hlist" => o.op \in {"hadd", "hdel", "free"} \cup HlistTravs)

\* ---- initial memory image: the list InitList built by the same primitives before the threads start; every other
\* ---- node is zero-initialised static storage
IdxOf(s, n) == CHOOSE j \in DOMAIN s : s[j] = n
InSeq(s, n) == \E j \in DOMAIN s : s[j] = n
InitNext(n) == IF IdxOf(InitList, n) < Len(InitList) THEN InitList[IdxOf(InitList, n) + 1] ELSE End
InitPrev(n) == IF IdxOf(InitList, n) > 1 THEN InitList[IdxOf(InitList, n) - 1] ELSE LH
InitMem == [lc \in Locs |->
             IF lc = NextOf(LH) THEN (IF InitList = <<>> THEN End ELSE InitList[1])
             ELSE IF lc = PrevOf(LH) THEN (IF Kind = "hlist" THEN NULL ELSE IF InitList = <<>> THEN LH ELSE InitList[Len(InitList)])
             ELSE LET n == CHOOSE y \in Nodes : lc \in {NextOf(y), PrevOf(y), KeyOf(y)} IN
                  IF ~InSeq(InitList, n) THEN NULL
                  ELSE IF lc = NextOf(n) THEN InitNext(n) ELSE IF lc = PrevOf(n) THEN InitPrev(n) ELSE KeyVal(n)]

\* ---- the list as shared memory shows it: nodes reachable from the head through ->next
RECURSIVE Walk(_, _, _)
Walk(m, p, k) == IF p \notin Nodes \/ k = 0 THEN <<>> ELSE <<p>> \o Walk(m, m[NextOf(p)], k - 1)
ReachSeq(m) == Walk(m, m[NextOf(LH)], Cardinality(Nodes) + 1)
ReachSet(m) == {ReachSeq(m)[j] : j \in DOMAIN ReachSeq(m)}
\* ghost tags carried by publication / unlink stores, applied to the member set when the store reaches memory
NoG == <<"-", "-", "-">>
Ins(n) == <<"ins", n, "-">>
Rem(n) == <<"rem", n, "-">>
Rep(o, n) == <<"rep", o, n>>
Apply(mb, g) == IF g[1] = "ins" THEN mb \cup {g[2]} ELSE IF g[1] = "rem" THEN mb \ {g[2]}
                ELSE IF g[1] = "rep" THEN (mb \ {g[2]}) \cup {g[3]} ELSE mb
PresUpd(pr, ac, mb) == [r \in Threads |-> IF ac[r] THEN pr[r] \cap mb ELSE pr[r]]
EverUpd(ev, ac, mb) == [r \in Threads |-> IF ac[r] THEN ev[r] \cup mb ELSE ev[r]]
RECURSIVE Filter(_, _)
Filter(sq, st) == IF sq = <<>> THEN <<>> ELSE (IF sq[1] \in st THEN <<sq[1]>> ELSE <<>>) \o Filter(Tail(sq), st)
Range(s) == {s[j] : j \in DOMAIN s}
InsertAfter(s, x, y) == SubSeq(s, 1, IdxOf(s, x)) \o <<y>> \o SubSeq(s, IdxOf(s, x) + 1, Len(s))
RECURSIVE Join(_)
Join(s) == IF s = <<>> THEN "" ELSE IF Len(s) = 1 THEN s[1] ELSE s[1] \o "," \o Join(Tail(s))
NoOp == [op |-> "-", n |-> "-", m |-> "-"]

(* --algorithm rculist {
variables
  mem = InitMem,
  sb = [t \in Threads |-> <<>>],
  acc = [k |-> 0],
  incs = [t \in Threads |-> FALSE],          \* inside a read-side critical section
  csn = [t \in Threads |-> 0],               \* number of sections the thread has begun (id of the current one)
  alive = [n \in Nodes |-> TRUE],            \* ghost: not yet freed
  ord = InitList,                            \* ghost: every node ever inserted, in list-position order
  member = {InitList[j] : j \in DOMAIN InitList},   \* ghost: nodes logically in the list
  active = [t \in Threads |-> FALSE],        \* ghost: a traversal is between its first and its last load
  pres = [t \in Threads |-> {}],             \* ghost: members at every instant of t's current traversal
  ever = [t \in Threads |-> {}],             \* ghost: members at some instant of t's current traversal
  bad = {};                                  \* ghost: violated clauses

define {
  LastIdx(t, loc) == LET S == {j \in DOMAIN sb[t] : sb[t][j][1] = loc} IN
                     IF S = {} THEN 0 ELSE CHOOSE j \in S : \A k \in S : k <= j
  Rd(t, loc) == IF LastIdx(t, loc) = 0 THEN mem[loc] ELSE sb[t][LastIdx(t, loc)][2]
  Drained(t) == sb[t] = <<>>
  Ev(t, op, var, a, b, r) == IF Tracing THEN [k |-> acc.k + 1, t |-> t, op |-> op, var |-> var, a |-> a, b |-> b, r |-> r] ELSE acc
  GpDone(snap) == \A r \in Threads : snap[r] = 0 \/ ~incs[r] \/ csn[r] # snap[r]
  \* clauses a reader checks when a load hands it the pointer q (after having visited sn); evs = ever[reader]
  VisitBad(evs, sn, q) == (IF q \notin evs THEN {"visited a node that was not in the list during the traversal"} ELSE {})
                          \cup (IF sn # <<>> /\ InSeq(ord, q) /\ InSeq(ord, sn[Len(sn)]) /\ IdxOf(ord, sn[Len(sn)]) >= IdxOf(ord, q)
                                THEN {"visited out of list order"} ELSE {})
                          \cup (IF ~InSeq(ord, q) THEN {"visited a node that was never inserted"} ELSE {})
  EndBad(prs, sn) == IF prs \subseteq Range(sn) THEN {} ELSE {"missed a node that was in the list for the whole traversal"}
  DeadBad(n) == IF n \in Nodes /\ ~alive[n] THEN {"dereferenced a freed node"} ELSE {}
}

macro Ld(dst, loc)   { dst := Rd(self, loc); acc := Ev(self, "ld", loc, "-", "-", Rd(self, loc)); }
\* plain store (compiler-generated mov)
macro StP(loc, v)    { if (TSO /\ PlainBuf) { sb[self] := Append(sb[self], <<loc, v, NoG>>) }
                       else { await Drained(self); mem[loc] := v };
                       acc := Ev(self, "st", loc, v, "-", "-"); }
\* hooked store: uatomic_store(..., CMM_RELEASE / CMM_RELAXED) -- a mov on x86, no fence
\* g: ghost tag (which node becomes / ceases to be a member when this store reaches memory)
macro StH(loc, v, g) { if (TSO) { sb[self] := Append(sb[self], <<loc, v, g>>) }
                       else { mem[loc] := v; member := Apply(member, g);
                              pres := PresUpd(pres, active, member); ever := EverUpd(ever, active, member) };
                       acc := Ev(self, "st", loc, v, "-", "-"); }

fair process (flusher \in Flushers) {
fl: while (TRUE) {
      await sb[FlOf[self]] # <<>>;
      with (e = Head(sb[FlOf[self]])) {
        mem[e[1]] := e[2];
        sb[FlOf[self]] := Tail(sb[FlOf[self]]);
        member := Apply(member, e[3]);
        pres := PresUpd(pres, active, member); ever := EverUpd(ever, active, member);
        acc := IF Tracing THEN [k |-> acc.k + 1, t |-> FlOf[self], op |-> "flush", var |-> e[1], a |-> e[2], b |-> "-", r |-> "-"] ELSE acc;
      }
    }
}

fair process (thr \in Threads)
variables i = 1, op = NoOp, res = "-", f = NULL, x = NULL, p = NULL, pos = NULL, nx = NULL, key = NULL, seen = <<>>,
          snap = [t \in Threads |-> 0];
{
t_top:  while (i <= Len(Prog[self])) {
          op := Prog[self][i]; res := "-";
          \* ghost: position of a new node in list order (single updater: known when the operation is issued)
          if (Prog[self][i].op \in {"add", "hadd"}) { ord := <<Prog[self][i].n>> \o ord }
          else if (Prog[self][i].op = "addt") { ord := Append(ord, Prog[self][i].n) }
          else if (Prog[self][i].op = "repl") { ord := InsertAfter(ord, Prog[self][i].n, Prog[self][i].m) };
t_disp:   if (op.op = "add") { goto a_key } else if (op.op = "addt") { goto at_key }
          else if (op.op = "del") { goto d_ldn } else if (op.op = "repl") { goto rp_key }
          else if (op.op = "hadd") { goto h_key } else if (op.op = "hdel") { goto hd_ldn }
          else if (op.op = "free") { goto g_mb } else { goto r_lock };

        \* ---------------- cds_list_add_rcu(newp = op.n, head)
a_key:    StP(KeyOf(op.n), KeyVal(op.n));                      \* item->key = ...   (payload, before publication)
a_ldf:    Ld(f, NextOf(LH));                                 \* head->next  (loaded once, reused below)
a_nn:     StP(NextOf(op.n), f);                                \* newp->next = head->next
a_np:     StP(PrevOf(op.n), LH);                             \* newp->prev = head
a_fp:     StP(PrevOf(f), op.n);                                \* head->next->prev = newp
a_pub:    StH(NextOf(LH), op.n, Ins(op.n));                           \* rcu_assign_pointer(head->next, newp)
          goto t_ret;

        \* ---------------- cds_list_add_tail_rcu(newp = op.n, head)
at_key:   StP(KeyOf(op.n), KeyVal(op.n));                      \* item->key = ...
at_nn:    StP(NextOf(op.n), LH);                             \* newp->next = head
at_ldl:   Ld(p, PrevOf(LH));                                 \* head->prev  (loaded once, reused below)
at_np:    StP(PrevOf(op.n), p);                                \* newp->prev = head->prev
at_pub:   StH(NextOf(p), op.n, Ins(op.n));                             \* rcu_assign_pointer(head->prev->next, newp)
at_hp:    StP(PrevOf(LH), op.n);                             \* head->prev = newp
          goto t_ret;

        \* ---------------- cds_list_del_rcu(elem = op.n)
d_ldn:    Ld(x, NextOf(op.n));                                 \* elem->next
d_ldp:    Ld(p, PrevOf(op.n));                                 \* elem->prev  (reused for &elem->prev->next)
d_xp:     StP(PrevOf(x), p);                                   \* elem->next->prev = elem->prev
d_ldn2:   Ld(x, NextOf(op.n));                                 \* elem->next  (value to store)
d_pub:    StH(NextOf(p), x, Rem(op.n));                             \* uatomic_store(&elem->prev->next, elem->next)
          goto t_ret;

        \* ---------------- cds_list_replace_rcu(old = op.n, _new = op.m)
rp_key:   StP(KeyOf(op.m), KeyVal(op.m));                      \* item->key = ...
rp_ldn:   Ld(x, NextOf(op.n));                                 \* old->next
rp_nn:    StP(NextOf(op.m), x);                                \* _new->next = old->next
rp_ldp:   Ld(p, PrevOf(op.n));                                 \* old->prev
rp_np:    StP(PrevOf(op.m), p);                                \* _new->prev = old->prev  (value reused as _new->prev)
rp_pub:   StH(NextOf(p), op.m, Rep(op.n, op.m));                            \* rcu_assign_pointer(_new->prev->next, _new)
rp_ldn2:  Ld(x, NextOf(op.m));                                 \* _new->next
rp_xp:    StP(PrevOf(x), op.m);                                \* _new->next->prev = _new
          goto t_ret;

        \* ---------------- cds_hlist_add_head_rcu(newp = op.n, head)
h_key:    StP(KeyOf(op.n), KeyVal(op.n));                      \* item->key = ...
h_ldf:    Ld(f, NextOf(LH));                                 \* head->next  (loaded once, reused below)
h_nn:     StP(NextOf(op.n), f);                                \* newp->next = head->next
h_np:     StP(PrevOf(op.n), LH);                             \* newp->prev = head  (cast to a node pointer)
          if (f = NULL) { goto h_pub };                        \* if (head->next)
h_fp:     StP(PrevOf(f), op.n);                                \*         head->next->prev = newp
h_pub:    StH(NextOf(LH), op.n, Ins(op.n));                           \* rcu_assign_pointer(head->next, newp)
          goto t_ret;

        \* ---------------- cds_hlist_del_rcu(elem = op.n)
hd_ldn:   Ld(x, NextOf(op.n));                                 \* if (elem->next)
          if (x = NULL) { goto hd_ldp2 };
hd_ldp:   Ld(p, PrevOf(op.n));                                 \*         elem->prev
hd_xp:    StP(PrevOf(x), p);                                   \*         elem->next->prev = elem->prev
hd_ldp2:  Ld(p, PrevOf(op.n));                                 \* elem->prev  (address &elem->prev->next, evaluated first)
hd_ldn2:  Ld(x, NextOf(op.n));                                 \* elem->next  (value to store)
hd_pub:   StH(NextOf(p), x, Rem(op.n));                             \* uatomic_store(&elem->prev->next, elem->next)
          goto t_ret;

        \* ---------------- synchronize_rcu(); free(op.n)
g_mb:     await Drained(self);                                 \* cmm_smp_mb(): the unlink is globally visible ...
          snap := [r \in Threads |-> IF incs[r] THEN csn[r] ELSE 0];   \* ... before the grace period begins
          acc := Ev(self, "mb", "-", "-", "-", "-");
g_end:    await Drained(self) /\ GpDone(snap);                 \* every section open at g_mb has ended
          alive[op.n] := FALSE;                                \* free(node)
          acc := Ev(self, "gp_end", "-", "-", "-", "-");
          goto t_ret;

        \* ---------------- rcu_read_lock(); cds_(h)list_for_each_entry_rcu(...) {...}; rcu_read_unlock()
r_lock:   incs[self] := TRUE; csn[self] := csn[self] + 1;      \* rcu_read_lock()
          acc := Ev(self, "rlock", "-", "-", "-", "-");
r_first:  Ld(pos, NextOf(LH));                                 \* pos = rcu_dereference(head->next)
          if (pos = End) { seen := <<>>; bad := bad \cup EndBad(member, <<>>); goto r_unlock }
          else if (pos \notin Nodes) { seen := <<>>; bad := bad \cup {"traversal reached a wild pointer"}; goto r_unlock }
          else { active[self] := TRUE; pres[self] := member; ever[self] := member;      \* ghosts: the traversal begins
                 bad := bad \cup VisitBad(member, <<>>, pos); seen := <<pos>> };
r_key:    Ld(key, KeyOf(pos));                                 \* pos->key  (payload access of the loop body)
          bad := bad \cup DeadBad(pos) \cup (IF key # KeyVal(pos) THEN {"payload not initialised"} ELSE {});
r_next:   Ld(nx, NextOf(pos));                                 \* pos = rcu_dereference(pos->next)
          bad := bad \cup DeadBad(pos) \cup (IF nx = End THEN EndBad(pres[self], seen)
                                              ELSE IF nx \notin Nodes THEN {"traversal reached a wild pointer"}
                                              ELSE VisitBad(ever[self], seen, nx));
          if (nx \in Nodes) { pos := nx; seen := Append(seen, nx); goto r_key }
          else { active[self] := FALSE };                      \* ghosts: the traversal ends
r_unlock: incs[self] := FALSE;                                 \* rcu_read_unlock()
          res := Join(seen);
          acc := Ev(self, "runlock", "-", "-", "-", "-");

t_ret:    i := i + 1;
        }
}
} *)
\* BEGIN TRANSLATION
VARIABLES pc, mem, sb, acc, incs, csn, alive, ord, member, active, pres, ever, 
          bad

(* define statement *)
LastIdx(t, loc) == LET S == {j \in DOMAIN sb[t] : sb[t][j][1] = loc} IN
                   IF S = {} THEN 0 ELSE CHOOSE j \in S : \A k \in S : k <= j
Rd(t, loc) == IF LastIdx(t, loc) = 0 THEN mem[loc] ELSE sb[t][LastIdx(t, loc)][2]
Drained(t) == sb[t] = <<>>
Ev(t, op, var, a, b, r) == IF Tracing THEN [k |-> acc.k + 1, t |-> t, op |-> op, var |-> var, a |-> a, b |-> b, r |-> r] ELSE acc
GpDone(snap) == \A r \in Threads : snap[r] = 0 \/ ~incs[r] \/ csn[r] # snap[r]

VisitBad(evs, sn, q) == (IF q \notin evs THEN {"visited a node that was not in the list during the traversal"} ELSE {})
                        \cup (IF sn # <<>> /\ InSeq(ord, q) /\ InSeq(ord, sn[Len(sn)]) /\ IdxOf(ord, sn[Len(sn)]) >= IdxOf(ord, q)
                              THEN {"visited out of list order"} ELSE {})
                        \cup (IF ~InSeq(ord, q) THEN {"visited a node that was never inserted"} ELSE {})
EndBad(prs, sn) == IF prs \subseteq Range(sn) THEN {} ELSE {"missed a node that was in the list for the whole traversal"}
DeadBad(n) == IF n \in Nodes /\ ~alive[n] THEN {"dereferenced a freed node"} ELSE {}

VARIABLES i, op, res, f, x, p, pos, nx, key, seen, snap

vars == << pc, mem, sb, acc, incs, csn, alive, ord, member, active, pres, 
           ever, bad, i, op, res, f, x, p, pos, nx, key, seen, snap >>

ProcSet == (Flushers) \cup (Threads)

Init == (* Global variables *)
        /\ mem = InitMem
        /\ sb = [t \in Threads |-> <<>>]
        /\ acc = [k |-> 0]
        /\ incs = [t \in Threads |-> FALSE]
        /\ csn = [t \in Threads |-> 0]
        /\ alive = [n \in Nodes |-> TRUE]
        /\ ord = InitList
        /\ member = {InitList[j] : j \in DOMAIN InitList}
        /\ active = [t \in Threads |-> FALSE]
        /\ pres = [t \in Threads |-> {}]
        /\ ever = [t \in Threads |-> {}]
        /\ bad = {}
        (* Process thr *)
        /\ i = [self \in Threads |-> 1]
        /\ op = [self \in Threads |-> NoOp]
        /\ res = [self \in Threads |-> "-"]
        /\ f = [self \in Threads |-> NULL]
        /\ x = [self \in Threads |-> NULL]
        /\ p = [self \in Threads |-> NULL]
        /\ pos = [self \in Threads |-> NULL]
        /\ nx = [self \in Threads |-> NULL]
        /\ key = [self \in Threads |-> NULL]
        /\ seen = [self \in Threads |-> <<>>]
        /\ snap = [self \in Threads |-> [t \in Threads |-> 0]]
        /\ pc = [self \in ProcSet |-> CASE self \in Flushers -> "fl"
                                        [] self \in Threads -> "t_top"]

fl(self) == /\ pc[self] = "fl"
            /\ sb[FlOf[self]] # <<>>
            /\ LET e == Head(sb[FlOf[self]]) IN
                 /\ mem' = [mem EXCEPT ![e[1]] = e[2]]
                 /\ sb' = [sb EXCEPT ![FlOf[self]] = Tail(sb[FlOf[self]])]
                 /\ member' = Apply(member, e[3])
                 /\ pres' = PresUpd(pres, active, member')
                 /\ ever' = EverUpd(ever, active, member')
                 /\ acc' = IF Tracing THEN [k |-> acc.k + 1, t |-> FlOf[self], op |-> "flush", var |-> e[1], a |-> e[2], b |-> "-", r |-> "-"] ELSE acc
            /\ pc' = [pc EXCEPT ![self] = "fl"]
            /\ UNCHANGED << incs, csn, alive, ord, active, bad, i, op, res, f, 
                            x, p, pos, nx, key, seen, snap >>

flusher(self) == fl(self)

t_top(self) == /\ pc[self] = "t_top"
               /\ IF i[self] <= Len(Prog[self])
                     THEN /\ op' = [op EXCEPT ![self] = Prog[self][i[self]]]
                          /\ res' = [res EXCEPT ![self] = "-"]
                          /\ IF Prog[self][i[self]].op \in {"add", "hadd"}
                                THEN /\ ord' = <<Prog[self][i[self]].n>> \o ord
                                ELSE /\ IF Prog[self][i[self]].op = "addt"
                                           THEN /\ ord' = Append(ord, Prog[self][i[self]].n)
                                           ELSE /\ IF Prog[self][i[self]].op = "repl"
                                                      THEN /\ ord' = InsertAfter(ord, Prog[self][i[self]].n, Prog[self][i[self]].m)
                                                      ELSE /\ TRUE
                                                           /\ ord' = ord
                          /\ pc' = [pc EXCEPT ![self] = "t_disp"]
                     ELSE /\ pc' = [pc EXCEPT ![self] = "Done"]
                          /\ UNCHANGED << ord, op, res >>
               /\ UNCHANGED << mem, sb, acc, incs, csn, alive, member, active, 
                               pres, ever, bad, i, f, x, p, pos, nx, key, seen, 
                               snap >>

t_disp(self) == /\ pc[self] = "t_disp"
                /\ IF op[self].op = "add"
                      THEN /\ pc' = [pc EXCEPT ![self] = "a_key"]
                      ELSE /\ IF op[self].op = "addt"
                                 THEN /\ pc' = [pc EXCEPT ![self] = "at_key"]
                                 ELSE /\ IF op[self].op = "del"
                                            THEN /\ pc' = [pc EXCEPT ![self] = "d_ldn"]
                                            ELSE /\ IF op[self].op = "repl"
                                                       THEN /\ pc' = [pc EXCEPT ![self] = "rp_key"]
                                                       ELSE /\ IF op[self].op = "hadd"
                                                                  THEN /\ pc' = [pc EXCEPT ![self] = "h_key"]
                                                                  ELSE /\ IF op[self].op = "hdel"
                                                                             THEN /\ pc' = [pc EXCEPT ![self] = "hd_ldn"]
                                                                             ELSE /\ IF op[self].op = "free"
                                                                                        THEN /\ pc' = [pc EXCEPT ![self] = "g_mb"]
                                                                                        ELSE /\ pc' = [pc EXCEPT ![self] = "r_lock"]
                /\ UNCHANGED << mem, sb, acc, incs, csn, alive, ord, member, 
                                active, pres, ever, bad, i, op, res, f, x, p, 
                                pos, nx, key, seen, snap >>

a_key(self) == /\ pc[self] = "a_key"
               /\ IF TSO /\ PlainBuf
                     THEN /\ sb' = [sb EXCEPT ![self] = Append(sb[self], <<(KeyOf(op[self].n)), (KeyVal(op[self].n)), NoG>>)]
                          /\ mem' = mem
                     ELSE /\ Drained(self)
                          /\ mem' = [mem EXCEPT ![(KeyOf(op[self].n))] = KeyVal(op[self].n)]
                          /\ sb' = sb
               /\ acc' = Ev(self, "st", (KeyOf(op[self].n)), (KeyVal(op[self].n)), "-", "-")
               /\ pc' = [pc EXCEPT ![self] = "a_ldf"]
               /\ UNCHANGED << incs, csn, alive, ord, member, active, pres, 
                               ever, bad, i, op, res, f, x, p, pos, nx, key, 
                               seen, snap >>

a_ldf(self) == /\ pc[self] = "a_ldf"
               /\ f' = [f EXCEPT ![self] = Rd(self, (NextOf(LH)))]
               /\ acc' = Ev(self, "ld", (NextOf(LH)), "-", "-", Rd(self, (NextOf(LH))))
               /\ pc' = [pc EXCEPT ![self] = "a_nn"]
               /\ UNCHANGED << mem, sb, incs, csn, alive, ord, member, active, 
                               pres, ever, bad, i, op, res, x, p, pos, nx, key, 
                               seen, snap >>

a_nn(self) == /\ pc[self] = "a_nn"
              /\ IF TSO /\ PlainBuf
                    THEN /\ sb' = [sb EXCEPT ![self] = Append(sb[self], <<(NextOf(op[self].n)), f[self], NoG>>)]
                         /\ mem' = mem
                    ELSE /\ Drained(self)
                         /\ mem' = [mem EXCEPT ![(NextOf(op[self].n))] = f[self]]
                         /\ sb' = sb
              /\ acc' = Ev(self, "st", (NextOf(op[self].n)), f[self], "-", "-")
              /\ pc' = [pc EXCEPT ![self] = "a_np"]
              /\ UNCHANGED << incs, csn, alive, ord, member, active, pres, 
                              ever, bad, i, op, res, f, x, p, pos, nx, key, 
                              seen, snap >>

a_np(self) == /\ pc[self] = "a_np"
              /\ IF TSO /\ PlainBuf
                    THEN /\ sb' = [sb EXCEPT ![self] = Append(sb[self], <<(PrevOf(op[self].n)), LH, NoG>>)]
                         /\ mem' = mem
                    ELSE /\ Drained(self)
                         /\ mem' = [mem EXCEPT ![(PrevOf(op[self].n))] = LH]
                         /\ sb' = sb
              /\ acc' = Ev(self, "st", (PrevOf(op[self].n)), LH, "-", "-")
              /\ pc' = [pc EXCEPT ![self] = "a_fp"]
              /\ UNCHANGED << incs, csn, alive, ord, member, active, pres, 
                              ever, bad, i, op, res, f, x, p, pos, nx, key, 
                              seen, snap >>

a_fp(self) == /\ pc[self] = "a_fp"
              /\ IF TSO /\ PlainBuf
                    THEN /\ sb' = [sb EXCEPT ![self] = Append(sb[self], <<(PrevOf(f[self])), (op[self].n), NoG>>)]
                         /\ mem' = mem
                    ELSE /\ Drained(self)
                         /\ mem' = [mem EXCEPT ![(PrevOf(f[self]))] = op[self].n]
                         /\ sb' = sb
              /\ acc' = Ev(self, "st", (PrevOf(f[self])), (op[self].n), "-", "-")
              /\ pc' = [pc EXCEPT ![self] = "a_pub"]
              /\ UNCHANGED << incs, csn, alive, ord, member, active, pres, 
                              ever, bad, i, op, res, f, x, p, pos, nx, key, 
                              seen, snap >>

a_pub(self) == /\ pc[self] = "a_pub"
               /\ IF TSO
                     THEN /\ sb' = [sb EXCEPT ![self] = Append(sb[self], <<(NextOf(LH)), (op[self].n), (Ins(op[self].n))>>)]
                          /\ UNCHANGED << mem, member, pres, ever >>
                     ELSE /\ mem' = [mem EXCEPT ![(NextOf(LH))] = op[self].n]
                          /\ member' = Apply(member, (Ins(op[self].n)))
                          /\ pres' = PresUpd(pres, active, member')
                          /\ ever' = EverUpd(ever, active, member')
                          /\ sb' = sb
               /\ acc' = Ev(self, "st", (NextOf(LH)), (op[self].n), "-", "-")
               /\ pc' = [pc EXCEPT ![self] = "t_ret"]
               /\ UNCHANGED << incs, csn, alive, ord, active, bad, i, op, res, 
                               f, x, p, pos, nx, key, seen, snap >>

at_key(self) == /\ pc[self] = "at_key"
                /\ IF TSO /\ PlainBuf
                      THEN /\ sb' = [sb EXCEPT ![self] = Append(sb[self], <<(KeyOf(op[self].n)), (KeyVal(op[self].n)), NoG>>)]
                           /\ mem' = mem
                      ELSE /\ Drained(self)
                           /\ mem' = [mem EXCEPT ![(KeyOf(op[self].n))] = KeyVal(op[self].n)]
                           /\ sb' = sb
                /\ acc' = Ev(self, "st", (KeyOf(op[self].n)), (KeyVal(op[self].n)), "-", "-")
                /\ pc' = [pc EXCEPT ![self] = "at_nn"]
                /\ UNCHANGED << incs, csn, alive, ord, member, active, pres, 
                                ever, bad, i, op, res, f, x, p, pos, nx, key, 
                                seen, snap >>

at_nn(self) == /\ pc[self] = "at_nn"
               /\ IF TSO /\ PlainBuf
                     THEN /\ sb' = [sb EXCEPT ![self] = Append(sb[self], <<(NextOf(op[self].n)), LH, NoG>>)]
                          /\ mem' = mem
                     ELSE /\ Drained(self)
                          /\ mem' = [mem EXCEPT ![(NextOf(op[self].n))] = LH]
                          /\ sb' = sb
               /\ acc' = Ev(self, "st", (NextOf(op[self].n)), LH, "-", "-")
               /\ pc' = [pc EXCEPT ![self] = "at_ldl"]
               /\ UNCHANGED << incs, csn, alive, ord, member, active, pres, 
                               ever, bad, i, op, res, f, x, p, pos, nx, key, 
                               seen, snap >>

at_ldl(self) == /\ pc[self] = "at_ldl"
                /\ p' = [p EXCEPT ![self] = Rd(self, (PrevOf(LH)))]
                /\ acc' = Ev(self, "ld", (PrevOf(LH)), "-", "-", Rd(self, (PrevOf(LH))))
                /\ pc' = [pc EXCEPT ![self] = "at_np"]
                /\ UNCHANGED << mem, sb, incs, csn, alive, ord, member, active, 
                                pres, ever, bad, i, op, res, f, x, pos, nx, 
                                key, seen, snap >>

at_np(self) == /\ pc[self] = "at_np"
               /\ IF TSO /\ PlainBuf
                     THEN /\ sb' = [sb EXCEPT ![self] = Append(sb[self], <<(PrevOf(op[self].n)), p[self], NoG>>)]
                          /\ mem' = mem
                     ELSE /\ Drained(self)
                          /\ mem' = [mem EXCEPT ![(PrevOf(op[self].n))] = p[self]]
                          /\ sb' = sb
               /\ acc' = Ev(self, "st", (PrevOf(op[self].n)), p[self], "-", "-")
               /\ pc' = [pc EXCEPT ![self] = "at_pub"]
               /\ UNCHANGED << incs, csn, alive, ord, member, active, pres, 
                               ever, bad, i, op, res, f, x, p, pos, nx, key, 
                               seen, snap >>

at_pub(self) == /\ pc[self] = "at_pub"
                /\ IF TSO
                      THEN /\ sb' = [sb EXCEPT ![self] = Append(sb[self], <<(NextOf(p[self])), (op[self].n), (Ins(op[self].n))>>)]
                           /\ UNCHANGED << mem, member, pres, ever >>
                      ELSE /\ mem' = [mem EXCEPT ![(NextOf(p[self]))] = op[self].n]
                           /\ member' = Apply(member, (Ins(op[self].n)))
                           /\ pres' = PresUpd(pres, active, member')
                           /\ ever' = EverUpd(ever, active, member')
                           /\ sb' = sb
                /\ acc' = Ev(self, "st", (NextOf(p[self])), (op[self].n), "-", "-")
                /\ pc' = [pc EXCEPT ![self] = "at_hp"]
                /\ UNCHANGED << incs, csn, alive, ord, active, bad, i, op, res, 
                                f, x, p, pos, nx, key, seen, snap >>

at_hp(self) == /\ pc[self] = "at_hp"
               /\ IF TSO /\ PlainBuf
                     THEN /\ sb' = [sb EXCEPT ![self] = Append(sb[self], <<(PrevOf(LH)), (op[self].n), NoG>>)]
                          /\ mem' = mem
                     ELSE /\ Drained(self)
                          /\ mem' = [mem EXCEPT ![(PrevOf(LH))] = op[self].n]
                          /\ sb' = sb
               /\ acc' = Ev(self, "st", (PrevOf(LH)), (op[self].n), "-", "-")
               /\ pc' = [pc EXCEPT ![self] = "t_ret"]
               /\ UNCHANGED << incs, csn, alive, ord, member, active, pres, 
                               ever, bad, i, op, res, f, x, p, pos, nx, key, 
                               seen, snap >>

d_ldn(self) == /\ pc[self] = "d_ldn"
               /\ x' = [x EXCEPT ![self] = Rd(self, (NextOf(op[self].n)))]
               /\ acc' = Ev(self, "ld", (NextOf(op[self].n)), "-", "-", Rd(self, (NextOf(op[self].n))))
               /\ pc' = [pc EXCEPT ![self] = "d_ldp"]
               /\ UNCHANGED << mem, sb, incs, csn, alive, ord, member, active, 
                               pres, ever, bad, i, op, res, f, p, pos, nx, key, 
                               seen, snap >>

d_ldp(self) == /\ pc[self] = "d_ldp"
               /\ p' = [p EXCEPT ![self] = Rd(self, (PrevOf(op[self].n)))]
               /\ acc' = Ev(self, "ld", (PrevOf(op[self].n)), "-", "-", Rd(self, (PrevOf(op[self].n))))
               /\ pc' = [pc EXCEPT ![self] = "d_xp"]
               /\ UNCHANGED << mem, sb, incs, csn, alive, ord, member, active, 
                               pres, ever, bad, i, op, res, f, x, pos, nx, key, 
                               seen, snap >>

d_xp(self) == /\ pc[self] = "d_xp"
              /\ IF TSO /\ PlainBuf
                    THEN /\ sb' = [sb EXCEPT ![self] = Append(sb[self], <<(PrevOf(x[self])), p[self], NoG>>)]
                         /\ mem' = mem
                    ELSE /\ Drained(self)
                         /\ mem' = [mem EXCEPT ![(PrevOf(x[self]))] = p[self]]
                         /\ sb' = sb
              /\ acc' = Ev(self, "st", (PrevOf(x[self])), p[self], "-", "-")
              /\ pc' = [pc EXCEPT ![self] = "d_ldn2"]
              /\ UNCHANGED << incs, csn, alive, ord, member, active, pres, 
                              ever, bad, i, op, res, f, x, p, pos, nx, key, 
                              seen, snap >>

d_ldn2(self) == /\ pc[self] = "d_ldn2"
                /\ x' = [x EXCEPT ![self] = Rd(self, (NextOf(op[self].n)))]
                /\ acc' = Ev(self, "ld", (NextOf(op[self].n)), "-", "-", Rd(self, (NextOf(op[self].n))))
                /\ pc' = [pc EXCEPT ![self] = "d_pub"]
                /\ UNCHANGED << mem, sb, incs, csn, alive, ord, member, active, 
                                pres, ever, bad, i, op, res, f, p, pos, nx, 
                                key, seen, snap >>

d_pub(self) == /\ pc[self] = "d_pub"
               /\ IF TSO
                     THEN /\ sb' = [sb EXCEPT ![self] = Append(sb[self], <<(NextOf(p[self])), x[self], (Rem(op[self].n))>>)]
                          /\ UNCHANGED << mem, member, pres, ever >>
                     ELSE /\ mem' = [mem EXCEPT ![(NextOf(p[self]))] = x[self]]
                          /\ member' = Apply(member, (Rem(op[self].n)))
                          /\ pres' = PresUpd(pres, active, member')
                          /\ ever' = EverUpd(ever, active, member')
                          /\ sb' = sb
               /\ acc' = Ev(self, "st", (NextOf(p[self])), x[self], "-", "-")
               /\ pc' = [pc EXCEPT ![self] = "t_ret"]
               /\ UNCHANGED << incs, csn, alive, ord, active, bad, i, op, res, 
                               f, x, p, pos, nx, key, seen, snap >>

rp_key(self) == /\ pc[self] = "rp_key"
                /\ IF TSO /\ PlainBuf
                      THEN /\ sb' = [sb EXCEPT ![self] = Append(sb[self], <<(KeyOf(op[self].m)), (KeyVal(op[self].m)), NoG>>)]
                           /\ mem' = mem
                      ELSE /\ Drained(self)
                           /\ mem' = [mem EXCEPT ![(KeyOf(op[self].m))] = KeyVal(op[self].m)]
                           /\ sb' = sb
                /\ acc' = Ev(self, "st", (KeyOf(op[self].m)), (KeyVal(op[self].m)), "-", "-")
                /\ pc' = [pc EXCEPT ![self] = "rp_ldn"]
                /\ UNCHANGED << incs, csn, alive, ord, member, active, pres, 
                                ever, bad, i, op, res, f, x, p, pos, nx, key, 
                                seen, snap >>

rp_ldn(self) == /\ pc[self] = "rp_ldn"
                /\ x' = [x EXCEPT ![self] = Rd(self, (NextOf(op[self].n)))]
                /\ acc' = Ev(self, "ld", (NextOf(op[self].n)), "-", "-", Rd(self, (NextOf(op[self].n))))
                /\ pc' = [pc EXCEPT ![self] = "rp_nn"]
                /\ UNCHANGED << mem, sb, incs, csn, alive, ord, member, active, 
                                pres, ever, bad, i, op, res, f, p, pos, nx, 
                                key, seen, snap >>

rp_nn(self) == /\ pc[self] = "rp_nn"
               /\ IF TSO /\ PlainBuf
                     THEN /\ sb' = [sb EXCEPT ![self] = Append(sb[self], <<(NextOf(op[self].m)), x[self], NoG>>)]
                          /\ mem' = mem
                     ELSE /\ Drained(self)
                          /\ mem' = [mem EXCEPT ![(NextOf(op[self].m))] = x[self]]
                          /\ sb' = sb
               /\ acc' = Ev(self, "st", (NextOf(op[self].m)), x[self], "-", "-")
               /\ pc' = [pc EXCEPT ![self] = "rp_ldp"]
               /\ UNCHANGED << incs, csn, alive, ord, member, active, pres, 
                               ever, bad, i, op, res, f, x, p, pos, nx, key, 
                               seen, snap >>

rp_ldp(self) == /\ pc[self] = "rp_ldp"
                /\ p' = [p EXCEPT ![self] = Rd(self, (PrevOf(op[self].n)))]
                /\ acc' = Ev(self, "ld", (PrevOf(op[self].n)), "-", "-", Rd(self, (PrevOf(op[self].n))))
                /\ pc' = [pc EXCEPT ![self] = "rp_np"]
                /\ UNCHANGED << mem, sb, incs, csn, alive, ord, member, active, 
                                pres, ever, bad, i, op, res, f, x, pos, nx, 
                                key, seen, snap >>

rp_np(self) == /\ pc[self] = "rp_np"
               /\ IF TSO /\ PlainBuf
                     THEN /\ sb' = [sb EXCEPT ![self] = Append(sb[self], <<(PrevOf(op[self].m)), p[self], NoG>>)]
                          /\ mem' = mem
                     ELSE /\ Drained(self)
                          /\ mem' = [mem EXCEPT ![(PrevOf(op[self].m))] = p[self]]
                          /\ sb' = sb
               /\ acc' = Ev(self, "st", (PrevOf(op[self].m)), p[self], "-", "-")
               /\ pc' = [pc EXCEPT ![self] = "rp_pub"]
               /\ UNCHANGED << incs, csn, alive, ord, member, active, pres, 
                               ever, bad, i, op, res, f, x, p, pos, nx, key, 
                               seen, snap >>

rp_pub(self) == /\ pc[self] = "rp_pub"
                /\ IF TSO
                      THEN /\ sb' = [sb EXCEPT ![self] = Append(sb[self], <<(NextOf(p[self])), (op[self].m), (Rep(op[self].n, op[self].m))>>)]
                           /\ UNCHANGED << mem, member, pres, ever >>
                      ELSE /\ mem' = [mem EXCEPT ![(NextOf(p[self]))] = op[self].m]
                           /\ member' = Apply(member, (Rep(op[self].n, op[self].m)))
                           /\ pres' = PresUpd(pres, active, member')
                           /\ ever' = EverUpd(ever, active, member')
                           /\ sb' = sb
                /\ acc' = Ev(self, "st", (NextOf(p[self])), (op[self].m), "-", "-")
                /\ pc' = [pc EXCEPT ![self] = "rp_ldn2"]
                /\ UNCHANGED << incs, csn, alive, ord, active, bad, i, op, res, 
                                f, x, p, pos, nx, key, seen, snap >>

rp_ldn2(self) == /\ pc[self] = "rp_ldn2"
                 /\ x' = [x EXCEPT ![self] = Rd(self, (NextOf(op[self].m)))]
                 /\ acc' = Ev(self, "ld", (NextOf(op[self].m)), "-", "-", Rd(self, (NextOf(op[self].m))))
                 /\ pc' = [pc EXCEPT ![self] = "rp_xp"]
                 /\ UNCHANGED << mem, sb, incs, csn, alive, ord, member, 
                                 active, pres, ever, bad, i, op, res, f, p, 
                                 pos, nx, key, seen, snap >>

rp_xp(self) == /\ pc[self] = "rp_xp"
               /\ IF TSO /\ PlainBuf
                     THEN /\ sb' = [sb EXCEPT ![self] = Append(sb[self], <<(PrevOf(x[self])), (op[self].m), NoG>>)]
                          /\ mem' = mem
                     ELSE /\ Drained(self)
                          /\ mem' = [mem EXCEPT ![(PrevOf(x[self]))] = op[self].m]
                          /\ sb' = sb
               /\ acc' = Ev(self, "st", (PrevOf(x[self])), (op[self].m), "-", "-")
               /\ pc' = [pc EXCEPT ![self] = "t_ret"]
               /\ UNCHANGED << incs, csn, alive, ord, member, active, pres, 
                               ever, bad, i, op, res, f, x, p, pos, nx, key, 
                               seen, snap >>

h_key(self) == /\ pc[self] = "h_key"
               /\ IF TSO /\ PlainBuf
                     THEN /\ sb' = [sb EXCEPT ![self] = Append(sb[self], <<(KeyOf(op[self].n)), (KeyVal(op[self].n)), NoG>>)]
                          /\ mem' = mem
                     ELSE /\ Drained(self)
                          /\ mem' = [mem EXCEPT ![(KeyOf(op[self].n))] = KeyVal(op[self].n)]
                          /\ sb' = sb
               /\ acc' = Ev(self, "st", (KeyOf(op[self].n)), (KeyVal(op[self].n)), "-", "-")
               /\ pc' = [pc EXCEPT ![self] = "h_ldf"]
               /\ UNCHANGED << incs, csn, alive, ord, member, active, pres, 
                               ever, bad, i, op, res, f, x, p, pos, nx, key, 
                               seen, snap >>

h_ldf(self) == /\ pc[self] = "h_ldf"
               /\ f' = [f EXCEPT ![self] = Rd(self, (NextOf(LH)))]
               /\ acc' = Ev(self, "ld", (NextOf(LH)), "-", "-", Rd(self, (NextOf(LH))))
               /\ pc' = [pc EXCEPT ![self] = "h_nn"]
               /\ UNCHANGED << mem, sb, incs, csn, alive, ord, member, active, 
                               pres, ever, bad, i, op, res, x, p, pos, nx, key, 
                               seen, snap >>

h_nn(self) == /\ pc[self] = "h_nn"
              /\ IF TSO /\ PlainBuf
                    THEN /\ sb' = [sb EXCEPT ![self] = Append(sb[self], <<(NextOf(op[self].n)), f[self], NoG>>)]
                         /\ mem' = mem
                    ELSE /\ Drained(self)
                         /\ mem' = [mem EXCEPT ![(NextOf(op[self].n))] = f[self]]
                         /\ sb' = sb
              /\ acc' = Ev(self, "st", (NextOf(op[self].n)), f[self], "-", "-")
              /\ pc' = [pc EXCEPT ![self] = "h_np"]
              /\ UNCHANGED << incs, csn, alive, ord, member, active, pres, 
                              ever, bad, i, op, res, f, x, p, pos, nx, key, 
                              seen, snap >>

h_np(self) == /\ pc[self] = "h_np"
              /\ IF TSO /\ PlainBuf
                    THEN /\ sb' = [sb EXCEPT ![self] = Append(sb[self], <<(PrevOf(op[self].n)), LH, NoG>>)]
                         /\ mem' = mem
                    ELSE /\ Drained(self)
                         /\ mem' = [mem EXCEPT ![(PrevOf(op[self].n))] = LH]
                         /\ sb' = sb
              /\ acc' = Ev(self, "st", (PrevOf(op[self].n)), LH, "-", "-")
              /\ IF f[self] = NULL
                    THEN /\ pc' = [pc EXCEPT ![self] = "h_pub"]
                    ELSE /\ pc' = [pc EXCEPT ![self] = "h_fp"]
              /\ UNCHANGED << incs, csn, alive, ord, member, active, pres, 
                              ever, bad, i, op, res, f, x, p, pos, nx, key, 
                              seen, snap >>

h_fp(self) == /\ pc[self] = "h_fp"
              /\ IF TSO /\ PlainBuf
                    THEN /\ sb' = [sb EXCEPT ![self] = Append(sb[self], <<(PrevOf(f[self])), (op[self].n), NoG>>)]
                         /\ mem' = mem
                    ELSE /\ Drained(self)
                         /\ mem' = [mem EXCEPT ![(PrevOf(f[self]))] = op[self].n]
                         /\ sb' = sb
              /\ acc' = Ev(self, "st", (PrevOf(f[self])), (op[self].n), "-", "-")
              /\ pc' = [pc EXCEPT ![self] = "h_pub"]
              /\ UNCHANGED << incs, csn, alive, ord, member, active, pres, 
                              ever, bad, i, op, res, f, x, p, pos, nx, key, 
                              seen, snap >>

h_pub(self) == /\ pc[self] = "h_pub"
               /\ IF TSO
                     THEN /\ sb' = [sb EXCEPT ![self] = Append(sb[self], <<(NextOf(LH)), (op[self].n), (Ins(op[self].n))>>)]
                          /\ UNCHANGED << mem, member, pres, ever >>
                     ELSE /\ mem' = [mem EXCEPT ![(NextOf(LH))] = op[self].n]
                          /\ member' = Apply(member, (Ins(op[self].n)))
                          /\ pres' = PresUpd(pres, active, member')
                          /\ ever' = EverUpd(ever, active, member')
                          /\ sb' = sb
               /\ acc' = Ev(self, "st", (NextOf(LH)), (op[self].n), "-", "-")
               /\ pc' = [pc EXCEPT ![self] = "t_ret"]
               /\ UNCHANGED << incs, csn, alive, ord, active, bad, i, op, res, 
                               f, x, p, pos, nx, key, seen, snap >>

hd_ldn(self) == /\ pc[self] = "hd_ldn"
                /\ x' = [x EXCEPT ![self] = Rd(self, (NextOf(op[self].n)))]
                /\ acc' = Ev(self, "ld", (NextOf(op[self].n)), "-", "-", Rd(self, (NextOf(op[self].n))))
                /\ IF x'[self] = NULL
                      THEN /\ pc' = [pc EXCEPT ![self] = "hd_ldp2"]
                      ELSE /\ pc' = [pc EXCEPT ![self] = "hd_ldp"]
                /\ UNCHANGED << mem, sb, incs, csn, alive, ord, member, active, 
                                pres, ever, bad, i, op, res, f, p, pos, nx, 
                                key, seen, snap >>

hd_ldp(self) == /\ pc[self] = "hd_ldp"
                /\ p' = [p EXCEPT ![self] = Rd(self, (PrevOf(op[self].n)))]
                /\ acc' = Ev(self, "ld", (PrevOf(op[self].n)), "-", "-", Rd(self, (PrevOf(op[self].n))))
                /\ pc' = [pc EXCEPT ![self] = "hd_xp"]
                /\ UNCHANGED << mem, sb, incs, csn, alive, ord, member, active, 
                                pres, ever, bad, i, op, res, f, x, pos, nx, 
                                key, seen, snap >>

hd_xp(self) == /\ pc[self] = "hd_xp"
               /\ IF TSO /\ PlainBuf
                     THEN /\ sb' = [sb EXCEPT ![self] = Append(sb[self], <<(PrevOf(x[self])), p[self], NoG>>)]
                          /\ mem' = mem
                     ELSE /\ Drained(self)
                          /\ mem' = [mem EXCEPT ![(PrevOf(x[self]))] = p[self]]
                          /\ sb' = sb
               /\ acc' = Ev(self, "st", (PrevOf(x[self])), p[self], "-", "-")
               /\ pc' = [pc EXCEPT ![self] = "hd_ldp2"]
               /\ UNCHANGED << incs, csn, alive, ord, member, active, pres, 
                               ever, bad, i, op, res, f, x, p, pos, nx, key, 
                               seen, snap >>

hd_ldp2(self) == /\ pc[self] = "hd_ldp2"
                 /\ p' = [p EXCEPT ![self] = Rd(self, (PrevOf(op[self].n)))]
                 /\ acc' = Ev(self, "ld", (PrevOf(op[self].n)), "-", "-", Rd(self, (PrevOf(op[self].n))))
                 /\ pc' = [pc EXCEPT ![self] = "hd_ldn2"]
                 /\ UNCHANGED << mem, sb, incs, csn, alive, ord, member, 
                                 active, pres, ever, bad, i, op, res, f, x, 
                                 pos, nx, key, seen, snap >>

hd_ldn2(self) == /\ pc[self] = "hd_ldn2"
                 /\ x' = [x EXCEPT ![self] = Rd(self, (NextOf(op[self].n)))]
                 /\ acc' = Ev(self, "ld", (NextOf(op[self].n)), "-", "-", Rd(self, (NextOf(op[self].n))))
                 /\ pc' = [pc EXCEPT ![self] = "hd_pub"]
                 /\ UNCHANGED << mem, sb, incs, csn, alive, ord, member, 
                                 active, pres, ever, bad, i, op, res, f, p, 
                                 pos, nx, key, seen, snap >>

hd_pub(self) == /\ pc[self] = "hd_pub"
                /\ IF TSO
                      THEN /\ sb' = [sb EXCEPT ![self] = Append(sb[self], <<(NextOf(p[self])), x[self], (Rem(op[self].n))>>)]
                           /\ UNCHANGED << mem, member, pres, ever >>
                      ELSE /\ mem' = [mem EXCEPT ![(NextOf(p[self]))] = x[self]]
                           /\ member' = Apply(member, (Rem(op[self].n)))
                           /\ pres' = PresUpd(pres, active, member')
                           /\ ever' = EverUpd(ever, active, member')
                           /\ sb' = sb
                /\ acc' = Ev(self, "st", (NextOf(p[self])), x[self], "-", "-")
                /\ pc' = [pc EXCEPT ![self] = "t_ret"]
                /\ UNCHANGED << incs, csn, alive, ord, active, bad, i, op, res, 
                                f, x, p, pos, nx, key, seen, snap >>

g_mb(self) == /\ pc[self] = "g_mb"
              /\ Drained(self)
              /\ snap' = [snap EXCEPT ![self] = [r \in Threads |-> IF incs[r] THEN csn[r] ELSE 0]]
              /\ acc' = Ev(self, "mb", "-", "-", "-", "-")
              /\ pc' = [pc EXCEPT ![self] = "g_end"]
              /\ UNCHANGED << mem, sb, incs, csn, alive, ord, member, active, 
                              pres, ever, bad, i, op, res, f, x, p, pos, nx, 
                              key, seen >>

g_end(self) == /\ pc[self] = "g_end"
               /\ Drained(self) /\ GpDone(snap[self])
               /\ alive' = [alive EXCEPT ![op[self].n] = FALSE]
               /\ acc' = Ev(self, "gp_end", "-", "-", "-", "-")
               /\ pc' = [pc EXCEPT ![self] = "t_ret"]
               /\ UNCHANGED << mem, sb, incs, csn, ord, member, active, pres, 
                               ever, bad, i, op, res, f, x, p, pos, nx, key, 
                               seen, snap >>

r_lock(self) == /\ pc[self] = "r_lock"
                /\ incs' = [incs EXCEPT ![self] = TRUE]
                /\ csn' = [csn EXCEPT ![self] = csn[self] + 1]
                /\ acc' = Ev(self, "rlock", "-", "-", "-", "-")
                /\ pc' = [pc EXCEPT ![self] = "r_first"]
                /\ UNCHANGED << mem, sb, alive, ord, member, active, pres, 
                                ever, bad, i, op, res, f, x, p, pos, nx, key, 
                                seen, snap >>

r_first(self) == /\ pc[self] = "r_first"
                 /\ pos' = [pos EXCEPT ![self] = Rd(self, (NextOf(LH)))]
                 /\ acc' = Ev(self, "ld", (NextOf(LH)), "-", "-", Rd(self, (NextOf(LH))))
                 /\ IF pos'[self] = End
                       THEN /\ seen' = [seen EXCEPT ![self] = <<>>]
                            /\ bad' = (bad \cup EndBad(member, <<>>))
                            /\ pc' = [pc EXCEPT ![self] = "r_unlock"]
                            /\ UNCHANGED << active, pres, ever >>
                       ELSE /\ IF pos'[self] \notin Nodes
                                  THEN /\ seen' = [seen EXCEPT ![self] = <<>>]
                                       /\ bad' = (bad \cup {"traversal reached a wild pointer"})
                                       /\ pc' = [pc EXCEPT ![self] = "r_unlock"]
                                       /\ UNCHANGED << active, pres, ever >>
                                  ELSE /\ active' = [active EXCEPT ![self] = TRUE]
                                       /\ pres' = [pres EXCEPT ![self] = member]
                                       /\ ever' = [ever EXCEPT ![self] = member]
                                       /\ bad' = (bad \cup VisitBad(member, <<>>, pos'[self]))
                                       /\ seen' = [seen EXCEPT ![self] = <<pos'[self]>>]
                                       /\ pc' = [pc EXCEPT ![self] = "r_key"]
                 /\ UNCHANGED << mem, sb, incs, csn, alive, ord, member, i, op, 
                                 res, f, x, p, nx, key, snap >>

r_key(self) == /\ pc[self] = "r_key"
               /\ key' = [key EXCEPT ![self] = Rd(self, (KeyOf(pos[self])))]
               /\ acc' = Ev(self, "ld", (KeyOf(pos[self])), "-", "-", Rd(self, (KeyOf(pos[self]))))
               /\ bad' = (bad \cup DeadBad(pos[self]) \cup (IF key'[self] # KeyVal(pos[self]) THEN {"payload not initialised"} ELSE {}))
               /\ pc' = [pc EXCEPT ![self] = "r_next"]
               /\ UNCHANGED << mem, sb, incs, csn, alive, ord, member, active, 
                               pres, ever, i, op, res, f, x, p, pos, nx, seen, 
                               snap >>

r_next(self) == /\ pc[self] = "r_next"
                /\ nx' = [nx EXCEPT ![self] = Rd(self, (NextOf(pos[self])))]
                /\ acc' = Ev(self, "ld", (NextOf(pos[self])), "-", "-", Rd(self, (NextOf(pos[self]))))
                /\ bad' = (bad \cup DeadBad(pos[self]) \cup (IF nx'[self] = End THEN EndBad(pres[self], seen[self])
                                                              ELSE IF nx'[self] \notin Nodes THEN {"traversal reached a wild pointer"}
                                                              ELSE VisitBad(ever[self], seen[self], nx'[self])))
                /\ IF nx'[self] \in Nodes
                      THEN /\ pos' = [pos EXCEPT ![self] = nx'[self]]
                           /\ seen' = [seen EXCEPT ![self] = Append(seen[self], nx'[self])]
                           /\ pc' = [pc EXCEPT ![self] = "r_key"]
                           /\ UNCHANGED active
                      ELSE /\ active' = [active EXCEPT ![self] = FALSE]
                           /\ pc' = [pc EXCEPT ![self] = "r_unlock"]
                           /\ UNCHANGED << pos, seen >>
                /\ UNCHANGED << mem, sb, incs, csn, alive, ord, member, pres, 
                                ever, i, op, res, f, x, p, key, snap >>

r_unlock(self) == /\ pc[self] = "r_unlock"
                  /\ incs' = [incs EXCEPT ![self] = FALSE]
                  /\ res' = [res EXCEPT ![self] = Join(seen[self])]
                  /\ acc' = Ev(self, "runlock", "-", "-", "-", "-")
                  /\ pc' = [pc EXCEPT ![self] = "t_ret"]
                  /\ UNCHANGED << mem, sb, csn, alive, ord, member, active, 
                                  pres, ever, bad, i, op, f, x, p, pos, nx, 
                                  key, seen, snap >>

t_ret(self) == /\ pc[self] = "t_ret"
               /\ i' = [i EXCEPT ![self] = i[self] + 1]
               /\ pc' = [pc EXCEPT ![self] = "t_top"]
               /\ UNCHANGED << mem, sb, acc, incs, csn, alive, ord, member, 
                               active, pres, ever, bad, op, res, f, x, p, pos, 
                               nx, key, seen, snap >>

thr(self) == t_top(self) \/ t_disp(self) \/ a_key(self) \/ a_ldf(self)
                \/ a_nn(self) \/ a_np(self) \/ a_fp(self) \/ a_pub(self)
                \/ at_key(self) \/ at_nn(self) \/ at_ldl(self)
                \/ at_np(self) \/ at_pub(self) \/ at_hp(self)
                \/ d_ldn(self) \/ d_ldp(self) \/ d_xp(self) \/ d_ldn2(self)
                \/ d_pub(self) \/ rp_key(self) \/ rp_ldn(self)
                \/ rp_nn(self) \/ rp_ldp(self) \/ rp_np(self)
                \/ rp_pub(self) \/ rp_ldn2(self) \/ rp_xp(self)
                \/ h_key(self) \/ h_ldf(self) \/ h_nn(self) \/ h_np(self)
                \/ h_fp(self) \/ h_pub(self) \/ hd_ldn(self)
                \/ hd_ldp(self) \/ hd_xp(self) \/ hd_ldp2(self)
                \/ hd_ldn2(self) \/ hd_pub(self) \/ g_mb(self)
                \/ g_end(self) \/ r_lock(self) \/ r_first(self)
                \/ r_key(self) \/ r_next(self) \/ r_unlock(self)
                \/ t_ret(self)

Next == (\E self \in Flushers: flusher(self))
           \/ (\E self \in Threads: thr(self))

Spec == /\ Init /\ [][Next]_vars
        /\ \A self \in Flushers : WF_vars(flusher(self))
        /\ \A self \in Threads : WF_vars(thr(self))

\* END TRANSLATION

AllDone == \A t \in Threads : pc[t] = "Done"
\* ---- the abstract list and its representation in shared memory
AbsSeq == Filter(ord, member)
MemConsistent == ReachSeq(mem) = AbsSeq
\* ---- C18 clauses
NoFreedAccess == "dereferenced a freed node" \notin bad
Initialised   == "payload not initialised" \notin bad
InOrder       == "visited out of list order" \notin bad
OnlyPresent   == {"visited a node that was not in the list during the traversal", "visited a node that was never inserted",
                  "traversal reached a wild pointer"} \cap bad = {}
Complete      == "missed a node that was in the list for the whole traversal" \notin bad
Terminates    == \A t \in Threads : Len(seen[t]) <= Cardinality(Nodes)
\* deadlock freedom with an explicit notion of termination (flushers never terminate)
DeadlockFree == AllDone \/ ENABLED Next
SBBound == \A t \in Threads : Len(sb[t]) <= SBMax
=============================================================================
